"""C08 Type sizes, alignments and layouts equal the psABI (DESIGN.md §3 C08)."""
import itertools, json, os, subprocess, time
from ..interp import Interp, Obj, Sym, View, vkey, _Ref, _ValPlace
from ..build import AnalysisBroken
from ..lib_c08 import (Fn, Summary, select, Uninterpretable, StepInterp, GuardInterp, Budgeted, int_locals_written_in, find_member_loop,
                       IterInterp, enclosing_loops, generic_args, may_write_through, HeaderTypes, leaves, Ownership, SHARED, UNKNOWN)

PU = 'parse.c'


def run(P, rep, tier):
    u = P.unit(PU)
    rep.explanation = (
        'Finite tables are decided completely: declspec is executed by Engine I on concrete token lists for every keyword sequence on the '
        'frontier of C11 6.7.2p2 (all orders of the 31 valid multisets; every valid multiset plus one more keyword), the 13 ty_* objects and '
        'the 6 type constructors are read from type.c and compared with psABI Fig. 3.1. The member loops of struct_decl/union_decl are '
        'summarised by Engine I as a step function (havocked running state, one generic member per member class, generic exit state) and '
        'the summary is compared, as a function, with the psABI/gcc step function on a grid of layout states that covers two periods of '
        'every alignment involved, so an equivalent rewrite of a formula is not an alarm. attribute_list, the _Alignas specifier and the '
        'three declaration sites are interpreted on concrete/abstract inputs and the alignment that reaches the object is compared with '
        '"attribute else type"; attribute_list is run on attribute lists whose aligned() arguments and the alignment on entry are unknowns, and its path '
        'summaries are compared as a function with "every positive aligned(N) sets the alignment, the last one decides" on a grid (entry alignment 1..64, arguments -8..4096). '
        'The step and the final size are judged on every path whose condition holds at a grid state, for packed and unpacked '
        'types (fields of the type that are not layout state are unconstrained). stddef.h is read through clang and compared with the types the compiler gives sizeof, pointer '
        'difference and wide literals; every ABI-visible typedef of stddef.h, stdarg.h and stdatomic.h is laid out by the psABI rules from its declaration and '
        'its size, alignment, signedness (and for va_list the member offsets) are compared with the platform ABI. Not decided: the fold of the step function over member sequences (the step + entry + exit '
        'obligations are the induction argument), declarators, initialisers, the value offsetof yields. Decided for offsetof: that the expansion <stddef.h> gives is a constant expression for '
        'is_const_expr(), the predicate that chooses between a fixed-size and a variable-length array type. Ownership of type objects (R08.6): a flow-sensitive provenance analysis over every function of every unit '
        'decides for each store into a Type/Member object whether the object can be one that other declarations share (typedef\'d types, ty_* globals, `ty`/`base` fields); only objects the '
        'activation created, or the type of a tag that a definition completes, may be written; functions that store through a parameter are followed to every caller. '
        'Name resolution (R08.7): the size / alignment / offset an expression yields is that of the type or member its name denotes - the exact-spelling obligations of C17 R17.17 for every name comparison and keyed '
        'table operation of the parser and the scope obligations of C03 R03.5 for tags and typedef names are re-issued. sizeof of an incomplete type (negative size marker) must end in a diagnostic on every path (R08.4 '
        'incomplete-operand-diagnosed); a member declaration without declarator becomes an anonymous member only on paths that looked at more than the kind of its type (R08.3 anonymous-member/untagged-specifier-only); struct_members() is also executed on concrete member lists whose first declaration has no declarator (0-3 __attribute__ groups before the brace, attributes after it, qualifiers, _Alignas, tagged / untagged / typedef-name specifiers, nested specifiers) with declspec()/declarator() modelled on the tokens: exactly the untagged struct/union specifiers add one member (R08.3 anonymous-member-world/*). Static images (R08.8): the bit-field merge of the static-initializer back end puts a value into exactly the bits the layout assigned (C05 R05.4 re-issued).')
    rep.assumptions += [
        'calloc succeeds and zero-fills', 'equal()/consume()/skip() compare a token with a spelling (tokenize.c)',
        'layout grid: running offset 0..287 bits, bit-field types of 1,2,4,8 bytes with every width 1..8*size, member sizes 0..48, alignments 1..16; values never overflow int',
        'a struct_union_decl() result has size 0 (complete; checked for definitions by R08.3 definition/*/complete) or -1 (forward declaration) and alignment >= 1',
        'struct_members() writes members/is_flexible of the type it is given and attribute_list() is_packed/align (each checked on its own); declspec() only adds to *attr',
        'a non-positive aligned() argument may be ignored or diagnosed (not judged further); alignments that are not powers of two are outside the attribute grid',
        'packed layouts are compared with gcc (an explicit _Alignas(N) on a member of a packed type, N above the member type\'s alignment, is honoured: placement and type alignment as in an unpacked type), the rest with psABI 3.1.2; an _Alignas equal to the type\'s alignment is not distinguishable in the member object and not judged',
        'Type.name/name_pos (the identifier a declarator records in whatever type object it returns) and Type.vla_size (run-time size slot of a VLA type, assigned where the declaration is evaluated) do not describe the type: stores into them are not judged by R08.6',
        'R08.6: pointer provenance is tracked through locals, returns and parameters; the value of a `Type *` field or global is "shared"; a `Member *` loaded from a type object belongs to that object, except that a whole-object copy (`*new = *old`, copy_type()) still shares its member list with the original until its `members` field receives a fresh list; a local `Member **`/`Type **` that only receives `&obj->field` is followed (loads and stores through it are loads from / stores into those objects), other pointers to pointers are not; a store into a shared object on a path that correlated conditions exclude is still reported',
        'platform ABI of the header typedefs: gcc <stddef.h>/<stdarg.h>/<stdatomic.h> with glibc <stdint.h> on x86-64 (int_fast16/32/64_t are long); _Atomic T has the size and alignment of T (T up to 8 bytes)',
    ]
    import traceback
    for rule, f in (('R08.3', r083), ('R08.2', r082), ('R08.1', r081), ('R08.4', r084), ('R08.4', r084_alignas_specifier), ('R08.4', r084_specifier_state), ('R08.5', r085),
                    ('R08.5', r085_abi_layout), ('R08.5', r085_offsetof), ('R08.6', r086), ('R08.7', r087), ('R08.8', r088)):
        try:
            f(P, u, rep)
        except AnalysisBroken as ex:          # one rule's anchors vanishing must not silence the others
            rep.undecided(rule, '%s:%s' % (PU, f.__name__), 'analysis could not proceed: %s' % ex)
        except Exception as ex:               # a checker bug is never a verdict
            tb = traceback.format_exc().strip().splitlines()
            rep.undecided(rule, '%s:%s' % (PU, f.__name__), 'internal error of the checker: %s | %s' % (ex, ' / '.join(tb[-3:])))


# =====================================================================================
# R08.7 a type name / member designator denotes THAT type / THAT member
# =====================================================================================
def _borrow87(rep, key, f):
    from ..interp import Unsupported, Infeasible
    try:
        f()
        return True
    except (AnalysisBroken, Unsupported, Infeasible) as e:
        rep.undecided('R08.7', key + ':analysis', 'analysis could not proceed: %s' % e)
    except (ImportError, AttributeError, TypeError, KeyError, IndexError, ValueError, RecursionError) as e:
        rep.undecided('R08.7', key + ':borrowed-rule', 'the rule function re-used here could not be run: %r' % (e,))
    return False


# functions of the scope chain through which a name denotes a TYPE (tags, typedef names) - C03 R03.5 speaks about more (ordinary identifiers)
_TYPE_NAME_LOOKUPS = ('find_tag', 'find_typedef', 'push_tag_scope', 'struct_union_decl', 'enter_scope', 'leave_scope')


def r087(P, u, rep):
    """sizeof / _Alignof / offsetof / pointer stride are answered from the Type or Member object a NAME resolves to.  The tables above are about the
    objects; this rule is about the resolution: (i) `x.m`, `p->m`, offsetof(T, m) (which is &((T *)0)->m) and `.m =` find the member whose name is
    exactly m - C17 R17.17 (every byte comparison of a (pointer, length) key with a stored name in the parser is decided together with a test of the
    stored name's length, whatever shape the test has; every table operation gets the length that belongs to its key) re-issued;
    (ii) `struct T` / a typedef name denote the declaration of the innermost scope, and a definition `struct T { ... struct T *next; }` refers to itself
    from its first member on - C03 R03.5 re-issued for the lookups through which a name denotes a type"""
    from ..report import Report, reissue
    rep.rule('R08.7', 'the size, alignment, offset and stride an expression yields are those of the type / member its NAME denotes: a member designator (x.m, p->m, offsetof(T, m), .m =) selects the member '
                      'whose name has the same length and bytes as the identifier (C17 R17.17 re-issued for every name comparison and keyed table operation of the parser); `struct T`, `union T` and typedef names denote the declaration of the '
                      'innermost scope, and the tag of a definition is in the innermost scope before its members are parsed, so that `struct T *next` inside `struct T {...}` has the layout of the type being defined (C03 R03.5 re-issued)', floor=16)
    sub17, sub3 = Report('C17'), Report('C03')

    def go17():
        from . import c17
        c17.r1717(P, sub17)

    def go3():
        from . import c03
        c03.r035(P, sub3)
    n17 = n3 = 0
    if _borrow87(rep, 'parse.c:name-comparisons', go17):
        n17 = reissue(rep, 'R08.7', sub17, 'a member designator / tag / typedef name would resolve to the entry of another name, and the layout query is answered for that one: ',
                      keep=lambda o: o['rule'] == 'R17.17' and o['key'].split(':', 1)[1].startswith(PU + ':'))
        if n17 < 6:
            rep.undecided('R08.7', 'parse.c:name-comparisons', 'only %d name comparison(s) / keyed table operation(s) of the parser (C17 R17.17) could be re-issued' % n17)
    if _borrow87(rep, 'parse.c:type-names', go3):
        def keep3(o):
            k = o['key'].split(':')
            return o['rule'] == 'R03.5' and len(k) > 2 and k[2] in _TYPE_NAME_LOOKUPS
        n3 = reissue(rep, 'R08.7', sub3, 'sizeof / _Alignof / the stride of a pointer to `struct T` (or a typedef name) would be those of another declaration of that name: ', keep=keep3)
        if n3 < 8:
            rep.undecided('R08.7', 'parse.c:type-names', 'only %d obligation(s) about tag / typedef lookup (C03 R03.5) could be re-issued' % n3)


# =====================================================================================
# R08.8 the image of a statically initialised object has a bit-field's value in the bits the layout assigned to it
# =====================================================================================
def r088(P, u, rep):
    """struct_decl/union_decl assign a bit-field the bits [bit_offset, bit_offset + bit_width) of the storage unit at `offset` (R08.3).  An object with static
    storage gets its bytes at compile time: the merge of write_gvar_data's bit-field arm must put the value into exactly these bits - all bit_width of them, for
    widths up to 64, computed in 64 bits on the host (a host `int` shift by bit_width or bit_offset drops or wraps the bits above 31) - and leave the other bits
    of the unit alone.  C05 R05.4 decides this for the static back end (merge formula as a term, width of the arithmetic, width of the unit read and written);
    the same obligations state the image clause of C08 and are re-issued."""
    from ..report import Report, reissue
    rep.rule('R08.8', 'static images: a bit-field initialised at compile time occupies exactly the bits the layout assigned to it (bit_offset .. bit_offset + bit_width - 1 of its storage unit, '
                      'widths up to 64): the merge is old | ((new & ((1 << width) - 1)) << offset) computed in 64 bits, on a unit read and written with its own size (C05 R05.4 re-issued)', floor=3)
    from ..interp import Unsupported, Infeasible
    sub = Report('C05')
    key = '%s:write_gvar_data:bit-field-image' % PU
    try:
        from . import c05
        try:
            for r in ('R05.1', 'R05.2', 'R05.3', 'R05.4', 'R05.5', 'R05.7', 'R05.13'):
                sub.rule(r, '', 1)
            be = c05.BackEnd(P, u, u.enums, 'write_gvar_data')
            c05.r051_struct(be, sub)
            c05.r051_union(be, sub)
        except (AttributeError, TypeError):
            sub = Report('C05')
            c05.run(P, sub, 'quick')
    except (AnalysisBroken, Unsupported, Infeasible) as e:
        rep.undecided('R08.8', key, 'the static back end could not be evaluated: %s' % e)
        return
    except (ImportError, KeyError, IndexError, ValueError, RecursionError) as e:
        rep.undecided('R08.8', key, 'the rule function re-used here could not be run: %r' % (e,))
        return
    n = reissue(rep, 'R08.8', sub, 'the bytes of a statically initialised object do not have the bit-field in the bits the layout assigned to it: ',
                keep=lambda o: o['key'].startswith('R05.4:'))
    if n < 3:
        rep.undecided('R08.8', key, 'only %d obligation(s) of C05 R05.4 about the bit-field merge could be re-issued (floor 3)' % n)


# =====================================================================================
# R08.3 layout step
# =====================================================================================
def up(n, a):
    return (n + a - 1) // a * a


# member classes: (name, is_bitfield, named, zero_width, state filter, struct only)
def _crossing(e):
    return e['B'] // (8 * e['S']) != (e['B'] + e['W'] - 1) // (8 * e['S'])


CLASSES = [
    ('member',                         False, True,  False, None, False),
    ('alignas-member',                 False, True,  False, None, False),
    ('member-after-bits',              False, True,  False, None, True),
    ('anonymous-member',               False, False, False, None, False),      # `struct {...};` / `union {...};`: no name, not a bit-field
    ('alignas-anonymous-member',       False, False, False, None, False),
    ('bitfield',                       True,  True,  False, lambda e: not _crossing(e), False),
    ('bitfield-crossing-unit',         True,  True,  False, _crossing, True),
    ('unnamed-bitfield',               True,  False, False, lambda e: not _crossing(e), False),
    ('unnamed-bitfield-crossing-unit', True,  False, False, _crossing, True),
    ('zero-width-bitfield',            True,  False, True,  None, False),
]
ALIGNS = (1, 2, 4, 8, 16)


def grid(cls, packed, union):
    """layout states (dict) for a member class"""
    name = cls[0]
    out = []
    if union and cls[5]:
        return out
    if cls[4] is not None and not union:
        base = grid(cls[:4] + (None, cls[5]), packed, union)
        return [e for e in base if cls[4](e)]
    if cls[1]:
        for S in (1, 2, 4, 8):
            widths = (0,) if cls[3] else range(1, 8 * S + 1)
            for W in widths:
                if union:
                    for Z in (0, 1, 2, 3, 4, 5, 8, 9, 16):
                        for A in ALIGNS:
                            out.append({'S': S, 'TA': S, 'MA': S, 'W': W, 'Z': Z, 'A': A, 'B': 0})
                else:
                    for B in range(0, 150):
                        A = ALIGNS[(B + W) % 5]
                        out.append({'S': S, 'TA': S, 'MA': S, 'W': W, 'B': B, 'A': A, 'Z': 0})
                    for A in ALIGNS:
                        out.append({'S': S, 'TA': S, 'MA': S, 'W': W, 'B': 8 * S + 3, 'A': A, 'Z': 0})
        return out
    shapes = []
    for TA in ALIGNS:
        for mult in (0, 1, 2, 3):
            S = TA * mult
            if name.startswith('alignas-'):
                for MA in ALIGNS:
                    if MA > TA:
                        shapes.append((S, TA, MA))
            else:
                shapes.append((S, TA, TA))
    for (S, TA, MA) in shapes:
        if union:
            for Z in (0, 1, 2, 3, 4, 5, 8, 9, 16, 24, 40):
                for A in ALIGNS:
                    out.append({'S': S, 'TA': TA, 'MA': MA, 'W': 0, 'Z': Z, 'A': A, 'B': 0})
        else:
            if name == 'member-after-bits':
                Bs = [b for b in range(1, 288) if b % 8]
            else:
                Bs = range(0, 288, 8)
            for B in Bs:
                for A in ALIGNS:
                    out.append({'S': S, 'TA': TA, 'MA': MA, 'W': 0, 'B': B, 'A': A, 'Z': 0})
    return out


def oracle_struct(cls, packed, e):
    """psABI 3.1.2 (+ gcc for packed): next running bit offset, byte offset, bit offset, struct alignment"""
    B, A, S, MA, W = e['B'], e['A'], e['S'], e['MA'], e['W']
    bitfield, named, zero = cls[1:4]
    if zero:
        return {'bits': up(B, 8 * S), 'align': A}
    if bitfield:
        B1 = B
        if not packed and B // (8 * S) != (B + W - 1) // (8 * S):
            B1 = up(B, 8 * S)
        r = {'bits': B1 + W, 'pos': B1, 'align': max(A, MA) if (named and not packed) else A}
        if not packed:
            r['offset'] = B1 // 8 // S * S
            r['bit_offset'] = B1 % (8 * S)
        return r
    if cls[0].startswith('alignas-'):
        packed = False         # gcc: packed removes the padding a member's *type* asks for, an explicit _Alignas on the member is honoured
    B1 = up(B, 8 * (1 if packed else MA))
    return {'bits': B1 + 8 * S, 'offset': B1 // 8, 'align': A if packed else max(A, MA)}


def oracle_union(cls, packed, e):
    A, Z, S, MA, W = e['A'], e['Z'], e['S'], e['MA'], e['W']
    bitfield, named, zero = cls[1:4]
    if cls[0].startswith('alignas-'):
        packed = False
    if bitfield and (not named or packed):
        contrib = (W + 7) // 8         # an unnamed bit-field only reserves its bits
    else:
        contrib = S
    return {'size': max(Z, contrib), 'align': A if (packed or (bitfield and not named)) else max(A, MA)}


WHAT = {
    'bits': 'the running bit offset after the member',
    'offset': 'the member\'s byte offset',
    'bit_offset': 'the bit-field\'s bit offset inside its unit',
    'pos': 'the bit-field\'s absolute bit position (8*offset + bit_offset)',
    'align': 'the alignment of the enclosing type after the member',
    'size': 'the running size of the union after the member',
}
GROUP = {'bits': 'placement', 'offset': 'placement', 'bit_offset': 'placement', 'pos': 'placement', 'align': 'type-align', 'size': 'union-size'}


def describe(cls, packed, e, union):
    bitfield, named, zero = cls[1:4]
    if zero:
        m = 'zero-width bit-field of a %d-byte type' % e['S']
    elif bitfield:
        m = '%s %d-bit bit-field of a %d-byte type' % ('named' if named else 'unnamed', e['W'], e['S'])
    else:
        m = '%smember of size %d, type alignment %d%s' % ('' if named else 'anonymous struct/union ', e['S'], e['TA'], (', _Alignas(%d)' % e['MA']) if e['MA'] != e['TA'] else '')
    if union:
        st = 'union so far: size %d, align %d' % (e['Z'], e['A'])
    else:
        st = 'struct so far: %d bits, align %d' % (e['B'], e['A'])
    return '%s in a %s%s (%s)' % (m, 'packed ' if packed else '', 'union' if union else 'struct', st)


def layout_fn(P, u, rep, fname, union):
    fn = u.fn(fname)
    if fn is None:
        raise AnalysisBroken('anchor function %s vanished from %s' % (fname, PU))
    where = '%s:%d' % (PU, fn.line)
    loops = find_member_loop(fn)
    if len(loops) != 1:
        rep.undecided('R08.3', '%s:%s:member-loop' % (PU, fname), '%d loops over the member list found (expected exactly one)' % len(loops), where=where)
        return
    loop = loops[0]
    locs = int_locals_written_in(fn, loop)
    if union:
        if locs:
            rep.undecided('R08.3', '%s:%s:running-state' % (PU, fname), 'union layout keeps running state in locals %s: shape not recognised' % sorted(d.name for d in locs.values()), where=where)
            return
        havoc_step, havoc_exit = {}, {}
    else:
        if len(locs) != 1:
            rep.undecided('R08.3', '%s:%s:running-state' % (PU, fname), 'expected exactly one running integer (the bit offset) written by the member loop, found %s' % sorted(d.name for d in locs.values()), where=where)
            return
        vid = list(locs)[0]
        havoc_step, havoc_exit = {vid: 'B'}, {vid: 'Bx'}

    budget_end = time.process_time() + 8       # CPU seconds for all explorations of this function (about 2 on today's tree)

    def mk_state(ctx, cls, packed, has_next=False):
        mty = Obj('Type', lazy=True, label='mem.ty')
        mty.fields.update({'size': Sym('S', 'int'), 'align': Sym('TA', 'int')})
        m = Obj('Member', lazy=True, label='mem')
        W = 0 if cls[3] else (Sym('W', 'int') if cls[1] else 0)
        m.fields.update({'ty': mty, 'align': Sym('MA', 'int'), 'is_bitfield': 1 if cls[1] else 0, 'bit_width': W,
                         'name': Obj('Token', lazy=True, label='mem.name') if cls[2] else 0,
                         'next': Obj('Member', lazy=True, label='mem.next') if has_next else 0, 'offset': 0, 'bit_offset': 0})
        if cls[1] and not cls[3]:
            ctx.bounds[('sym', 'W')] = [1, 1 << 20]
            ctx.neq[('sym', 'W')] = {0}
        for s in ('S', 'TA', 'MA'):
            ctx.bounds[('sym', s)] = [0 if (s == 'S' and not cls[1]) else 1, 1 << 20]
        t = Obj('Type', lazy=True, label='ty')
        # is_flexible is layout state: struct_members() sets it exactly when the last member is `T x[]`, which it turns into T[0]
        # (checked by R08.4 flexible-array): FLEX = 1 is judged on states whose (last) member has size 0 only
        t.fields.update({'members': m, 'is_packed': 1 if packed else 0, 'align': Sym('A0', 'int'), 'size': Sym('Z0', 'int'), 'is_flexible': Sym('FLEX', 'int')})
        ctx.bounds[('sym', 'FLEX')] = [0, 1]
        ctx.c08 = (t, m)
        return t

    def run_mode(mode, cls, packed, has_next=False):
        def cut_sud(it, ctx, call, args):
            if args and isinstance(args[0], _Ref):
                args[0].place.set(it, Obj('Token', lazy=True, label='after-declaration'))     # contract: *rest = the token after the specifier
            return mk_state(ctx, cls, packed, has_next)

        def on_entry(it, env):
            if not hasattr(it.ctx, 'c08'):
                raise AnalysisBroken('%s() reaches its member loop without having called struct_union_decl()' % fname)
            t, m = it.ctx.c08
            if mode == 'step':
                t.fields['align'] = Sym('A', 'int'); t.fields['size'] = Sym('Z', 'int')
                it.ctx.bounds[('sym', 'A')] = [1, 1 << 20]
                it.ctx.bounds[('sym', 'Z')] = [0, 1 << 20]
                it.ctx.bounds[('sym', 'B')] = [0, 1 << 20]
            else:
                t.fields['align'] = Sym('Ax', 'int'); t.fields['size'] = Sym('Zx', 'int')
                it.ctx.bounds[('sym', 'Ax')] = [1, 1 << 20]

        def snapshot(it, env):
            t, m = it.ctx.c08
            post = {'ty.align': t.fields.get('align'), 'ty.size': t.fields.get('size'),
                    'mem.offset': m.fields.get('offset'), 'mem.bit_offset': m.fields.get('bit_offset')}
            for vid, nm in havoc_step.items():
                post['bits'] = env.get(vid)
            return post
        it = StepInterp(P, u, {'cut': {'struct_union_decl': cut_sud}, 'track_stores': False},
                        loop, havoc_step if mode == 'step' else havoc_exit, mode, on_entry, snapshot)
        it.deadline = budget_end
        paths = it.explore(fname, lambda ctx: [_Ref(_ValPlace(0)), Obj('Token', lazy=True, label='tok')], max_paths=400)
        return it, paths

    # ---- entry: complete types are laid out, incomplete ones are not -----------------
    key = '%s:%s:entry' % (PU, fname)
    try:
        it, paths = run_mode('step', CLASSES[0], False)
        early = [Summary(ctx, {}) for ctx, out in paths if out[0] == 'ret' and not getattr(ctx, 'c08_reached', False)]
        inloop = [Summary(ctx, {}) for ctx, out in paths if getattr(ctx, 'c08_reached', False)]
        base_e = {'A0': 1, 'A': 1, 'Z': 0, 'B': 0, 'S': 1, 'TA': 1, 'MA': 1, 'W': 1, 'FLEX': 0}
        def _applies(lst, e):
            r = False
            for x in lst:
                try:
                    r = r or x.applies(e)
                except KeyError:
                    pass
            return r
        complete_skipped = _applies(early, dict(base_e, Z0=0)) or not _applies(inloop, dict(base_e, Z0=0))
        incomplete_laid_out = _applies(inloop, dict(base_e, Z0=-1))
        rep.ob('R08.3', key + '/complete', not complete_skipped,
               'a complete %s (size 0 before layout, as struct_type() creates it) leaves %s() before its members are laid out: every member stays at offset 0 and sizeof is 0' % ('union' if union else 'struct', fname), where=where)
        rep.ob('R08.3', key + '/incomplete', not incomplete_laid_out,
               'an incomplete %s (size -1, forward declaration) is laid out as if it were empty: sizeof an incomplete type becomes 0 instead of an error' % ('union' if union else 'struct'), where=where)
        if complete_skipped:
            return       # nothing after the entry can be judged for a complete type
    except (Uninterpretable, ZeroDivisionError) as ex:
        rep.undecided('R08.3', key, 'entry of %s not interpretable: %s' % (fname, ex), where=where)
    # ---- step, per member class ------------------------------------------------------
    for cls in CLASSES:
        for packed in (False, True):
            pk = 'packed' if packed else 'unpacked'
            base = '%s:%s:%s/%s' % (PU, fname, cls[0], pk)
            pts = grid(cls, packed, union)
            if not pts:
                continue
            try:
                it, paths = run_mode('step', cls, packed)
                sums = []
                if any(out[0] == 'noreturn' and out[1] == '__step__' and out[2][0].get('__broke__') for ctx, out in paths):
                    # the generic member of the step is the last one (next == NULL): leaving the loop by `break` there is the same as
                    # finishing the iteration. The same step on a member that has a successor must not leave the loop.
                    it2, paths2 = run_mode('step', cls, packed, has_next=True)
                    early = [Summary(ctx, {}) for ctx, out in paths2 if out[0] == 'noreturn' and out[1] == '__step__' and out[2][0].get('__broke__')]
                    hit = None
                    for e in pts:
                        for fx in ((0, 1) if (e['S'] == 0 and not cls[1]) else (0,)):
                            e2 = dict(e, Z0=0, A0=1, FLEX=fx)
                            if hit is None and any(x.applies(e2) for x in early):
                                hit = e2
                    rep.ob('R08.3', base + '/visits-every-member', hit is None,
                           '%s: the member loop is left by `break` at a member that has a successor: the members after it are never laid out (offset 0, no contribution to size and alignment)'
                           % (describe(cls, packed, hit, union) if hit else ''), where='%s:%d' % (PU, loop.line), facts={'state': hit})
                for ctx, out in paths:
                    if out[0] == 'noreturn' and out[1] == '__step__':
                        post = out[2][0]
                        outs = {'align': post['ty.align'], 'offset': post['mem.offset'], 'bit_offset': post['mem.bit_offset']}
                        if union:
                            outs['size'] = post['ty.size']
                        else:
                            outs['bits'] = post['bits']
                        for k, v in outs.items():
                            if isinstance(v, View):
                                outs[k] = it.settle(v)
                        sums.append(Summary(ctx, outs))
                    elif out[0] == 'noreturn':
                        sums.append(('error', Summary(ctx, {}), out[1]))
                steps = [s for s in sums if isinstance(s, Summary)]
                errs = [s for s in sums if not isinstance(s, Summary)]
                if not steps:
                    rep.undecided('R08.3', base, 'no path of %s runs the member loop body for this member class' % fname, where=where)
                    continue
                bad = {}
                for e in [dict(e0, Z0=0, A0=1, FLEX=fx) for e0 in pts for fx in ((0, 1) if (e0['S'] == 0 and not cls[1]) else (0,))]:
                    # every path whose condition holds at e: fields outside the layout state (the member type's kind, the
                    # enclosing type's is_flexible, ...) are unconstrained, so each such path is taken for some program
                    hits = [x for x in steps if x.applies(e)]
                    if not hits:
                        er = [x for x in errs if x[1].applies(e)]
                        if er:
                            bad.setdefault('placement', (e, 'the compiler stops with %s() instead of laying the member out' % er[0][2], None, ()))
                            continue
                        raise Uninterpretable('no path summary applies to the state %r' % (e,))
                    want = (oracle_union if union else oracle_struct)(cls, packed, e)
                    for s in hits:
                        got = {}
                        for k in ('bits', 'offset', 'bit_offset', 'align', 'size'):
                            if s.out.get(k) is not None:
                                got[k] = s.out[k](e)
                        if 'offset' in got and 'bit_offset' in got:
                            got['pos'] = 8 * got['offset'] + got['bit_offset']
                        if not union and cls[1] and not cls[3] and 'bit_offset' in got and 'unit-fit' not in bad:
                            # what the code generator relies on (one load/store of the declared type at `offset`): the field lies inside that unit
                            if not (0 <= got['bit_offset'] and got['bit_offset'] + e['W'] <= 8 * e['S']):
                                bad['unit-fit'] = (e, 'the bit-field occupies bits %d..%d of the %d-byte unit at its offset: bits outside the unit are never loaded or stored'
                                                   % (got['bit_offset'], got['bit_offset'] + e['W'] - 1, e['S']), s, ())
                        for k, w in want.items():
                            if k not in got:
                                raise Uninterpretable('summary has no value for %s' % k)
                            if got[k] != w:
                                rank = (e['S'] == 0, e['TA'] != e['S'] and e['MA'] == e['TA'], abs(e['S'] - 4), e['A'], e['B'], e['Z'], e['W'], e['MA'])
                                cur = bad.get(GROUP[k])
                                if cur is None or rank < cur[3]:
                                    bad[GROUP[k]] = (e, '%s is %d, %s: %d' % (WHAT[k], got[k], 'gcc' if packed else 'psABI', w), s, rank)
                groups = ('placement', 'type-align') if not union else ('union-size', 'type-align')
                if not union and cls[1] and not cls[3]:
                    groups += ('unit-fit',)
                for g in groups:
                    if g in bad:
                        e, msg, s, _rank = bad[g]
                        txt = '%s: %s' % (describe(cls, packed, e, union), msg)
                        facts = {'state': e}
                        if s is not None:
                            facts['summary'] = {k: (f.text if f is not None else None) for k, f in s.out.items()}
                            facts['path'] = s.trail
                        rep.ob('R08.3', base + '/' + g, False, txt, where='%s:%d' % (PU, loop.line), facts=facts)
                    else:
                        rep.ob('R08.3', base + '/' + g, True, '', where='%s:%d' % (PU, loop.line))
            except (Uninterpretable, KeyError, ZeroDivisionError) as ex:
                rep.undecided('R08.3', base, 'layout step of %s not interpretable for this member class: %s: %s' % (fname, type(ex).__name__, ex), where=where)
    # ---- exit: final size -------------------------------------------------------------
    # decided for both values of is_packed (packed removes padding *between* members; the size is still a multiple of the
    # alignment, which attribute aligned(N) can raise on a packed type), and for every path through the code after the loop:
    # fields of the type that are not part of the layout state (is_flexible, name, ...) are unconstrained, so each path is
    # reachable for some type and must produce the rounded extent.
    for packed in (False, True):
        base = '%s:%s:final-size%s' % (PU, fname, '/packed' if packed else '')
        try:
            it, paths = run_mode('exit', CLASSES[0], packed)
            sums = []
            lost = None
            for ctx, out in paths:
                if not getattr(ctx, 'c08_reached', False):
                    continue
                if out[0] == 'ret' and isinstance(out[1], Obj):
                    t = out[1]
                    sums.append(Summary(ctx, {'size': t.fields.get('size'), 'align': t.fields.get('align')}))
                elif out[0] == 'noreturn':
                    lost = lost or (Summary(ctx, {}), out[1])
            if not sums:
                rep.undecided('R08.3', base, 'no returning path after the member loop', where=where)
                continue
            bad = None
            for A in ALIGNS:
                for X in range(0, 300):
                  for fx in (0, 1):
                    e = {'Ax': A, 'Bx': X, 'Zx': X, 'Z0': 0, 'A0': 1, 'S': 1, 'TA': 1, 'MA': 1, 'FLEX': fx}
                    hits = [s for s in sums if s.applies(e)]
                    if not hits:
                        if lost is not None and lost[0].applies(e):
                            if bad is None:
                                bad = (e, None, None, None, None, lost[1])
                            continue
                        raise Uninterpretable('no path summary applies to the exit state %r' % (e,))
                    want = up(X, A) if union else up(X, 8 * A) // 8
                    for s in hits:
                        got = s.out['size'](e)
                        ga = s.out['align'](e)
                        if (got != want or ga != A) and bad is None:
                            bad = (e, got, want, ga, s, None)
            if bad:
                e, got, want, ga, s, stop = bad
                kind = ('packed ' if packed else '') + ('union' if union else 'struct')
                if union:
                    st = 'largest member %d bytes, alignment %d' % (e['Zx'], e['Ax'])
                else:
                    st = 'members end at bit %d, alignment %d' % (e['Bx'], e['Ax'])
                if stop:
                    rep.ob('R08.3', base, False, '%s (%s): the compiler stops with %s() instead of computing the size' % (kind, st, stop), where=where, facts={'state': e})
                else:
                    rep.ob('R08.3', base, False, '%s (%s): sizeof is %d and _Alignof %d, %s: %d and %d (size is the extent rounded up to the alignment%s)' % (
                        kind, st, got, ga, 'gcc' if packed else 'psABI', want, e['Ax'],
                        '; packed removes the padding between members, not the tail padding that an aligned(N) attribute asks for' if packed else ''), where=where,
                        facts={'state': e, 'summary': {k: f.text for k, f in s.out.items()}, 'path': s.trail})
            else:
                rep.ob('R08.3', base, True, '', where=where)
        except (Uninterpretable, KeyError, ZeroDivisionError) as ex:
            rep.undecided('R08.3', base, 'size computation after the member loop not interpretable: %s: %s' % (type(ex).__name__, ex), where=where)


# ---- whole-function layout of concrete member lists ---------------------------------------
# The step / exit obligations above are an induction argument whose glue is not decided by them: that the loop starts
# from the state struct_union_decl() hands over (an aligned(N)/packed attribute is already in the type), that every
# member of the list is visited once and in order by the same step (no arm for "the first", "the last", "the flexible"
# member that the generic member of the step analysis never is), and that whatever the running state is kept in (fields
# of the type, locals) is what the code after the loop reads. layout_fold() decides that glue by *executing* the function
# with Engine I on concrete, realistic type objects (short member lists over a catalogue of member shapes, entry
# alignment 1/2/16, packed or not, flexible or not) and comparing every member offset, the alignment and the size with
# the fold of the psABI step function. Everything is concrete, so any shape of running state / control flow is followed.
def _fold_shapes(E):
    """catalogue of member shapes: name -> (class name for the oracle, dict)"""
    def T(kind, size, align, **kw):
        d = {'kind': E[kind], 'size': size, 'align': align}
        d.update(kw)
        return d
    ch, sh, i4, l8, ld = T('TY_CHAR', 1, 1), T('TY_SHORT', 2, 2), T('TY_INT', 4, 4), T('TY_LONG', 8, 8), T('TY_LDOUBLE', 16, 16)
    db = T('TY_DOUBLE', 8, 8)

    def arr(base, n):
        return T('TY_ARRAY', base['size'] * n, base['align'], base=base, array_len=n)
    inner = T('TY_STRUCT', 8, 4, members=[('a', i4, 0), ('b', ch, 4)])
    S = {
        'char': ('member', ch, {}), 'short': ('member', sh, {}), 'int': ('member', i4, {}), 'long': ('member', l8, {}),
        'ldouble': ('member', ld, {}), 'char[3]': ('member', arr(ch, 3), {}), 'int[3]': ('member', arr(i4, 3), {}),
        'int[0]': ('member', arr(i4, 0), {}), 'struct{int;char}': ('member', inner, {}),
        'anon-struct': ('anonymous-member', inner, {'name': None}),
        'alignas8-char': ('alignas-member', ch, {'align': 8}), 'alignas16-int': ('alignas-member', i4, {'align': 16}),
        'int:3': ('bitfield', i4, {'bf': 3}), 'int:30': ('bitfield', i4, {'bf': 30}), 'char:7': ('bitfield', ch, {'bf': 7}), 'long:33': ('bitfield', l8, {'bf': 33}),
        'int:5-unnamed': ('unnamed-bitfield', i4, {'bf': 5, 'name': None}), 'long:0': ('zero-width-bitfield', l8, {'bf': 0, 'name': None}),
        'int:0': ('zero-width-bitfield', i4, {'bf': 0, 'name': None}),
        # flexible array members (C11 6.7.2.1p18): struct_members() turns `T x[]` in last position into T[0] and sets is_flexible
        'char[]': ('member', arr(ch, 0), {'flex': True}), 'int[]': ('member', arr(i4, 0), {'flex': True}), 'double[]': ('member', arr(db, 0), {'flex': True}),
        'ldouble[]': ('member', arr(ld, 0), {'flex': True}), 'alignas8-char[]': ('alignas-member', arr(ch, 0), {'flex': True, 'align': 8}),
    }
    return S


def _fold_class(cname):
    for c in CLASSES:
        if c[0] == cname:
            return c
    raise KeyError(cname)


def _fold_oracle(seq, shapes, packed, A0, union):
    """(offsets [(offset, bit_offset|None)], size, align) by folding the step oracle; None when a member is outside what the oracle judges"""
    A, B, Z = A0, 0, 0
    offs = []
    for nm in seq:
        cname, t, x = shapes[nm]
        cls = _fold_class(cname)
        if packed and (cls[1] or cname.startswith('alignas-')):
            return None          # packed bit-fields / _Alignas members in packed types: judged (and partly known findings) by the step obligations
        e = {'S': t['size'], 'TA': t['align'], 'MA': x.get('align', t['align']), 'W': x.get('bf', 0), 'B': B, 'A': A, 'Z': Z}
        if cls[1] and not cls[3] and _crossing(e):
            cls = _fold_class(cname + '-crossing-unit')
        if union:
            r = oracle_union(cls, packed, e)
            A, Z = r['align'], r['size']
            offs.append((0, 0 if cls[1] and not cls[3] else None))
        else:
            r = oracle_struct(cls, packed, e)
            A, B = r['align'], r['bits']
            if cls[3]:
                offs.append(None)
            else:
                offs.append((r['offset'], r.get('bit_offset')))
    return offs, (up(Z, A) if union else up(B, 8 * A) // 8), A


def _fold_scenarios(shapes, union):
    plain = [n for n, (c, t, x) in shapes.items() if not x.get('flex')]
    flex = [n for n, (c, t, x) in shapes.items() if x.get('flex')]
    small = ['char', 'int', 'long', 'int:3', 'char[3]', 'alignas8-char']
    seqs = [()]
    seqs += [(a,) for a in plain]
    seqs += [(a, b) for a in plain for b in plain]
    seqs += [(a, b, c) for a in small for b in small for c in small]
    seqs += [(a, b, 'char', 'long') for a in ('char', 'int:3') for b in ('short', 'int:30')]
    out = []
    for s in seqs:
        for packed in (False, True):
            for A0 in ((1, 16) if len(s) != 2 else (1, 2, 16)):
                if len(s) == 3 and (packed or A0 != 1) and s[0] != s[1] and s[1] != s[2]:
                    continue      # keep the triple grid small: attributes/packed on triples with a repeated shape only
                out.append(('aligned-attribute' if A0 > 1 else 'members', s, packed, A0, False))
    if not union:
        for f in flex:
            for head in [()] + [(a,) for a in ('char', 'int', 'long', 'int:3', 'char[3]', 'ldouble')] + [('char', 'int'), ('long', 'char')]:
                for packed in (False, True):
                    for A0 in (1, 16):
                        out.append(('flexible-array', head + (f,), packed, A0, True))
        # a zero-length array in last position that is not flexible (GNU `int a[0]`), and the flexible flag next to it
        for packed in (False, True):
            out.append(('flexible-array', ('char', 'int[0]'), packed, 1, False))
    return out


def layout_fold(P, u, rep, fname, union):
    fn = u.fn(fname)
    if fn is None:
        raise AnalysisBroken('anchor function %s vanished from %s' % (fname, PU))
    where = '%s:%d' % (PU, fn.line)
    E = u.enums
    for k in ('TY_CHAR', 'TY_SHORT', 'TY_INT', 'TY_LONG', 'TY_DOUBLE', 'TY_LDOUBLE', 'TY_ARRAY', 'TY_STRUCT'):
        if k not in E:
            raise AnalysisBroken('enumerator %s vanished' % k)
    shapes = _fold_shapes(E)
    cur = {}

    def mk_type(d):
        o = Obj('Type', lazy=False, label='member type')
        for k, v in d.items():
            if k == 'base':
                o.fields[k] = mk_type(v)
            elif k == 'members':
                head = 0
                for i, (nm, t, off) in reversed(list(enumerate(v))):
                    m = Obj('Member', lazy=False, label='inner.' + nm)
                    m.fields.update({'ty': mk_type(t), 'name': Obj('Token', lazy=True, label=nm), 'offset': off, 'align': t['align'], 'idx': i, 'next': head})
                    head = m
                o.fields[k] = head
            else:
                o.fields[k] = v
        return o

    def cut_sud(it, ctx, call, args):
        if args and isinstance(args[0], _Ref):
            args[0].place.set(it, Obj('Token', lazy=True, label='after-declaration'))
        group, seq, packed, A0, flexible = cur['sc']
        ty = Obj('Type', lazy=False, label='ty')
        head, mems = 0, []
        for i in range(len(seq) - 1, -1, -1):
            cname, t, x = shapes[seq[i]]
            m = Obj('Member', lazy=False, label='member %d (%s)' % (i, seq[i]))
            m.fields.update({'ty': mk_type(t), 'align': x.get('align', t['align']), 'idx': i, 'next': head, 'offset': 0, 'bit_offset': 0,
                             'is_bitfield': 1 if 'bf' in x else 0, 'bit_width': x.get('bf', 0),
                             'name': 0 if ('name' in x and x['name'] is None) else Obj('Token', lazy=True, label='name%d' % i)})
            m.fields['tok'] = m.fields['name'] or Obj('Token', lazy=True, label='tok%d' % i)
            head = m
            mems.insert(0, m)
        ty.fields.update({'kind': E['TY_STRUCT'], 'size': 0, 'align': A0, 'is_packed': 1 if packed else 0, 'members': head, 'is_flexible': 1 if flexible else 0})
        ctx.c08f = (ty, mems)
        return ty

    it = Budgeted(P, u, {'cut': {'struct_union_decl': cut_sud}, 'track_stores': False})
    it.set_budget(12)
    groups = ('members', 'aligned-attribute') + (() if union else ('flexible-array',))
    aspects = ('offsets', 'type-align', 'size')
    verdict = {}          # (group, packed, aspect) -> (rank, text, facts)
    counts = {}
    broken = {}

    def show(sc):
        group, seq, packed, A0, flexible = sc
        attrs = [a for a in ('packed' if packed else None, 'aligned(%d)' % A0 if A0 > 1 else None) if a]
        return '%s %s{ %s }' % ('union' if union else 'struct', ('__attribute__((%s)) ' % ', '.join(attrs)) if attrs else '',
                                ' '.join(n + ';' for n in seq))

    for sc in _fold_scenarios(shapes, union):
        group, seq, packed, A0, flexible = sc
        want = _fold_oracle(seq, shapes, packed, A0, union)
        if want is None:
            continue
        woffs, wsize, walign = want
        cur['sc'] = sc
        gk = (group, packed)
        try:
            paths = it.explore(fname, lambda ctx: [_Ref(_ValPlace(0)), Obj('Token', lazy=True, label='tok')], max_paths=16)
        except AnalysisBroken as ex:
            broken.setdefault(gk, '%s: %s' % (show(sc), ex))
            continue
        counts[gk] = counts.get(gk, 0) + 1
        rank = (len(seq) == 0 or (flexible and len(seq) == 1), len(seq), sum(len(n) for n in seq), A0)       # example shown: a short, ordinary declaration

        def note(aspect, text, facts=None):
            k = (group, packed, aspect)
            if k not in verdict or rank < verdict[k][0]:
                verdict[k] = (rank, '%s: %s' % (show(sc), text), facts)
        for ctx, out in paths:
            if not hasattr(ctx, 'c08f'):
                broken.setdefault(gk, '%s() returns without calling struct_union_decl()' % fname)
                continue
            ty, mems = ctx.c08f
            if out[0] != 'ret':
                note('size', 'the compiler stops with %s() instead of laying the type out' % out[1])
                continue
            rt = out[1]
            rt = it.settle(rt) if isinstance(rt, View) else rt
            if rt is not ty:
                broken.setdefault(gk, '%s: %s() does not return the type struct_union_decl() gave it' % (show(sc), fname))
                continue
            vals = [ty.fields.get('size'), ty.fields.get('align')]
            for m in mems:
                vals += [m.fields.get('offset'), m.fields.get('bit_offset')]
            vals = [it.settle(v) if isinstance(v, View) else v for v in vals]
            if not all(isinstance(v, (int, bool)) for v in vals):
                broken.setdefault(gk, '%s: the layout of a concrete member list is not concrete (%r)' % (show(sc), vals))
                continue
            gsize, galign = int(vals[0]), int(vals[1])
            std = 'gcc' if packed else 'psABI'
            for i, m in enumerate(mems):
                if woffs[i] is None:
                    continue
                go, gb = int(vals[2 + 2 * i]), int(vals[3 + 2 * i])
                wo, wb = woffs[i]
                pos = 'the only' if len(mems) == 1 else ('the first' if i == 0 else ('the last' if i == len(mems) - 1 else 'a middle'))
                if go != wo or (wb is not None and gb != wb):
                    note('offsets', '%s member `%s` is placed at offset %d%s, %s: %d%s' % (
                        pos, seq[i], go, (' bit %d' % gb) if wb is not None else '', std, wo, (' bit %d' % wb) if wb is not None else ''),
                        {'member': i, 'sequence': list(seq), 'entry_align': A0, 'packed': packed})
                    break
            if galign != walign:
                note('type-align', '_Alignof is %d, %s: %d%s' % (galign, std, walign,
                     ' (an aligned(N) attribute that the type carries before its members are laid out is a lower bound of its alignment)' if A0 > 1 and galign < A0 else
                     (' (a flexible array member contributes its alignment like a zero-length array)' if flexible else '')),
                     {'sequence': list(seq), 'entry_align': A0, 'packed': packed})
            if gsize != wsize:
                note('size', 'sizeof is %d, %s: %d%s' % (gsize, std, wsize,
                     ' (C11 6.7.2.1p18: as if the flexible array member were omitted, except for the trailing padding its alignment asks for: it is laid out like a zero-length array)' if flexible else ''),
                     {'sequence': list(seq), 'entry_align': A0, 'packed': packed})
    floor = {'members': 150, 'aligned-attribute': 150, 'flexible-array': 30}
    for group in groups:
        for packed in (False, True):
            gk = (group, packed)
            base = '%s:%s:fold/%s%s' % (PU, fname, group, '/packed' if packed else '')
            if gk in broken:
                rep.undecided('R08.3', base, 'whole-function layout not interpretable: %s' % broken[gk], where=where)
                continue
            fl = floor[group] // (3 if packed else 1)
            if counts.get(gk, 0) < fl:
                rep.undecided('R08.3', base, 'only %d concrete member lists were laid out (floor %d)' % (counts.get(gk, 0), fl), where=where)
                continue
            for a in aspects:
                v = verdict.get((group, packed, a))
                rep.ob('R08.3', base + '/' + a, v is None, v[1] if v else '', where=where, facts=v[2] if v else None)


def _guarded(rep, key, f, *a):
    try:
        f(*a)
    except AnalysisBroken as ex:
        rep.undecided('R08.3', key, 'analysis could not proceed: %s' % ex)


def r083(P, u, rep):
    rep.rule('R08.3', 'struct_decl/union_decl lay one more member out exactly as psABI 3.1.2 prescribes (placement, bit-field units, alignment contribution, packed) '
             'and round the final size to the alignment; struct and union take a member\'s alignment from the same source; attributes (before the tag and after the brace, for new, '
             'known and absent tags) and flexible arrays reach the type that is laid out; every positive aligned(N) sets the alignment, so among several aligned attributes '
             '(in one list, in two lists, before the tag and after the brace) the last one decides, as in gcc; executed on concrete member lists (with and without an aligned attribute, '
             'packed, a flexible array member) struct_decl/union_decl give every member the offset, and the type the size and alignment, of the fold of that step', floor=120)
    _guarded(rep, '%s:struct_decl:layout' % PU, layout_fn, P, u, rep, 'struct_decl', False)
    _guarded(rep, '%s:union_decl:layout' % PU, layout_fn, P, u, rep, 'union_decl', True)
    _guarded(rep, '%s:struct_decl:fold' % PU, layout_fold, P, u, rep, 'struct_decl', False)
    _guarded(rep, '%s:union_decl:fold' % PU, layout_fold, P, u, rep, 'union_decl', True)
    _guarded(rep, '%s:attribute_list:attributes' % PU, r083_attributes, P, u, rep)
    _guarded(rep, '%s:struct_union_decl:definition' % PU, r083_definition, P, u, rep)
    from .. import lib_c08anon
    _guarded(rep, '%s:struct_members:anonymous-member-world' % PU, lib_c08anon.run, P, u, rep, TokenWorld)


# =====================================================================================
# R08.2 primitive table
# =====================================================================================
# psABI x86-64 Figure 3.1 (kind enumerator, sizeof, alignment, is_unsigned or None = not an ABI matter)
FIG31 = {
    'ty_void': ('TY_VOID', 1, 1, None),      # GNU: sizeof(void) == 1
    'ty_bool': ('TY_BOOL', 1, 1, None),
    'ty_char': ('TY_CHAR', 1, 1, 0), 'ty_uchar': ('TY_CHAR', 1, 1, 1),
    'ty_short': ('TY_SHORT', 2, 2, 0), 'ty_ushort': ('TY_SHORT', 2, 2, 1),
    'ty_int': ('TY_INT', 4, 4, 0), 'ty_uint': ('TY_INT', 4, 4, 1),
    'ty_long': ('TY_LONG', 8, 8, 0), 'ty_ulong': ('TY_LONG', 8, 8, 1),
    'ty_float': ('TY_FLOAT', 4, 4, None), 'ty_double': ('TY_DOUBLE', 8, 8, None),
    'ty_ldouble': ('TY_LDOUBLE', 16, 16, None),
}
CTORS = {   # constructor: (catalogue name, kind, size, align, is_unsigned)   size/align: int or function of (base size, base align, len)
    'pointer_to': ('ptr', 'TY_PTR', 8, 8, 1),
    'enum_type': ('enum', 'TY_ENUM', 4, 4, None),
    'func_type': ('func', 'TY_FUNC', 1, 1, None),          # GNU: sizeof(function) == 1
    'array_of': ('array', 'TY_ARRAY', 'bs*len', 'ba', None),
    'vla_of': ('vla', 'TY_VLA', 8, 8, None),               # a VLA object is represented by a pointer-sized slot
    'struct_type': ('struct', 'TY_STRUCT', 0, 1, None),    # empty aggregate before layout
}


def _concrete(v):
    return int(v) if isinstance(v, (int, bool)) else None


def r082(P, u, rep):
    from ..chibi import Catalogue
    rep.rule('R08.2', 'the 13 ty_* objects and the 6 type constructors of type.c have the kind, size, alignment and signedness of psABI x86-64 Fig. 3.1', floor=19)
    cat = Catalogue(P)
    tu = cat.tu
    E = tu.enums
    for g, (kind, size, align, uns) in FIG31.items():
        f = cat.scalars[g]
        where = 'type.c:%d' % tu.globals[g].line
        bad = []
        if kind not in E:
            rep.undecided('R08.2', 'type.c:%s:table' % g, 'enumerator %s vanished' % kind, where=where)
            continue
        got = {k: _concrete(f.get(k, 0)) for k in ('kind', 'size', 'align', 'is_unsigned')}
        if None in got.values():
            rep.undecided('R08.2', 'type.c:%s:table' % g, 'initialiser is not a constant: %r' % (f,), where=where)
            continue
        if got['kind'] != E[kind]:
            names = [n for n, v in E.items() if v == got['kind'] and n.startswith('TY_')]
            bad.append('kind is %s, must be %s' % (names[0] if names else got['kind'], kind))
        if got['size'] != size:
            bad.append('sizeof is %d, psABI: %d' % (got['size'], size))
        if got['align'] != align:
            bad.append('alignment is %d, psABI: %d' % (got['align'], align))
        if uns is not None and got['is_unsigned'] != uns:
            bad.append('is_unsigned is %d, must be %d' % (got['is_unsigned'], uns))
        rep.ob('R08.2', 'type.c:%s:table' % g, not bad, '%s: %s (every object, member and array element of this type is laid out with these numbers)' % (g, '; '.join(bad)),
               where=where, facts={'found': got, 'psABI': {'kind': kind, 'size': size, 'align': align, 'is_unsigned': uns}})
    for ctor, (cname, kind, size, align, uns) in CTORS.items():
        fd = tu.fn(ctor)
        if fd is None:
            rep.undecided('R08.2', 'type.c:%s:result' % ctor, 'constructor vanished')
            continue
        where = 'type.c:%d' % fd.line
        o = cat.ctors[cname]
        bad = []
        try:
            k = _concrete(o.fields.get('kind', 0))
            if kind not in E or k is None:
                raise Uninterpretable('kind of the result is not a constant')
            if k != E[kind]:
                bad.append('kind is %s, must be %s' % ([n for n, v in E.items() if v == k and n.startswith('TY_')][:1], kind))
            fs = Fn(o.fields.get('size', 0)); fa = Fn(o.fields.get('align', 0))
            for bs, ba, ln in ((1, 1, 0), (1, 1, 7), (4, 4, 3), (16, 16, 2), (24, 8, 5), (6, 2, 1)):
                e = {'base.size': bs, 'base.align': ba, 'len': ln, 'ret.size': bs, 'ret.align': ba}
                ws = size if isinstance(size, int) else bs * ln
                wa = align if isinstance(align, int) else ba
                gs, ga = fs(e), fa(e)
                if gs != ws:
                    bad.append('size of the type built by %s(%s) is %d, must be %d' % (ctor, ('base of size %d, align %d, len %d' % (bs, ba, ln)) if cname == 'array' else '', gs, ws))
                    break
                if ga != wa:
                    bad.append('alignment of the type built by %s(%s) is %d, must be %d' % (ctor, ('base of size %d, align %d' % (bs, ba)) if cname == 'array' else '', ga, wa))
                    break
            if uns is not None:
                gu = _concrete(o.fields.get('is_unsigned', 0))
                if gu != uns:
                    bad.append('is_unsigned is %r, must be %d (pointers compare and convert as unsigned 64-bit)' % (gu, uns))
            if cname in ('ptr', 'array', 'vla'):
                b = o.fields.get('base')
                if not (isinstance(b, Obj) and b.label == 'base'):
                    bad.append('the result does not record its base type')
            if cname == 'array':
                al = o.fields.get('array_len')
                if not (isinstance(al, Sym) and al.name == 'len'):
                    bad.append('array_len is not the requested length')
        except (Uninterpretable, KeyError, ZeroDivisionError) as ex:
            rep.undecided('R08.2', 'type.c:%s:result' % ctor, 'result not interpretable: %s' % ex, where=where)
            continue
        rep.ob('R08.2', 'type.c:%s:result' % ctor, not bad, '; '.join(bad), where=where)


# =====================================================================================
# R08.1 specifier table
# =====================================================================================
KEYWORDS = ('signed', 'unsigned', 'void', '_Bool', 'char', 'short', 'long', 'int', 'float', 'double')
# C11 6.7.2p2 (without _Complex, which the compiler does not have) -> LP64 (class, size, align, is_unsigned)
_LP64 = {'void': ('void', 1, 1, None), 'bool': ('bool', 1, 1, None), 'char': ('int', 1, 1, 0), 'uchar': ('int', 1, 1, 1),
         'short': ('int', 2, 2, 0), 'ushort': ('int', 2, 2, 1), 'int': ('int', 4, 4, 0), 'uint': ('int', 4, 4, 1),
         'long': ('int', 8, 8, 0), 'ulong': ('int', 8, 8, 1), 'float': ('float', 4, 4, None), 'double': ('float', 8, 8, None),
         'ldouble': ('float', 16, 16, None)}
C11_6_7_2 = [
    ('void', 'void'), ('char', 'char'), ('signed char', 'char'), ('unsigned char', 'uchar'),
    ('short', 'short'), ('signed short', 'short'), ('short int', 'short'), ('signed short int', 'short'),
    ('unsigned short', 'ushort'), ('unsigned short int', 'ushort'),
    ('int', 'int'), ('signed', 'int'), ('signed int', 'int'), ('unsigned', 'uint'), ('unsigned int', 'uint'),
    ('long', 'long'), ('signed long', 'long'), ('long int', 'long'), ('signed long int', 'long'),
    ('unsigned long', 'ulong'), ('unsigned long int', 'ulong'),
    ('long long', 'long'), ('signed long long', 'long'), ('long long int', 'long'), ('signed long long int', 'long'),
    ('unsigned long long', 'ulong'), ('unsigned long long int', 'ulong'),
    ('float', 'float'), ('double', 'double'), ('long double', 'ldouble'), ('_Bool', 'bool'),
]
_KIND_CLASS = {'TY_VOID': 'void', 'TY_BOOL': 'bool', 'TY_CHAR': 'int', 'TY_SHORT': 'int', 'TY_INT': 'int', 'TY_LONG': 'int',
               'TY_FLOAT': 'float', 'TY_DOUBLE': 'float', 'TY_LDOUBLE': 'float'}


def _canon(ms):
    return tuple(sorted(ms, key=KEYWORDS.index))


def _perms(ms, limit=None):
    seen = []
    for p in itertools.permutations(ms):
        if p not in seen:
            seen.append(p)
            if limit and len(seen) >= limit:
                break
    return seen


class _LocalEnumInterp(Interp):
    """Engine I + enumerators declared inside a function body (cast.Unit registers file-scope enums only)"""
    local_enums = {}

    def e_DeclRefExpr(self, n, env):
        if n.ref_kind == 'EnumConstantDecl' and n.ref_id in self.local_enums:
            return self.local_enums[n.ref_id]
        return Interp.e_DeclRefExpr(self, n, env)

    def const_of(self, n):
        # case labels built from local enumerators (`case SIGNED + SHORT + INT:`): clang prints no folded value
        for x in n.walk():
            if x.kind == 'ConstantExpr' and x.value is not None:
                return int(x.value)
        v = self.eval(n, {})
        if not isinstance(v, int):
            raise AnalysisBroken('case label not constant at %s:%d' % (self.unit.name, n.line))
        return v


def _local_enums(fn):
    out = {}
    for d in fn.walk():
        if d.kind != 'EnumDecl':
            continue
        val = -1
        for c in d.inner:
            if c.kind != 'EnumConstantDecl':
                continue
            v = None
            for e in c.walk():
                if e.kind == 'ConstantExpr' and e.value is not None:
                    v = int(e.value); break
            if v is None and c.inner:
                v = c.inner[0].int_value()
            if v is None and c.inner:
                raise AnalysisBroken('value of local enumerator %s not constant' % c.name)
            val = v if v is not None else val + 1
            out[c.id] = val
    return out


def r081(P, u, rep):
    rep.rule('R08.1', 'declspec accepts exactly the type-specifier multisets of C11 6.7.2p2, in every order, with their LP64 type; one keyword more than a valid multiset is diagnosed', floor=150)
    fn = u.fn('declspec')
    if fn is None:
        raise AnalysisBroken('anchor function declspec vanished from %s' % PU)
    where = '%s:%d' % (PU, fn.line)
    tw = TokenWorld(P, u)
    typenames = tw.typenames
    missing = [k for k in KEYWORDS if k not in typenames]
    rep.ob('R08.1', '%s:is_typename:specifier-keywords' % PU, not missing,
           'is_typename() does not know the type specifier(s) %s: a declaration starting with them is parsed as an expression' % missing,
           where='%s:%d' % (PU, u.fn('is_typename').line))
    tu = P.unit('type.c')
    tyglob = type_globals(P)
    kind_name = {v: n for n, v in tu.enums.items() if n.startswith('TY_')}
    cfg = {'models': tw.models(),
           'globals': {g: (lambda ctx, g=g: Obj('Type', lazy=False, label=g, fields=dict(tyglob[g]))) for g in tyglob}}
    it = _LocalEnumInterp(P, u, cfg)
    it.local_enums = _local_enums(fn)
    tokens = tw.tokens

    cache = {}

    def run_seq(seq):
        """('type', (class,size,align,unsigned), label) | ('error', fn, msg) | ('?', why)"""
        if seq in cache:
            return cache[seq]
        rest = _ValPlace(0)
        paths = it.explore('declspec', lambda ctx: [_Ref(rest), tokens(seq), Obj('VarAttr', lazy=False)], max_paths=50)
        if len(paths) != 1:
            r = ('?', '%d paths for a concrete token sequence' % len(paths))
        else:
            ctx, out = paths[0]
            if out[0] == 'noreturn':
                msg = out[2][1] if len(out[2]) > 1 and isinstance(out[2][1], str) else (out[2][0] if out[2] and isinstance(out[2][0], str) else '')
                r = ('error', out[1], msg)
            elif out[0] == 'ret' and isinstance(out[1], Obj):
                t = out[1]
                k = t.fields.get('kind', 0)
                cls = _KIND_CLASS.get(kind_name.get(k))
                if cls is None or not all(isinstance(t.fields.get(f, 0), (int, bool)) for f in ('size', 'align', 'is_unsigned')):
                    r = ('?', 'returned type %r of kind %r not understood' % (t, kind_name.get(k, k)))
                else:
                    r = ('type', (cls, int(t.fields.get('size', 0)), int(t.fields.get('align', 0)), int(t.fields.get('is_unsigned', 0))), t.label)
            else:
                r = ('?', 'outcome %r' % (out[:2],))
        cache[seq] = r
        return r

    valid = {}
    for spelled, tname in C11_6_7_2:
        valid[_canon(spelled.split())] = (spelled, tname)

    def show(t):
        cls, size, align, uns = t
        return '%s%s of size %d, alignment %d' % (('unsigned ' if uns else 'signed ') if cls == 'int' else '', {'int': 'integer', 'float': 'floating type', 'void': 'void', 'bool': '_Bool'}[cls], size, align)

    # every order of every valid multiset
    for ms, (spelled, tname) in valid.items():
        want = _LP64[tname]
        key = '%s:declspec:accept/%s' % (PU, '+'.join(ms))
        bad = None
        und = None
        for seq in _perms(ms):
            r = run_seq(seq)
            if r[0] == '?':
                und = '`%s`: %s' % (' '.join(seq), r[1]); break
            if r[0] == 'error':
                bad = '`%s x;` is rejected (%s: "%s") although `%s` is a type specifier list of C11 6.7.2p2' % (' '.join(seq), r[1], r[2], spelled)
                break
            got = r[1]
            ok = got[0] == want[0] and got[1] == want[1] and got[2] == want[2] and (want[3] is None or got[3] == want[3])
            if not ok:
                bad = '`%s x;` declares x as %s (%s); LP64: %s' % (' '.join(seq), show(got), r[2] or '?', show((want[0], want[1], want[2], want[3] or 0)))
                break
        if und:
            rep.undecided('R08.1', key, und, where=where)
        else:
            rep.ob('R08.1', key, bad is None, bad or '', where=where)
    # frontier: a valid multiset (or nothing) plus one keyword that makes it invalid
    frontier = {}
    for ms in [()] + list(valid):
        for k in KEYWORDS:
            x = _canon(ms + (k,))
            if x in valid:
                continue
            frontier.setdefault(x, []).append((ms, k))
    repeated = {}     # keyword -> [ok?, first message]
    for x, ways in sorted(frontier.items()):
        key = '%s:declspec:reject/%s' % (PU, '+'.join(x))
        bad = und = None
        ignored_repeat = None
        for ms, k in ways:
            for pre in _perms(ms, limit=2):
                seq = pre + (k,)
                r = run_seq(seq)
                if r[0] == '?':
                    und = '`%s`: %s' % (' '.join(seq), r[1])
                elif r[0] == 'type':
                    msg = '`%s x;` is accepted and declares x as %s, but {%s} is not a type specifier list of C11 6.7.2p2 (constraint violation, a diagnostic is required)' % (
                        ' '.join(seq), show(r[1]), ' '.join(x))
                    before = run_seq(pre) if pre else None
                    if k in ms and before and before[0] == 'type' and before[1] == r[1]:
                        ignored_repeat = ignored_repeat or msg     # the second `k` was simply not counted
                    elif bad is None:
                        bad = msg
        # a keyword repeated after a valid list that already has it: one obligation per keyword
        rk = [k for ms, k in ways if k in ms]
        if rk and not bad and not und:
            g = repeated.setdefault(rk[0], [True, ''])
            if ignored_repeat and g[0]:
                g[0] = False
                g[1] = ignored_repeat + ' - a repeated `%s` is ignored instead of counted' % rk[0]
            continue
        if bad:
            rep.ob('R08.1', key, False, bad, where=where)
        elif und:
            rep.undecided('R08.1', key, und, where=where)
        else:
            rep.ob('R08.1', key, True, '', where=where)
    for k, (ok, msg) in sorted(repeated.items()):
        rep.ob('R08.1', '%s:declspec:reject/repeated-%s' % (PU, k), ok, msg, where=where)


# =====================================================================================
# concrete token streams for the parser functions analysed with Engine I
# =====================================================================================
class TokenWorld:
    """models of equal()/is_typename()/find_typedef() over concrete token objects, and a token-list builder"""

    def __init__(self, P, u):
        self.u = u
        E = u.enums
        for k in ('TK_KEYWORD', 'TK_IDENT', 'TK_EOF', 'TK_PUNCT', 'TK_NUM'):
            if k not in E:
                raise AnalysisBroken('token kind %s vanished' % k)
        self.E = E
        if 'is_typename' not in u.functions:
            raise AnalysisBroken('anchor is_typename vanished')
        self.typenames = set(x.str_value() for x in u.fn('is_typename').walk() if x.kind == 'StringLiteral')

    def models(self):
        E, typenames = self.E, self.typenames

        def m_equal(it, ctx, call, args):
            t = it.settle(args[0]) if isinstance(args[0], View) else args[0]
            if isinstance(t, Obj) and isinstance(t.fields.get('loc'), str) and isinstance(args[1], str):
                return int(t.fields['loc'] == args[1])
            raise AnalysisBroken('equal() on a non-concrete token')

        def m_is_typename(it, ctx, call, args):
            t = args[0]
            return int(isinstance(t, Obj) and t.fields.get('kind') == E['TK_KEYWORD'] and t.fields.get('loc') in typenames)
        return {'equal': m_equal, 'is_typename': m_is_typename, 'find_typedef': lambda it, ctx, c, a: 0}

    def tokens(self, seq):
        """seq: spellings; keywords/punctuators/numbers classified by spelling; ends with identifier x, EOF"""
        E = self.E
        eof = Obj('Token', lazy=False, fields={'kind': E['TK_EOF'], 'loc': '', 'len': 0, 'next': 0})
        nxt = Obj('Token', lazy=False, fields={'kind': E['TK_IDENT'], 'loc': 'x', 'len': 1, 'next': eof})
        for s in reversed(seq):
            if s in self.typenames or s in ('__attribute__',):
                k = E['TK_KEYWORD']
            elif s[0].isdigit():
                k = E['TK_NUM']
            elif s[0].isalpha() or s[0] == '_':
                k = E['TK_IDENT']
            else:
                k = E['TK_PUNCT']
            nxt = Obj('Token', lazy=False, label='tok:' + s, fields={'kind': k, 'loc': s, 'len': len(s), 'next': nxt})
        return nxt


def _is_just(v, sym):
    """v is the unknown `sym` itself (possibly through value-preserving integer casts)"""
    try:
        f = Fn(v)
    except Uninterpretable:
        return False
    return f.syms == {sym} and f({sym: 16}) == 16 and f({sym: 48}) == 48 and f({sym: 1}) == 1


def _cut_const_expr(sym):
    """const_expr(&tok, tok): consumes one token, yields an unknown constant"""
    def h(it, ctx, call, args):
        rest, tok = args[0], args[1]
        if not (isinstance(rest, _Ref) and isinstance(tok, Obj)):
            raise AnalysisBroken('const_expr() called with unexpected arguments')
        rest.place.set(it, tok.fields.get('next'))
        return Sym(sym, 'long')
    return h


def _cut_const_exprs(prefix):
    """const_expr(&tok, tok): consumes one token; the k-th call on a path yields the unknown constant <prefix>k"""
    def h(it, ctx, call, args):
        rest, tok = args[0], args[1]
        if not (isinstance(rest, _Ref) and isinstance(tok, Obj)):
            raise AnalysisBroken('const_expr() called with unexpected arguments')
        rest.place.set(it, tok.fields.get('next'))
        k = getattr(ctx, 'c08_nconst', 0) + 1
        ctx.c08_nconst = k
        return Sym('%s%d' % (prefix, k), 'long')
    return h


_ATTR_A0 = (1, 2, 4, 8, 16, 64)
_ATTR_N = (-8, 0, 1, 2, 4, 8, 16, 32, 64, 128, 4096)


def r083_attributes(P, u, rep):
    """attribute_list: packed / aligned(N) reach the type that struct_decl/union_decl lay out.
    attribute_list() is run on concrete attribute lists whose aligned() arguments N1, N2, ... and the alignment A0 the type
    has on entry are unknowns; every path is summarised (guard, resulting alignment, is_packed) and the summaries are
    evaluated as a function on a grid of (A0, N1, ...) against gcc's rule: every aligned(N) with a positive N *sets* the
    alignment (so among several the last one decides, whatever the earlier ones and the entry value were); a
    non-positive N leaves it alone or is diagnosed; packed sets is_packed; nothing else changes either field."""
    fn = u.fn('attribute_list')
    if fn is None:
        rep.undecided('R08.3', '%s:attribute_list:anchor' % PU, 'attribute_list() vanished')
        return
    where = '%s:%d' % (PU, fn.line)
    tw = TokenWorld(P, u)
    A = lambda *items: ['__attribute__', '(', '('] + [t for i, it_ in enumerate(items) for t in ([','] if i else []) + it_] + [')', ')']
    al, pk = ['aligned', '(', '16', ')'], ['packed']
    cases = [
        ('packed', A(pk)),
        ('aligned', A(al)),
        ('packed+aligned', A(pk, al)),
        ('aligned+packed-separate', A(al) + A(pk)),
        ('none', []),
        ('aligned+aligned', A(al, al)),
        ('aligned+aligned-separate', A(al) + A(al)),
        ('aligned+packed+aligned-separate', A(al, pk) + A(al)),
    ]
    # diagnostics that return (warnings) are recorded, not looked into: the path that issues one is judged like any other
    noret = ('error', 'error_at', 'error_tok', 'exit', '_exit', 'abort', '__assert_fail')
    opaque, seen_fns, work = set(), {'attribute_list'}, [fn]
    while work:
        for c in work.pop().calls():
            cn = c.callee()
            if not cn or cn in noret or cn in seen_fns:
                continue
            seen_fns.add(cn)
            if cn in u.functions:
                work.append(u.functions[cn])          # a helper of this unit: looked into
            elif ' '.join((c.dtype or c.type or '').split()) == 'void':
                opaque.add(cn)
    opaque = sorted(opaque)
    for name, seq in cases:
        key = '%s:attribute_list:%s' % (PU, name)
        n_al = seq.count('aligned')
        want_pk = int('packed' in seq)
        spelled = ' '.join(seq) or '(no attribute)'
        k = [0]
        shown = []
        for s in seq:
            if s == '16':
                k[0] += 1
                s = 'N%d' % k[0]
            shown.append(s)
        shown = ' '.join(shown) or '(no attribute)'
        try:
            it = GuardInterp(P, u, {'models': tw.models(), 'cut': {'const_expr': _cut_const_exprs('N')}, 'opaque': opaque})
            it.set_budget(6)

            def mk(ctx):
                t = Obj('Type', lazy=False, label='ty')
                t.fields.update({'align': Sym('A0', 'int'), 'is_packed': 0})
                ctx.c08ty = t
                return [tw.tokens(seq), t]
            paths = it.explore('attribute_list', mk, max_paths=200)
        except AnalysisBroken as ex:
            rep.undecided('R08.3', key, 'attribute_list not interpretable on `%s`: %s' % (spelled, ex), where=where)
            continue
        sums, broken = [], None
        for ctx, out in paths:
            t = ctx.c08ty
            p = t.fields.get('is_packed', 0)
            p = it.settle(p) if isinstance(p, View) else p
            consumed = out[0] == 'ret' and isinstance(out[1], Obj) and out[1].fields.get('loc') == 'x'
            try:
                if not isinstance(p, (int, bool)):
                    raise Uninterpretable('is_packed is %r' % (p,))
                s = Summary(ctx, {'align': t.fields.get('align')})
            except Uninterpretable as ex:
                broken = 'a path of attribute_list() on `%s` is not a function of the alignments: %s' % (shown, ex)
                break
            if not s.syms() <= set(['A0'] + ['N%d' % (i + 1) for i in range(n_al)]):
                broken = 'a path of attribute_list() on `%s` depends on %s' % (shown, ', '.join(sorted(s.syms())))
                break
            sums.append((s, out, int(bool(p)), consumed))
        if broken:
            rep.undecided('R08.3', key, broken, where=where)
            continue
        bad, judged, ambiguous = [], 0, False
        try:
            for vals in itertools.product(_ATTR_A0, *([_ATTR_N] * n_al)):
                e = {'A0': vals[0]}
                want = vals[0]
                for i, n in enumerate(vals[1:]):
                    e['N%d' % (i + 1)] = n
                    if n > 0:
                        want = n
                positive = all(n > 0 for n in vals[1:])
                hits = [x for x in sums if x[0].applies(e)]
                txt = ', '.join('%s=%d' % (k_, e[k_]) for k_ in sorted(e, key=lambda z: (z != 'A0', z)))
                if not hits:
                    if positive:
                        bad.append((None, 'no path of attribute_list() covers %s' % txt))
                    continue        # a non-positive request whose path ends in something not modelled: not judged
                outcomes = set((out[0], out[1] if out[0] != 'ret' else s.out['align'](e), p, consumed) for s, out, p, consumed in hits)
                if len(outcomes) > 1:
                    # the guards do not separate the paths (a decision the summary cannot see): no verdict from this case
                    bad = [(None, 'several paths of attribute_list() apply to %s and disagree: the paths are not a function of the modelled inputs' % txt)]
                    ambiguous = True
                    break
                for s, out, p, consumed in hits:
                    if out[0] != 'ret':
                        if positive:
                            bad.append(('rejected', 'is rejected by %s() (%s)' % (out[1], txt)))
                        continue    # a non-positive alignment may be diagnosed
                    judged += 1
                    got = s.out['align'](e)
                    if got != want:
                        if n_al == 0:
                            why = 'no aligned attribute is present, it must be left alone'
                        elif not positive and want == vals[0]:
                            why = 'a non-positive request is ignored'
                        elif n_al > 1:
                            why = 'every positive aligned(N) sets the alignment, so the last one decides (gcc), whether it is smaller or larger than what the type had'
                        else:
                            why = 'aligned(N) sets the alignment to N, whether that is smaller or larger than what the type had'
                        bad.append(('align', 'the type\'s alignment becomes %d, must be %d with %s (%s)' % (got, want, txt, why)))
                    if p != want_pk:
                        bad.append(('packed', 'is_packed is %d, must be %d' % (p, want_pk)))
                    if not consumed:
                        bad.append(('consumed', 'the attribute list is not consumed completely'))
        except (Uninterpretable, ZeroDivisionError, KeyError) as ex:
            rep.undecided('R08.3', key, '`struct %s {...}`: the path summaries of attribute_list() cannot be evaluated: %r' % (shown, ex), where=where)
            continue
        if ambiguous or ([b for b in bad if b[0] is None] and not [b for b in bad if b[0]]):
            rep.undecided('R08.3', key, '`struct %s {...}`: %s' % (shown, bad[0][1]), where=where)
            continue
        if not judged and not bad:
            rep.undecided('R08.3', key, '`struct %s {...}`: no returning path of attribute_list() to judge' % shown, where=where)
            continue
        msgs, seen = [], set()
        for kind, m in bad:
            if kind and kind not in seen:
                seen.add(kind)
                msgs.append(m)
        rep.ob('R08.3', key, not msgs, '`struct %s {...}`: %s (the layout loops read these two fields)' % (shown, '; '.join(msgs)), where=where,
               facts={'grid_points_judged': judged, 'paths': len(paths)})


# =====================================================================================
# R08.3 (cont.) the type struct_union_decl() hands to the layout carries members and attributes
# =====================================================================================
def r083_definition(P, u, rep):
    """struct_union_decl() is executed with struct_members()/attribute_list() replaced by their effects on the
    type object they are given; whichever object is returned for a definition (fresh, or the earlier incomplete
    type of the same tag that the definition completes) must show all of these effects, because struct_decl /
    union_decl lay out exactly the returned object."""
    fname = 'struct_union_decl'
    fn = u.fn(fname)
    base = '%s:%s:definition' % (PU, fname)
    if fn is None:
        rep.undecided('R08.3', base, 'struct_union_decl() vanished')
        return
    where = '%s:%d' % (PU, fn.line)
    tu = P.unit('type.c')
    callees = {}
    for c in fn.calls():
        if c.callee():
            callees.setdefault(c.callee(), c)
    for need in ('attribute_list', 'struct_members'):
        if need not in callees:
            rep.undecided('R08.3', base, 'struct_union_decl() does not call %s() any more: shape not recognised' % need, where=where)
            return
    # callees, transitively through helpers of parse.c that take a type and yield a type (they may copy / register it: looked into).
    # tag lookups = calls that yield a `Type *` (or void *) without being given one and are not constructors of type.c: answered both ways.
    lookups, opaque, inlined, work = set(), set(), {fname}, [fn]
    while work:
        f = work.pop()
        for c in f.calls():
            name = c.callee()
            if not name or name in ('attribute_list', 'struct_members') or name in tu.functions or name in ('calloc', 'malloc', 'memcpy', 'memmove') or name in inlined:
                continue
            t = ' '.join((c.dtype or c.type or '').split()).replace('struct ', '')
            if t in ('Type *', 'void *'):
                takes_type = any(' '.join((p.type or '').split()).replace('struct ', '') == 'Type *' for p in u.params(name))
                if takes_type and u.fn(name) is not None:
                    inlined.add(name)
                    work.append(u.fn(name))
                else:
                    lookups.add(name)
            else:
                opaque.add(name)
    opaque = sorted(opaque - lookups)
    elsewhere = sorted(f for f, d in u.functions.items() if f not in inlined and d.calls('attribute_list'))
    results = {}       # (tagcase, what) -> [ok, msg]
    seen = set()
    for scenario in ('none', 'leading', 'trailing', 'both'):
        def cut_attr(it, ctx, call, args, scenario=scenario):
            ty = args[1] if len(args) > 1 else None
            ty = it.settle(ty) if isinstance(ty, View) else ty
            after = getattr(ctx, 'c08_members', None) is not None
            if after:
                ctx.c08_trailing = True
            if not isinstance(ty, Obj):
                raise AnalysisBroken('attribute_list() is applied to %r, not to a type object' % (ty,))
            if scenario == 'both' and not after:
                # an aligned attribute before the tag; the list after the closing brace (below) is applied later and decides (gcc)
                ty.fields['align'] = Sym('AL0', 'int')
            elif scenario != 'none' and (scenario != 'leading') == after:
                ty.fields['is_packed'] = 1
                ty.fields['align'] = Sym('AL', 'int')
            return Obj('Token', lazy=True, label='after-attributes')

        def cut_members(it, ctx, call, args):
            rest, tok, ty = (list(args) + [None] * 3)[:3]
            ty = it.settle(ty) if isinstance(ty, View) else ty
            if not (isinstance(ty, Obj) and isinstance(rest, _Ref)):
                raise AnalysisBroken('struct_members() called with unexpected arguments')
            m = Obj('Member', lazy=True, label='members')
            ty.fields['members'] = m
            ty.fields['is_flexible'] = Sym('FLEX', 'int')
            rest.place.set(it, Obj('Token', lazy=True, label='after-members'))
            ctx.c08_members = m
            return None

        def cut_lookup(it, ctx, call, args):
            if ctx.choose(2, 'tag lookup'):
                ctx.note('the tag already names a type in scope')
                o = Obj('Type', lazy=False, label='earlier type of the tag')
                o.fields.update({'size': -1, 'align': 1, 'is_packed': 0, 'members': 0, 'is_flexible': 0})
                ctx.c08_lookup = 'known-tag'
                return o
            ctx.note('the tag is new')
            ctx.c08_lookup = 'new-tag'
            return 0
        cuts = {'attribute_list': cut_attr, 'struct_members': cut_members}
        for l in lookups:
            cuts[l] = cut_lookup
        def m_copy(it, ctx, call, args):
            # memcpy(dst, src, sizeof(Type)) between two type objects = `*dst = *src`; any other use is not modelled
            d_, s_ = [(it.settle(a) if isinstance(a, View) else a) for a in args[:2]]
            if not (isinstance(d_, Obj) and isinstance(s_, Obj) and d_.tname == s_.tname == 'Type' and not s_.lazy):
                raise AnalysisBroken('%s() on something else than two type objects' % call.callee())
            d_.fields.clear()
            d_.fields.update(s_.fields)
            d_.lazy = False
            return d_
        it = Interp(P, u, {'opaque': [o for o in opaque if o not in ('memcpy', 'memmove')], 'cut': cuts, 'models': {'memcpy': m_copy, 'memmove': m_copy},
                           'loop_limit': 1, 'track_stores': False})
        try:
            paths = it.explore(fname, generic_args(u, fname), max_paths=2000)
        except AnalysisBroken as ex:
            rep.undecided('R08.3', base, 'struct_union_decl() not interpretable: %s' % ex, where=where)
            return
        for ctx, out in paths:
            m = getattr(ctx, 'c08_members', None)
            if m is None:
                continue            # reference or forward declaration: nothing is laid out
            case = getattr(ctx, 'c08_lookup', 'untagged')
            seen.add(case)
            if out[0] != 'ret':
                k = (case, 'complete')
                results[k] = [False, 'a struct/union definition (%s) ends in %s() after its members were read' % (case, out[1])]
                continue
            t = out[1]
            t = it.settle(t) if isinstance(t, View) else t
            if not isinstance(t, Obj):
                results[(case, 'complete')] = [None, 'the value returned for a definition is %r, not a type object' % (t,)]
                continue

            def fld(f):
                v = t.fields.get(f, 0)
                return it.settle(v) if isinstance(v, View) else v

            def put(what, ok, msg):
                cur = results.get((case, what))
                if cur is None or (cur[0] and not ok) or (cur[0] is None and ok is False):
                    results[(case, what)] = [ok, msg]
            tagtxt = {'untagged': 'an untagged struct/union', 'new-tag': 'a struct/union whose tag is new in the scope',
                      'known-tag': 'a struct/union whose tag was already declared (forward declaration, or `struct T *` inside its own body)'}[case]
            ok_m = fld('members') is m and _is_just(fld('is_flexible'), 'FLEX')
            put('members', ok_m, 'the type returned for the definition of %s does not carry the member list / flexible-array flag that struct_members() produced: it is laid out without them' % tagtxt)
            pk, al = fld('is_packed'), fld('align')
            if scenario == 'none':
                sz = fld('size')
                ok = isinstance(sz, int) and sz == 0 and isinstance(al, int) and al == 1 and isinstance(pk, (int, bool)) and not pk
                put('complete', ok, 'the type returned for the definition of %s without attributes has size %r, alignment %r, is_packed %r before layout; '
                    'struct_decl/union_decl expect a complete empty type (size 0, alignment 1, not packed)' % (tagtxt, sz, al, pk))
            else:
                ok = isinstance(pk, (int, bool)) and bool(pk) and _is_just(al, 'AL')
                if not ok and scenario != 'leading' and not getattr(ctx, 'c08_trailing', False) and elsewhere:
                    put(scenario + '-attributes', None, 'struct_union_decl() does not read the attributes after the closing brace on this path, but %s() call(s) attribute_list(): shape not recognised' % '/'.join(elsewhere))
                    continue
                pos = {'leading': 'before the tag', 'trailing': 'after the closing brace',
                       'both': 'after the closing brace, following an __attribute__((aligned(M))) before the tag,'}[scenario]
                put(scenario + '-attributes', ok, '__attribute__((packed, aligned(N))) written %s of %s does not reach the type that is laid out '
                    '(returned type: is_packed %r, alignment %r): its members are placed and its size is computed as if the attribute were absent' % (pos, tagtxt, pk, al))
    for case in ('untagged', 'new-tag', 'known-tag'):
        if case not in seen:
            rep.undecided('R08.3', '%s/%s' % (base, case), 'no path of struct_union_decl() reads a member list for this kind of tag', where=where)
            continue
        for what in ('members', 'complete', 'leading-attributes', 'trailing-attributes', 'both-attributes'):
            key = '%s/%s/%s' % (base, case, what)
            r = results.get((case, what))
            if r is None:
                rep.undecided('R08.3', key, 'no returning path to judge', where=where)
            elif r[0] is None:
                rep.undecided('R08.3', key, r[1], where=where)
            else:
                rep.ob('R08.3', key, bool(r[0]), r[1], where=where)


# =====================================================================================
# R08.4 (cont.) specifier state is per declaration
# =====================================================================================
def r084_specifier_state(P, u, rep):
    """declspec() only ever adds to *attr (an _Alignas value, storage classes). Every function that owns a VarAttr and
    hands it to declspec() is explored with two rounds of the loop around that call; the first declaration sets every
    field, the later ones none: the state declspec() receives must be all-zero each time, and a member created by a
    later declaration must get its type's alignment."""
    rec = u.records.get('VarAttr')
    if rec is None:
        raise AnalysisBroken('record VarAttr vanished from %s' % PU)
    fields = [f for f, _t, _b in rec]
    sites = {}
    for fname, fd in sorted(u.functions.items()):
        for c in fd.calls('declspec'):
            a = c.args()
            if len(a) < 3:
                continue
            x = a[2].strip()
            if x.kind == 'UnaryOperator' and x.opcode == '&':
                r = x.inner[0].strip()
                if r.kind == 'DeclRefExpr' and r.ref_kind == 'VarDecl':
                    sites.setdefault(fname, []).append(c)
    if not sites:
        rep.undecided('R08.4', '%s:declspec:specifier-state' % PU, 'no function hands the address of its own VarAttr to declspec(): shape not recognised')
        return
    sym_of = lambda f: ('AL1' if f == 'align' else f + '1')
    for fname, calls in sites.items():
        fd = u.fn(fname)
        where = '%s:%d' % (PU, fd.line)
        key = '%s:%s:declspec/fresh-specifier-state' % (PU, fname)
        deep = set()
        for c in calls:
            deep |= enclosing_loops(c, fd)
        opaque = set()
        writers = {}       # callee -> argument positions through which it may modify a VarAttr
        for c in fd.calls():
            name = c.callee()
            if not name or name == 'declspec':
                continue
            t = ' '.join((c.dtype or c.type or '').split())
            if t not in ('Member *', 'struct Member *'):     # a helper that builds the member is looked into
                opaque.add(name)
            for i, a in enumerate(c.args()):
                at = ' '.join((a.strip().dtype or a.strip().type or '').split()).replace('struct ', '')
                if at == 'VarAttr *':
                    if name in ('memset',) or may_write_through(u, name, i):
                        writers.setdefault(name, set()).add(i)
        opaque = sorted(opaque)

        def cut_declspec(it, ctx, call, args):
            a = args[2] if len(args) > 2 else None
            a = it.settle(a) if isinstance(a, View) else a
            n = getattr(ctx, 'c08_nds', 0) + 1
            ctx.c08_nds = n
            state = None
            if isinstance(a, Obj) and not a.lazy:
                state = {}
                for f in fields:
                    v = a.fields.get(f, 0)
                    v = it.settle(v) if isinstance(v, View) else v
                    if not (isinstance(v, (int, bool)) and not v):
                        state[f] = v
                if n == 1:
                    for f in fields:
                        a.fields[f] = Sym(sym_of(f), 'int')
                    ctx.bounds[('sym', 'AL1')] = [1, 1 << 20]      # an _Alignas that has an effect
                    ctx.neq[('sym', 'AL1')] = {0}
            ctx.note('declaration %d' % n)
            ctx.emit('declspec', n, state)
            t = Obj('Type', lazy=True, label='basety')
            if n == 1 and 'TY_INT' in u.enums:
                t.fields['kind'] = u.enums['TY_INT']     # the first declaration only has to leave state behind: one shape is enough
            return t

        def mk_writer(name, positions):
            def h(it, ctx, call, args):
                for i in positions:
                    a = args[i] if i < len(args) else None
                    a = it.settle(a) if isinstance(a, View) else a
                    if isinstance(a, Obj) and a.tname == 'VarAttr' and not a.lazy:
                        if name == 'memset' and i == 0 and len(args) > 1 and isinstance(args[1], int) and args[1] == 0:
                            for f in fields:
                                a.fields[f] = 0
                        else:
                            for f in fields:
                                a.fields[f] = Sym('unknown-after-%s' % name, 'int')
                t = call.dtype or call.type
                r = None if t == 'void' else (args[0] if name == 'memset' else it.lazy_value(t, ctx.fresh(name)))
                ctx.emit('call', name, args, call.line, r)
                return r
            return h
        cuts = {'declspec': cut_declspec}
        for name, positions in writers.items():
            cuts[name] = mk_writer(name, sorted(positions))
        it = IterInterp(P, u, {'opaque': opaque, 'cut': cuts, 'loop_limit': 1, 'forever_limit': 2, 'track_stores': True})
        it.deep = frozenset(deep)
        it.set_budget(60)
        try:
            paths = it.explore(fname, generic_args(u, fname), max_paths=30000)
        except AnalysisBroken as ex:
            rep.undecided('R08.4', key, 'declaration loop of %s() not interpretable: %s' % (fname, ex), where=where)
            continue
        most = 0
        stale = unknown = None
        first = set(sym_of(f) for f in fields)
        for ctx, out in paths:
            for e in ctx.events:
                if e[0] == 'declspec' and e[2] is not None:
                    most = max(most, e[1])
                    left = []
                    for f, v in sorted(e[2].items()):
                        try:
                            if Fn(v).syms & first:
                                left.append(f)
                        except Uninterpretable:
                            pass
                    if left and stale is None:
                        stale = (e[1], left, ctx.trail[-8:])
                    elif e[2] and not left and unknown is None:
                        unknown = (e[1], sorted('%s = %r' % kv for kv in e[2].items()))
        if most < (2 if deep else 1):
            rep.undecided('R08.4', key, 'no path of %s() reaches declspec() %s with a VarAttr of its own' % (fname, 'a second time' if deep else ''), where=where)
        elif stale is None and unknown is not None:
            rep.undecided('R08.4', key, 'the specifier state handed to declspec() for declaration %d of %s() is not known to be zero (%s)' % (unknown[0], fname, ', '.join(unknown[1])), where=where)
        else:
            rep.ob('R08.4', key, stale is None, stale and (
                'in %s() the specifier state handed to declspec() for declaration %d still holds %s of the previous declaration (declspec() only adds to it): '
                'an _Alignas (or storage class) written on one declaration is applied to the declarations that follow it%s' % (
                    fname, stale[0], '/'.join(stale[1]), ' - later members are over-aligned, offsets and sizeof change' if fname == 'struct_members' else '')) or '',
                where=where, facts={'path': stale[2]} if stale else None)
        _members_after_aligned_declaration(rep, u, it, paths, fname, where, [sym_of(f) for f in fields])


def _members_after_aligned_declaration(rep, u, it, paths, fname, where, first_syms):
    """Member objects created by declaration >= 2 (which has no _Alignas) after a first declaration with _Alignas(32)"""
    res = {}
    broken = None
    for ctx, out in paths:
        if out[0] != 'ret':
            continue
        n = 0
        born = {}        # id(obj) -> (obj, declaration index)
        for e in ctx.events:
            if e[0] == 'declspec':
                n = e[1]
            elif e[0] == 'fstore' and isinstance(e[1], Obj) and e[1].tname == 'Member' and not e[1].lazy and id(e[1]) not in born:
                born[id(e[1])] = (e[1], n)
        late = [o for o, k in born.values() if k >= 2]
        if not late:
            continue
        try:
            guards = Summary(ctx, {})
        except Uninterpretable as ex:
            broken = str(ex)
            continue
        for o in late:
            ty = ty_at_store = None
            for e in ctx.events:
                if e[0] == 'fstore' and e[1] is o:
                    if e[2] == 'ty':
                        ty = e[4]
                    elif e[2] == 'align':
                        ty_at_store = ty
            ty = ty_at_store if ty_at_store is not None else ty
            ty = it.settle(ty) if isinstance(ty, View) else ty
            if not isinstance(ty, Obj):
                broken = 'type of a member is %r' % (ty,)
                continue
            flavour = 'anonymous-member' if ty.label == 'basety' else 'member'
            tyal = ty.fields.get('align')
            if tyal is None and ty.lazy:
                tyal = it.read_field(ty, 'align')
            got = o.fields.get('align', 0)
            got = it.settle(got) if isinstance(got, View) else got
            try:
                fgot, ftyal = Fn(got), Fn(tyal)
            except Uninterpretable as ex:
                broken = str(ex)
                continue
            if len(ftyal.syms) != 1:
                broken = 'alignment of the declared type is not a single unknown (%r)' % (tyal,)
                continue
            tsym = list(ftyal.syms)[0]
            for TAL in (1, 4, 8):
                e = {s_: 0 for s_ in (guards.syms() | fgot.syms)}
                for s_ in first_syms:
                    e[s_] = 32 if s_.startswith('AL') else 1
                e[tsym] = TAL
                try:
                    if not guards.applies(e):
                        continue
                    g = fgot(e)
                except (KeyError, ZeroDivisionError) as ex:
                    broken = 'path condition not evaluable: %r' % (ex,)
                    continue
                ok = g == TAL
                cur = res.get(flavour)
                if cur is None or (cur[0] and not ok):
                    res[flavour] = [ok, 'a struct %s declared without _Alignas, in a declaration that follows one with _Alignas(32), whose type has alignment %d gets alignment %d: '
                                    'the specifier of the earlier declaration is applied to it (its offset, and the size/alignment of the struct, differ from the psABI)' % (
                                        flavour.replace('-', ' '), TAL, g), {'path': ctx.trail[-10:], 'alignment': fgot.text}]
    if not res and broken is None:
        return                # this site creates no members
    base = '%s:%s:alignas' % (PU, fname)
    if not res:
        rep.undecided('R08.4', base + '/after-aligned-declaration', 'members of a second declaration not interpretable: %s' % broken, where=where)
    for flavour, (ok, msg, facts) in sorted(res.items()):
        rep.ob('R08.4', '%s/%s/after-aligned-declaration' % (base, flavour), ok, msg, where=where, facts=facts)


def r084_alignas_specifier(P, u, rep):
    """declspec: `_Alignas(type)` records the type's alignment, `_Alignas(n)` the constant"""
    fn = u.fn('declspec')
    if fn is None:
        raise AnalysisBroken('anchor function declspec vanished from %s' % PU)
    where = '%s:%d' % (PU, fn.line)
    tw = TokenWorld(P, u)

    def cut_typename(it, ctx, call, args):
        rest, tok = args[0], args[1]
        if not (isinstance(rest, _Ref) and isinstance(tok, Obj)):
            raise AnalysisBroken('typename() called with unexpected arguments')
        rest.place.set(it, tok.fields.get('next'))
        t = Obj('Type', lazy=False, label='named-type')
        t.fields.update({'size': Sym('TS', 'int'), 'align': Sym('TAL', 'int'), 'kind': u.enums.get('TY_INT', 0)})
        return t
    class _It(GuardInterp, _LocalEnumInterp):
        pass
    # C11 6.7.5p6: with several alignment specifiers the strictest one decides; the path summaries of declspec() are compared, as a
    # function of the unknown alignments, with max() on a grid (so `if (a < n) a = n`, MAX(), two paths or one are all fine)
    T_, N_ = ['_Alignas', '(', 'long', ')'], ['_Alignas', '(', '32', ')']
    G = (1, 2, 4, 8, 16, 32, 64)
    cases = (('_Alignas(type)', T_ + ['char'], ('TAL',), 'the alignment of the named type'),
             ('_Alignas(constant)', N_ + ['char'], ('N1',), 'the value of the constant expression'),
             ('_Alignas(constant)+_Alignas(constant)', N_ + N_ + ['char'], ('N1', 'N2'), 'the strictest (largest) of the two alignments (C11 6.7.5p6; gcc and clang)'),
             ('_Alignas(type)+_Alignas(constant)', T_ + N_ + ['char'], ('TAL', 'N1'), 'the strictest (largest) of the two alignments (C11 6.7.5p6; gcc and clang)'),
             ('_Alignas(constant)+_Alignas(type)', N_ + T_ + ['char'], ('N1', 'TAL'), 'the strictest (largest) of the two alignments (C11 6.7.5p6; gcc and clang)'))
    for name, seq, syms, what in cases:
        key = '%s:declspec:%s' % (PU, name)
        shown = []
        k_ = 0
        for t_ in seq:
            if t_ == '32':
                k_ += 1
                t_ = 'N%d' % k_
            shown.append(t_)
        shown = ' '.join(shown)
        try:
            it = _It(P, u, {'models': tw.models(), 'cut': {'const_expr': _cut_const_exprs('N'), 'typename': cut_typename},
                            'globals': {g: (lambda ctx, g=g, f=f: Obj('Type', lazy=False, label=g, fields=dict(f))) for g, f in type_globals(P).items()}})
            it.local_enums = _local_enums(fn)
            it.set_budget(6)

            def mk(ctx):
                a = Obj('VarAttr', lazy=False, label='attr')
                ctx.c08attr = a
                for s_ in ('TAL', 'N1', 'N2'):
                    ctx.bounds[('sym', s_)] = [1, 1 << 20]        # alignments that have an effect
                    ctx.neq[('sym', s_)] = {0}
                return [_Ref(_ValPlace(0)), tw.tokens(seq), a]
            paths = it.explore('declspec', mk, max_paths=200)
        except AnalysisBroken as ex:
            rep.undecided('R08.4', key, 'declspec not interpretable on `%s`: %s' % (shown, ex), where=where)
            continue
        try:
            sums = [(Summary(ctx, {'align': ctx.c08attr.fields.get('align', 0)}), out) for ctx, out in paths]
            bad = None
            for vals in itertools.product(G, repeat=len(syms)):
                e = dict(zip(syms, vals))
                e.setdefault('TS', 8)
                hits = [(s_, out) for s_, out in sums if s_.applies(e)]
                if not hits:
                    raise Uninterpretable('no path of declspec() covers %r' % (e,))
                for s_, out in hits:
                    txt = ', '.join('%s=%d' % (k, e[k]) for k in syms).replace('TAL', '_Alignof(type)')
                    if out[0] != 'ret':
                        bad = bad or '`%s x;` (%s) is rejected by %s()' % (shown, txt, out[1])
                    else:
                        got = s_.out['align'](e)
                        if got != max(vals) and bad is None:
                            bad = '`%s x;` with %s records alignment %d for x instead of %s, %d' % (shown, txt, got, what, max(vals))
        except (Uninterpretable, KeyError, ZeroDivisionError) as ex:
            rep.undecided('R08.4', key, 'declspec on `%s`: the recorded alignment is not a function of the specifiers\' alignments: %s' % (shown, ex), where=where)
            continue
        rep.ob('R08.4', key, bad is None, (bad or '') + (': the object or member is less aligned than the declaration asks for' if bad and len(syms) > 1 else ''), where=where)


# =====================================================================================
# R08.4 sizeof/_Alignof result type; _Alignas reaches the object
# =====================================================================================
def _ctor_type(u, name, tg):
    fd = u.fn(name) if name else None
    if fd is None:
        return None
    for n in fd.walk():
        if n.kind == 'BinaryOperator' and n.opcode == '=' and n.inner[0].strip().kind == 'MemberExpr' and n.inner[0].strip().name == 'ty':
            r = n.inner[1].strip()
            if r.kind == 'DeclRefExpr' and r.ref_name in tg:
                return r.ref_name
    return None


def _in_subtree(node, root):
    p = node
    while p is not None:
        if p is root:
            return True
        p = p.parent
    return False


def _flexible_array(rep, it, paths, where):
    """a trailing array of unknown length becomes a zero-length array of the same element type and marks the struct flexible"""
    key = '%s:struct_members:flexible-array-member' % PU
    seen = 0
    bad = None
    for ctx, out in paths:
        if out[0] != 'ret':
            continue
        for e in ctx.events:
            if e[0] == 'call' and e[1] == 'array_of':
                seen += 1
                args = e[2]
                ln = args[1] if len(args) > 1 else None
                ln = it.settle(ln) if isinstance(ln, View) else ln
                # the member whose type is replaced by the result
                tgt = [x for x in ctx.events if x[0] == 'fstore' and x[2] == 'ty' and (x[4] is e[4] or (isinstance(x[4], View) and isinstance(e[4], View) and x[4].cell is e[4].cell))]
                flex = [x for x in ctx.events if x[0] == 'fstore' and x[2] == 'is_flexible' and isinstance(x[1], Obj) and x[1].label == 'ty']
                if not (isinstance(ln, int) and ln == 0):
                    bad = bad or 'the flexible array member is given length %r instead of 0: sizeof the struct would include elements of the flexible array' % (ln,)
                elif not tgt:
                    bad = bad or 'the zero-length array type is not stored back into the last member'
                else:
                    old = tgt[0][3]
                    old = it.settle(old) if isinstance(old, View) else old
                    base = args[0]
                    base = it.settle(base) if isinstance(base, View) else base
                    ob = old.fields.get('base') if isinstance(old, Obj) else None
                    ob = it.settle(ob) if isinstance(ob, View) else ob
                    if ob is not base:
                        bad = bad or 'the zero-length array is built from another element type than the declared one'
                    fl = flex[-1][4] if flex else 0
                    if not (isinstance(fl, (int, bool)) and int(fl) == 1):
                        bad = bad or 'the struct is not marked is_flexible'
    # the type object a declarator/declspec call returned may be a typedef'd (shared) one: converting it in place is not a conversion of this member
    inplace = None
    for ctx, out in paths:
        for e in ctx.events:
            if (e[0] == 'fstore' and isinstance(e[1], Obj) and e[1].tname == 'Type' and e[1].lazy and e[2] not in _NOT_DESCRIPTIVE and inplace is None
                    and (e[1].label or '').split('#')[0] in ('declarator', 'declspec', 'basety')):
                inplace = (e[2], 'declarator' if e[1].label.startswith('declarator') else 'declspec')
    if inplace:
        rep.ob('R08.3', key, False, 'struct_members() writes the field `%s` of the type object that %s() returned for a member instead of giving the member a new type: when the member '
               'is declared through a typedef (`typedef int V[]; struct S { int n; V data; };`) the typedef\'d type itself is changed, and every later `V x = {1,2,3};` gets the '
               'changed length/size instead of the one its initializer gives' % inplace, where=where)
    elif not seen:
        rep.undecided('R08.3', key, 'no path of struct_members() rebuilds a trailing incomplete array with array_of()', where=where)
    else:
        rep.ob('R08.3', key, bad is None, bad or '', where=where)


_BORING_ALIGN = None


def _anonymous_member_guard(rep, it, paths, where):
    """C11 6.7.2.1p13: an anonymous member is a member declaration WITHOUT declarator whose specifier is a struct/union specifier WITHOUT tag.  `struct In { int a; };`
    inside a struct only declares the tag, `T;` (typedef name) declares nothing: neither adds a member.  The type object alone cannot tell the three apart (a typedef'd
    untagged struct IS the object of its specifier), so on every path of struct_members() that turns a declarator-less declaration into a member the decision must rest on
    something besides the kind of the declspec() result, the `;` and the _Alignas value: the specifier tokens, a fact declspec() reports, a field of the type."""
    import re
    key = '%s:struct_members:anonymous-member/untagged-specifier-only' % PU
    boring_field = re.compile(r'^!?\(?basety\.kind\b|^!?\(\w+\.align\)$')
    call_res = re.compile(r'^(\w+)#\d+ in ')
    n = 0
    blind = None
    for ctx, out in paths:
        if out[0] != 'ret':
            continue
        at = getattr(ctx, 'c08_declspec', None)
        if at is None:
            continue
        mems = [e[1] for e in ctx.events if e[0] == 'fstore' and e[2] == 'ty' and isinstance(e[1], Obj) and e[1].tname == 'Member' and not e[1].lazy
                and isinstance(e[4], Obj) and e[4].label == 'basety']
        mems = [m for m in mems if isinstance(m.fields.get('name', 0), int) and not m.fields.get('name', 0) and not (isinstance(m.fields.get('is_bitfield', 0), int) and m.fields.get('is_bitfield', 0))]
        if not mems:
            continue
        n += 1
        # calls on the token stream that only ask for the end of the declaration / of the member list
        plain = sum(1 for e in ctx.events[at[0]:] if e[0] == 'call' and e[1] in ('equal', 'consume', 'skip') and any(isinstance(a, str) and a in (';', '}') for a in e[2]))
        other_calls = [e[1] for e in ctx.events[at[0]:] if e[0] == 'call' and not (e[1] in ('equal', 'consume', 'skip') and any(isinstance(a, str) and a in (';', '}') for a in e[2]))]
        rest = [t for t in ctx.trail[at[1]:] if not boring_field.search(t)]
        token_tests = [t for t in rest if call_res.match(t)]
        evidence = bool(other_calls) or len(token_tests) > plain or any(not call_res.match(t) for t in rest)
        if not evidence and blind is None:
            blind = list(ctx.trail[at[1]:])
    if not n:
        rep.undecided('R08.3', key, 'no path of struct_members() turns a declaration without declarator into a member: anonymous members are not recognised any more', where=where)
        return
    rep.ob('R08.3', key, blind is None,
           'struct_members() turns EVERY declaration without declarator whose type is a struct or union into an anonymous member (the path decides on %s only): the inner `struct In { int a; };` of '
           '`struct O { struct In { int a; }; int b; }` (a tagged specifier: declares the tag only) and `T;` with `typedef struct { int a; } T;` (declares nothing) add a member, so sizeof(struct O) is 8 (gcc 4) '
           'and every later member is 4 bytes further than in gcc-compiled code; only a struct/union specifier WITHOUT tag and without declarator is an anonymous member (C11 6.7.2.1p13)' % (blind,), where=where,
           facts={'decisions': blind})


def _kinds_of(it, u, t):
    """names of the kinds a type object can still have on this path (None: unconstrained)"""
    k = t.fields.get('kind') if isinstance(t, Obj) else None
    if k is None:
        return None
    if isinstance(k, View):
        vals = set(k.proj(c) for c in k.cell.cands)
    else:
        vals = {k}
    names = {v: n for n, v in u.enums.items() if n.startswith('TY_')}
    return set(names.get(v, v) for v in vals)


def _incomplete_operand(rep, it, u, paths, key, spelled, where):
    """an incomplete type (array of unknown bound, struct/union declared but not defined) has no size: its size field holds a negative marker.  C11 6.5.3.4p1: sizeof shall
    not be applied to an incomplete type.  On every returning path of the sizeof arms that yields a compile-time number, the facts of the path must exclude a negative size
    of the operand type (the complementary paths end in a diagnostic); otherwise the marker itself, converted to unsigned long, is the value of the expression."""
    n = 0
    und = bad = None
    for ctx, out in paths:
        if out[0] != 'ret' or getattr(ctx, 'c08_parsed', 0) != 1:
            continue
        if _kinds_of(it, u, ctx.c08op[0]) == {'TY_VLA'}:
            continue
        try:
            g = Summary(ctx, {})
            e = {s_: 8 for s_ in g.syms()}
            e['TS'] = 8
            if not g.applies(e):
                continue               # a path for other operands than a complete object type of size 8
            n += 1
            for neg in (-1, -4, -8):
                e['TS'] = neg
                if g.applies(e):
                    bad = bad or neg
        except (Uninterpretable, KeyError, ZeroDivisionError) as ex:
            und = und or 'path condition not evaluable: %r' % (ex,)
    if bad is not None:
        rep.ob('R08.4', key, False, '`%s` of an operand whose type is incomplete (size field %d: `extern int e[]; sizeof e`, `sizeof(int[])`, `struct S; sizeof(struct S)`, and `int a[5]; int a[]; sizeof a`) is accepted '
               'and yields the marker as an unsigned long (%d) instead of a diagnostic (C11 6.5.3.4p1; gcc: invalid application of sizeof to incomplete type)' % (spelled, bad, bad % 2 ** 64), where=where)
    elif und or not n:
        rep.undecided('R08.4', key, und or 'no returning path of primary() for `%s` of a complete type' % spelled, where=where)
    else:
        rep.ob('R08.4', key, True, '', where=where)


def _operand_type(P, u, rep, prim):
    """sizeof / _Alignof yield the size / alignment of *the operand's type*: primary() is executed on `sizeof ( int )`, `sizeof y`,
    `_Alignof ( int )`, `_Alignof y` with the type-name / operand parser replaced by its contract (consumes the operand, yields a
    type T - resp. a node of type T - whose size, alignment, kind are unknowns and whose base chain T -> B1 -> B2 has unknowns of
    its own). On every returning path that does not compute a run-time (VLA) size the number handed to the node constructor must
    be T's own field. (The alignment of a base type is accepted when the path established that every type above it is an array:
    array_of() gives an array its element's alignment, R08.2.)"""
    tw = TokenWorld(P, u)
    noret = ('error', 'error_at', 'error_tok', 'exit', '_exit', 'abort', '__assert_fail')
    sem = {}

    def sig(name):
        ps = u.params(name) if u.fn(name) is not None else None
        if ps is None:
            return None
        return [_norm_ptr(p.type) for p in ps]

    type_parsers, node_parsers, opaque = set(), set(), set()
    for c in prim.calls():
        name = c.callee()
        if not name or name in noret or name in ('equal', 'is_typename', 'skip', 'add_type', 'primary'):
            continue
        rt = _norm_ptr(c.dtype or c.type)
        if sig(name) == ['Token * *', 'Token *'] and rt == 'Type *':
            type_parsers.add(name)
        elif sig(name) == ['Token * *', 'Token *'] and rt == 'Node *':
            node_parsers.add(name)
        elif sig(name) == ['Type *'] and rt in ('int', 'long', 'unsigned int', 'unsigned long', 'size_t', '_Bool', 'bool'):
            pass          # a helper of parse.c that maps a type to a number (`align_of(ty)`): executed, not cut
        else:
            opaque.add(name)

    def consume_one(it, args):
        rest, tok = args[0], args[1]
        if not (isinstance(rest, _Ref) and isinstance(tok, Obj)):
            raise AnalysisBroken('operand parser called with unexpected arguments')
        rest.place.set(it, tok.fields.get('next'))

    def cut_type(it, ctx, call, args):
        consume_one(it, args)
        ctx.c08_parsed = getattr(ctx, 'c08_parsed', 0) + 1
        return ctx.c08op[0]

    def cut_node(it, ctx, call, args):
        consume_one(it, args)
        ctx.c08_parsed = getattr(ctx, 'c08_parsed', 0) + 1
        n = Obj('Node', lazy=True, label='operand-node')
        n.fields['ty'] = ctx.c08op[0]
        return n

    def m_skip(it, ctx, call, args):
        t = it.settle(args[0]) if isinstance(args[0], View) else args[0]
        if not (isinstance(t, Obj) and isinstance(t.fields.get('loc'), str) and isinstance(args[1], str)):
            raise AnalysisBroken('skip() on a non-concrete token')
        if t.fields['loc'] != args[1]:
            raise AnalysisBroken('skip(): `%s` expected, `%s` found' % (args[1], t.fields['loc']))
        return t.fields.get('next')

    def mk_for(seq):
        def mk(ctx):
            chain = []
            nxt = 0
            for lab, s, a in (('base of the base of the operand type', 'BS2', 'BAL2'), ('base of the operand type', 'BS1', 'BAL1'), ('operand type', 'TS', 'TAL')):
                t = Obj('Type', lazy=True, label=lab)
                t.fields.update({'size': Sym(s, 'int'), 'align': Sym(a, 'int'), 'base': nxt})
                nxt = t
                chain.insert(0, t)
            ctx.c08op = chain
            return [_Ref(_ValPlace(0)), tw.tokens(seq)]
        return mk
    what = {'TS': 'the size of the operand type', 'TAL': 'the alignment of the operand type',
            'BS1': 'the size of the type the operand type is derived from (pointee / element type)', 'BAL1': 'the alignment of the type the operand type is derived from (pointee / element type)',
            'BS2': 'the size of the base type of the base type', 'BAL2': 'the alignment of the base type of the base type (every pointer and array level stripped)'}
    for kw, field, want in (('sizeof', 'size', 'TS'), ('_Alignof', 'align', 'TAL')):
        for form, seq in (('type', [kw, '(', 'int', ')']), ('expr', [kw, 'y'])):
            key = '%s:primary:%s-%s/operand-type' % (PU, kw, form)
            where = '%s:%d' % (PU, prim.line)
            spelled = '%s(type-name)' % kw if form == 'type' else '%s expression' % kw
            try:
                models = tw.models()
                models['skip'] = m_skip
                cuts = {'add_type': lambda it, ctx, c, a: None}
                for nm in type_parsers:
                    cuts[nm] = cut_type
                for nm in node_parsers:
                    cuts[nm] = cut_node
                it = Interp(P, u, {'models': models, 'cut': cuts, 'opaque': sorted(opaque), 'loop_limit': 1})
                paths = it.explore('primary', mk_for(seq), max_paths=300)
            except AnalysisBroken as ex:
                rep.undecided('R08.4', key, 'primary() not interpretable on `%s`: %s' % (' '.join(seq), ex), where=where)
                continue
            bad = und = None
            judged = 0
            ctors = set()
            if kw == 'sizeof':
                _incomplete_operand(rep, it, u, paths, '%s:primary:%s-%s/incomplete-operand-diagnosed' % (PU, kw, form), spelled, where)
            for ctx, out in paths:
                if getattr(ctx, 'c08_parsed', 0) != 1:
                    und = und or 'a path of primary() on `%s` parses %d operands' % (' '.join(seq), getattr(ctx, 'c08_parsed', 0))
                    continue
                if out[0] != 'ret':
                    # a diagnostic is a defect only if an operand of a complete type can reach it (an incomplete type - negative size marker - has no size to yield)
                    reach = True
                    try:
                        g_ = Summary(ctx, {})
                        if 'TS' in g_.syms():
                            reach = False
                            for ts_ in (0, 1, 4, 8, 48):
                                e_ = {s_: 8 for s_ in g_.syms()}
                                e_['TS'] = ts_
                                reach = reach or g_.applies(e_)
                    except (Uninterpretable, KeyError, ZeroDivisionError):
                        reach = True
                    if reach:
                        bad = bad or '`%s` is rejected by %s()' % (spelled, out[1])
                    continue
                chain = ctx.c08op
                kinds = [_kinds_of(it, u, t) for t in chain]
                if kw == 'sizeof' and kinds[0] == {'TY_VLA'}:
                    continue                         # the size of a VLA is computed at run time
                ev = [e for e in ctx.events if e[0] == 'call' and e[4] is out[1]]
                if not ev or not ev[0][2]:
                    und = und or 'the value primary() returns for `%s` is not the result of a node constructor applied to a number' % spelled
                    continue
                v = ev[0][2][0]
                v = it.settle(v) if isinstance(v, View) else v
                judged += 1
                ctors.add(ev[0][1])
                if _is_just(v, want):
                    continue
                ok = False
                got = None
                for s_ in what:
                    if _is_just(v, s_):
                        got = s_
                if field == 'align' and got in ('BAL1', 'BAL2'):
                    depth = 1 if got == 'BAL1' else 2
                    # array_of() gives an array its element's alignment; a variable-length array type has its element's alignment too
                    # (its own align field describes the pointer slot, see the vla-operand obligation below)
                    ok = all(kinds[i] is not None and kinds[i] <= {'TY_ARRAY', 'TY_VLA'} for i in range(depth))
                if not ok and bad is None:
                    bad = ('`%s` yields %s instead of %s%s' % (
                        spelled, what.get(got, 'the value %r' % (v,)), what[want],
                        ': for a pointer type (char *, void *, int (*)[4], function pointers) the result is that of the pointee, objects placed at _Alignof(T) boundaries are misaligned'
                        if (field == 'align' and got) else ''), ev[0][3])
            if bad and not isinstance(bad, tuple):
                bad = (bad, prim.line)
            if bad:
                rep.ob('R08.4', key, False, bad[0], where='%s:%d' % (PU, bad[1]))
            elif und or not judged:
                rep.undecided('R08.4', key, und or 'no returning path of primary() on `%s` to judge' % ' '.join(seq), where=where)
            else:
                rep.ob('R08.4', key, True, '', where=where)
                sem[(kw, form)] = ctors
    # ---- _Alignof of a variable-length array type ---------------------------------------------------
    # vla_of() gives a TY_VLA type object the size and alignment of the pointer-sized slot that represents the object (R08.2); its
    # align field is therefore not the alignment of the array type. C11 6.5.3.4p3: _Alignof an array type is the alignment of the
    # element type. primary() is executed on operand types that are concretely T[n] and T[n][m] (TY_VLA over TY_VLA over T, as
    # the declarator builds them): the number that reaches the node constructor must be the alignment of T.
    if 'TY_VLA' in u.enums and 'TY_INT' in u.enums:
        def mk_vla(seq, depth):
            def mk(ctx):
                chain, nxt = [], 0
                labs = [('element type', 'BS2', 'BAL2'), ('base of the operand type', 'BS1', 'BAL1'), ('operand type', 'TS', 'TAL')]
                for i, (lab, s, a) in enumerate(labs):
                    level = 2 - i                    # 0 = operand type
                    t = Obj('Type', lazy=True, label=lab)
                    t.fields.update({'size': Sym(s, 'int'), 'align': Sym(a, 'int'), 'base': nxt,
                                     'kind': u.enums['TY_VLA'] if level < depth else u.enums['TY_INT']})
                    nxt = t
                    chain.insert(0, t)
                ctx.c08op = chain
                return [_Ref(_ValPlace(0)), tw.tokens(seq)]
            return mk
        for form, seq in (('type', ['_Alignof', '(', 'int', ')']), ('expr', ['_Alignof', 'y'])):
            key = '%s:primary:_Alignof-%s/vla-operand' % (PU, form)
            where = '%s:%d' % (PU, prim.line)
            bad = und = None
            judged = 0
            for depth, elem in ((1, 'BAL1'), (2, 'BAL2')):
                try:
                    models = tw.models()
                    models['skip'] = m_skip
                    cuts = {'add_type': lambda it, ctx, c, a: None}
                    for nm in type_parsers:
                        cuts[nm] = cut_type
                    for nm in node_parsers:
                        cuts[nm] = cut_node
                    it = Interp(P, u, {'models': models, 'cut': cuts, 'opaque': sorted(opaque), 'loop_limit': 3})
                    paths = it.explore('primary', mk_vla(seq, depth), max_paths=300)
                except AnalysisBroken as ex:
                    und = und or 'primary() not interpretable on `%s` with a variable-length array operand: %s' % (' '.join(seq), ex)
                    continue
                shape = 'int[n]' if depth == 1 else 'int[n][m]'
                for ctx, out in paths:
                    if getattr(ctx, 'c08_parsed', 0) != 1:
                        und = und or 'a path of primary() parses %d operands' % getattr(ctx, 'c08_parsed', 0)
                        continue
                    if out[0] != 'ret':
                        continue         # rejecting _Alignof of a VLA type is a diagnostic, not a wrong value
                    ev = [e for e in ctx.events if e[0] == 'call' and e[4] is out[1]]
                    if not ev or not ev[0][2]:
                        und = und or 'the value primary() returns for _Alignof of a variable-length array type is not the result of a node constructor applied to a number'
                        continue
                    v = ev[0][2][0]
                    v = it.settle(v) if isinstance(v, View) else v
                    judged += 1
                    if _is_just(v, elem):
                        continue
                    got = [s_ for s_ in what if _is_just(v, s_)]
                    if bad is None:
                        bad = ('`_Alignof` of a variable-length array %s (`%s`) yields %s; C11 6.5.3.4p3: the alignment of the element type '
                               '(the size and alignment fields of a TY_VLA type object describe the pointer-sized slot that holds the array\'s address, not the array)' % (
                                   'type' if form == 'type' else 'object', shape, what.get(got[0], got[0]) if got else 'the value %r' % (v,)), ev[0][3])
            if bad:
                rep.ob('R08.4', key, False, bad[0], where='%s:%d' % (PU, bad[1]))
            elif und or not judged:
                rep.undecided('R08.4', key, und or 'no returning path of primary() to judge', where=where)
            else:
                rep.ob('R08.4', key, True, '', where=where)
    return sem


def r084(P, u, rep):
    rep.rule('R08.4', 'sizeof and _Alignof yield the size / the alignment of the operand type itself (not of a type it is derived from) as an unsigned long; an _Alignas specifier reaches the '
             'object or member it declares (else the type\'s alignment) at every declaration site, and only that declaration (specifier state is zeroed per declaration)', floor=24)
    tg = type_globals(P)
    prim = u.fn('primary')
    if prim is None:
        raise AnalysisBroken('anchor function primary vanished from %s' % PU)
    arms = {}
    for n in prim.walk():
        if n.kind != 'IfStmt' or n.enclosing('IfStmt') is not None:
            continue
        c = n.inner[0]
        kw = None
        for call in c.calls('equal'):
            a = call.args()
            if len(a) == 2 and a[1].str_value() in ('sizeof', '_Alignof') and a[0].src() == 'tok':
                kw = a[1].str_value()
        if kw is None:
            continue
        form = 'type' if c.calls('is_typename') else 'expr'
        arms[(kw, form)] = n
    sem = _operand_type(P, u, rep, prim)
    for kw, field in (('sizeof', 'size'), ('_Alignof', 'align')):
        for form in ('type', 'expr'):
            key = '%s:primary:%s-%s' % (PU, kw, form)
            n = arms.get((kw, form))
            if n is None:
                rep.undecided('R08.4', key, 'the arm of primary() for `%s %s` was not found' % (kw, '(type-name)' if form == 'type' else 'expression'))
                continue
            good, bad, other = [], [], 0
            for r in n.inner[1].find('ReturnStmt'):
                if not r.inner:
                    continue
                e = r.inner[0].strip()
                if e.kind == 'DeclRefExpr' and e.ref_kind == 'VarDecl':
                    # `Node *n = new_ulong(...); return n;`
                    for d in n.inner[1].find('VarDecl'):
                        if d.id == e.ref_id and 'init' in d.d and d.inner:
                            e = d.inner[-1].strip()
                # returns in the then-branch of a `kind == TY_VLA` test compute the size at run time
                vla = False
                for a in r.ancestors():
                    if a is n:
                        break
                    if a.kind == 'IfStmt' and 'TY_VLA' in a.inner[0].src() and '!=' not in a.inner[0].src() and _in_subtree(r, a.inner[1]):
                        vla = True
                if vla:
                    continue
                if e.kind == 'CallExpr' and e.args():
                    a0 = e.args()[0].strip()
                    if a0.kind == 'MemberExpr' and a0.name in ('size', 'align'):
                        t = _ctor_type(u, e.callee(), tg)
                        if a0.name != field:
                            bad.append((r.line, '`%s` yields the operand type\'s %s, not its %s' % (kw, a0.name, field)))
                        elif t is None:
                            other += 1
                        else:
                            f = tg[t]
                            if (f['size'], f['is_unsigned']) != (8, 1):
                                bad.append((r.line, '`%s` builds its result with %s(): the result has type %s (size %s, %s) instead of unsigned long (size_t): '
                                            '`-1 < sizeof x`, `sizeof(x) - 9 < 0` and %%zu arguments behave differently from gcc' % (
                                                kw, e.callee(), t, f['size'], 'unsigned' if f['is_unsigned'] else 'signed')))
                            else:
                                good.append(r.line)
                        continue
                other += 1
            if bad:
                rep.ob('R08.4', key, False, bad[0][1], where='%s:%d' % (PU, bad[0][0]))
            elif good and not other:
                rep.ob('R08.4', key, True, '', where='%s:%d' % (PU, n.line))
            elif sem.get((kw, form)) and all(_ctor_type(u, c_, tg) is not None and (tg[_ctor_type(u, c_, tg)]['size'], tg[_ctor_type(u, c_, tg)]['is_unsigned']) == (8, 1)
                                             for c_ in sem[(kw, form)]):
                # the arm is not written as return <constructor>(<type>->field): executed instead (operand-type obligation): every path hands the operand type's
                # own field to a constructor that gives its node the type unsigned long
                rep.ob('R08.4', key, True, '', where='%s:%d' % (PU, n.line))
            else:
                rep.undecided('R08.4', key, 'the `%s` arm of primary() has %d result expression(s) that are not <constructor>(<type>->%s, ...)' % (kw, other, field), where='%s:%d' % (PU, n.line))
    # ---- _Alignas -> object -------------------------------------------------------------
    OPQ = ['equal', 'consume', 'skip', 'declarator', 'const_expr', 'array_of', 'get_ident', 'gvar_initializer', 'lvar_initializer',
           'compute_vla_size', 'new_unary', 'new_binary', 'new_vla_ptr', 'new_alloca', 'new_var_node', 'new_node', 'push_scope',
           'new_unique_name', 'format', 'new_num', 'new_long', 'new_ulong']

    def lazy_attr(ctx):
        a = Obj('VarAttr', lazy=True, label='attr')
        a.fields['align'] = Sym('AL', 'int')
        return a

    def cut_declspec(it, ctx, call, args):
        a = args[2] if len(args) > 2 else None
        if isinstance(a, Obj):
            a.fields['align'] = Sym('AL', 'int')
        # the specifiers are consumed: the token after them is another one than the first (a function that looks at the specifier tokens walks from one to the other)
        if args and isinstance(args[0], _Ref):
            args[0].place.set(it, Obj('Token', lazy=True, label='after-declspec'))
        ctx.c08_declspec = (len(ctx.events), len(ctx.trail))
        return Obj('Type', lazy=True, label='basety')

    sites = [
        ('struct_members', 'Member', lambda ctx: [_Ref(_ValPlace(0)), Obj('Token', lazy=True, label='tok'), Obj('Type', lazy=True, label='ty')], {'declspec': cut_declspec}, 'member'),
        ('declaration', 'Obj', lambda ctx: [_Ref(_ValPlace(0)), Obj('Token', lazy=True, label='tok'), Obj('Type', lazy=True, label='basety'), lazy_attr(ctx)], {}, 'local'),
        ('global_variable', 'Obj', lambda ctx: [Obj('Token', lazy=True, label='tok'), Obj('Type', lazy=True, label='basety'), lazy_attr(ctx)], {}, 'global'),
    ]
    for fname, tname, mk, cuts, what in sites:
        fd = u.fn(fname)
        if fd is None:
            rep.undecided('R08.4', '%s:%s:alignas' % (PU, fname), 'declaration site %s vanished' % fname)
            continue
        where = '%s:%d' % (PU, fd.line)
        # predicates over the token stream (every parameter a token, a truth value returned) that the site calls are not followed into: their answer is an unknown of the path
        preds = []
        for c in fd.calls():
            cn = c.callee()
            cf = u.fn(cn) if cn else None
            if cf is None or cn in OPQ or cn in cuts or cn in preds or cn == fname:
                continue
            ps = u.params(cn)
            rt = ' '.join((cf.type or '').split('(')[0].split())
            if ps and all(' '.join((p_.type or '').split()).replace('struct ', '') in ('Token *', 'Token **') for p_ in ps) and rt in ('bool', '_Bool', 'int'):
                preds.append(cn)
        try:
            it = Interp(P, u, {'opaque': OPQ + preds, 'cut': cuts, 'loop_limit': 1, 'track_stores': True})
            paths = it.explore(fname, mk, max_paths=4000)
        except AnalysisBroken as ex:
            rep.undecided('R08.4', '%s:%s:alignas' % (PU, fname), 'declaration site not interpretable: %s' % ex, where=where)
            continue
        res = {}      # construct -> [ok, msg, facts]
        seen_case = set()
        nobj = 0
        broken = None
        for ctx, out in paths:
            if out[0] != 'ret':
                continue
            objs = []
            for e in ctx.events:
                if e[0] == 'fstore' and e[2] == 'ty' and isinstance(e[1], Obj) and e[1].tname == tname and not e[1].lazy and e[1] not in objs:
                    objs.append(e[1])
            if not objs:
                continue
            try:
                guards = Summary(ctx, {})
            except Uninterpretable as ex:
                broken = str(ex)
                continue
            for o in objs:
                # the type the object had when its alignment was last written (a flexible array member's type is replaced later)
                ty = None
                ty_at_store = None
                for e in ctx.events:
                    if e[0] == 'fstore' and e[1] is o:
                        if e[2] == 'ty':
                            ty = e[4]
                        elif e[2] == 'align':
                            ty_at_store = ty
                ty = ty_at_store if ty_at_store is not None else ty
                ty = it.settle(ty) if isinstance(ty, View) else ty
                got = o.fields.get('align', 0)
                got = it.settle(got) if isinstance(got, View) else got
                flavour = what
                if tname == 'Obj' and fname == 'declaration':
                    flavour = 'local' if o.fields.get('is_local') else 'static-local'
                    kind = ty.fields.get('kind') if isinstance(ty, Obj) else None
                    kind = it.settle(kind) if isinstance(kind, View) else kind
                    kinds = set(kind.proj(c) for c in kind.cell.cands) if isinstance(kind, View) else {kind}
                    if kinds == {u.enums.get('TY_VLA')}:
                        continue       # VLAs live in alloca'd storage
                if tname == 'Member' and isinstance(ty, Obj) and ty.label == 'basety':
                    flavour = 'anonymous-member'
                nobj += 1
                tyal = None
                if isinstance(ty, Obj):
                    tyal = ty.fields.get('align')
                    if tyal is None and ty.lazy:
                        tyal = it.read_field(ty, 'align')
                nice = flavour.replace('-', ' ')
                try:
                    fgot = Fn(got)
                    ftyal = Fn(tyal) if tyal is not None else None
                except Uninterpretable as ex:
                    broken = str(ex)
                    continue
                if ftyal is None or len(ftyal.syms) != 1:
                    broken = 'alignment of the declared type is not a single unknown (%r)' % (tyal,)
                    continue
                tsym = list(ftyal.syms)[0]
                others = (guards.syms() | fgot.syms) - {'AL', tsym}
                # the object's alignment as a function of (_Alignas value, type alignment), on the states this path covers
                for AL, TAL in ((0, 1), (0, 8), (16, 1), (64, 8), (16, 4)):
                    e = {s_: 0 for s_ in others}
                    e['AL'] = AL; e[tsym] = TAL
                    try:
                        if not guards.applies(e):
                            continue
                        g = fgot(e)
                    except (KeyError, ZeroDivisionError) as ex:
                        broken = 'path condition not evaluable: %r' % (ex,)
                        continue
                    case = 'with-alignas' if AL else 'without-alignas'
                    want = AL if AL else TAL
                    ok = g == want
                    seen_case.add((flavour, case))
                    if AL:
                        msg = 'a %s declared with _Alignas(%d) whose type has alignment %d gets alignment %d: the specifier does not reach the object, it is placed%s as if it were absent' % (
                            nice, AL, TAL, g, ' and laid out inside its struct' if tname == 'Member' else '')
                    else:
                        msg = 'a %s declared without _Alignas whose type has alignment %d gets alignment %d' % (nice, TAL, g)
                    k = '%s/%s' % (flavour, case)
                    cur = res.get(k)
                    if cur is None or (cur[0] and not ok):
                        res[k] = [ok, msg, {'path': ctx.trail[-10:], 'alignment': fgot.text}]
        if fname == 'struct_members':
            try:
                from ..build import require_signature
                require_signature(u, 'struct_members', ['Token **', 'Token *', 'Type *'], 'void')      # the struct is marked through the Type it is handed
                _flexible_array(rep, it, paths, where)
            except AnalysisBroken as e_:
                rep.undecided('R08.3', '%s:struct_members:flexible-array-member' % PU, str(e_), where=where)
            _anonymous_member_guard(rep, it, paths, where)
        if broken and not res:
            rep.undecided('R08.4', '%s:%s:alignas' % (PU, fname), 'declaration site not interpretable: %s' % broken, where=where)
        elif not nobj:
            rep.undecided('R08.4', '%s:%s:alignas' % (PU, fname), 'no path of %s creates a %s object' % (fname, tname), where=where)
        for k, (ok, msg, facts) in sorted(res.items()):
            rep.ob('R08.4', '%s:%s:alignas/%s' % (PU, fname, k), ok, msg, where=where, facts=facts)


# =====================================================================================
# R08.6 a type object is modified only by the code that created it (or completes its tag)
# =====================================================================================
# fields of Type that do not describe the type: declarator() records the declared identifier in whatever object it returns
# (name, name_pos), the run-time size slot of a VLA type is assigned where its declaration is evaluated (vla_size)
_NOT_DESCRIPTIVE = ('name', 'name_pos', 'vla_size')


def r086(P, u, rep):
    """The size/alignment/layout of a type is one object shared by every declaration that names the type (typedefs, tags, the
    ty_* globals, `base`/`ty` fields). Over every function of every unit a flow-sensitive provenance analysis (lib_c08.Ownership)
    decides, for each store into a Type or Member object, where the object may come from: allocated by this activation (or
    returned by a function that only returns such objects), the type object of a struct/union tag that a definition completes,
    reached from a parameter (then the question moves to every caller), or anything else = shared. A store into a shared object
    changes the layout of every other user of the type."""
    rep.rule('R08.6', 'a function stores into a Type/Member object (any field that describes the type: kind, size, align, array_len, base, members, offsets, ...) only if the object '
             'was created by that activation - calloc, a type constructor, copy_type - or is the type of a struct/union tag being completed; never into an object obtained from a '
             'declarator/declspec result, a `ty`/`base` field or a global, which other declarations share (typedefs, ty_int, ...); the same at every call that hands a type to a '
             'function storing through its parameter', floor=30)
    units = P.units()
    tagged = [r for un in units for r, fs in un.records.items() if any(f == 'tags' for f, _t, _b in fs)]
    if not tagged or 'Type' not in u.records or 'Member' not in u.records:
        rep.undecided('R08.6', '%s:scope:tag-table' % PU, 'no record with a `tags` table (or no Type/Member record): the type objects that a definition may complete are not recognisable')
        return
    try:
        own = Ownership(units, ('Type', 'Member'), ('Type',), tag_field='tags', skip_fields=_NOT_DESCRIPTIVE)
    except RecursionError:
        raise AnalysisBroken('expression nesting too deep for the ownership analysis')
    unit_of = {un.name: un for un in units}

    def pname(caller_unit, fn, i):
        fk = own.resolve(caller_unit, fn)
        ps = unit_of[fk[0]].params(fn) if fk else []
        return (ps[i].name or 'arg%d' % (i + 1)) if i < len(ps) else 'arg%d' % (i + 1)

    what_shared = ('an object it did not create (reached through a `Type *` field or a global, or returned by a call that may yield an existing type: a typedef\'d type, '
                   'ty_int, the type of another declaration; or a member of the list that a whole-object copy of a type - copy_type() - still shares with the original)')
    for (un, fn), stores in sorted(own.stores.items()):
        for rec, field, atoms, line in sorted(stores, key=lambda x: (x[0], x[1])):
            key = '%s:%s:owned-object-write/%s.%s' % (un, fn, rec, 'whole-object' if field == '*' else field)
            where = '%s:%d' % (un, line)
            if not atoms:
                rep.undecided('R08.6', key, 'the analysis found no object that the pointer stored through could point to', where=where)
                continue
            if UNKNOWN in atoms and SHARED not in atoms:
                rep.undecided('R08.6', key, '%s() stores through a pointer whose value the analysis does not track (a local whose address was taken, or the target of a pointer to a pointer)' % fn, where=where)
                continue
            fld = 'every field' if field == '*' else 'the field `%s`' % field
            rep.ob('R08.6', key, SHARED not in atoms,
                   '%s() stores into %s of a %s object that may be %s: the change is seen by every other declaration and expression that uses the same type object '
                   '(sizeof, member offsets and array lengths of unrelated declarations change); a modified type must be a fresh object (array_of/pointer_to/copy_type ...)' % (
                       fn, fld, rec, what_shared), where=where, facts={'may-point-to': sorted(str(a) for a in atoms)})
    for (un, fn), calls in sorted(own.calls.items()):
        for callee, i, fields, atoms, line in sorted(calls, key=lambda x: (x[0], x[1])):
            fields = sorted('%s.%s' % f for f in fields if f[1] not in _NOT_DESCRIPTIVE)
            if not fields:
                continue
            key = '%s:%s:owned-object-write/%s(%s)' % (un, fn, callee, pname(un, callee, i))
            where = '%s:%d' % (un, line)
            if not atoms:
                continue            # a null argument
            if UNKNOWN in atoms and SHARED not in atoms:
                rep.undecided('R08.6', key, '%s() hands %s() a pointer whose value the analysis does not track (a local whose address was taken, or the target of a pointer to a pointer)' % (fn, callee), where=where)
                continue
            rep.ob('R08.6', key, SHARED not in atoms,
                   '%s() hands %s() as `%s` %s; %s() stores into it (%s): the change is seen by every other user of the same type object' % (
                       fn, callee, pname(un, callee, i), what_shared.replace('it did not create', '%s() did not create' % fn), callee, ', '.join(fields)),
                   where=where, facts={'may-point-to': sorted(str(a) for a in atoms), 'fields': fields})


# =====================================================================================
# R08.5 bundled typedefs vs the compiler's own literal / operator types
# =====================================================================================
def type_globals(P):
    """{'ty_int': {'kind':..,'size':..,'align':..,'is_unsigned':..}} read from type.c"""
    tu = P.unit('type.c')
    from ..interp import Ctx
    it0 = Interp(P, tu, {})
    it0.ctx = Ctx([])
    out = {}
    for g, d in tu.globals.items():
        if (d.type or '').replace(' ', '') == 'Type*' and 'init' in d.d:
            o = it0.materialise_global(g, d)
            if isinstance(o, Obj):
                out[g] = {k: o.fields.get(k, 0) for k in ('kind', 'size', 'align', 'is_unsigned')}
    return out


def header_typedefs(P, rel):
    """{typedef name: (spelled type, line, [field types] or None)} of a bundled header, via clang's AST"""
    path = P.header(rel)
    p = subprocess.run(['clang-14', '-x', 'c', '-std=c11', '-w', '-nostdinc', '-fsyntax-only', '-Xclang', '-ast-dump=json', path],
                       capture_output=True, text=True)
    if p.returncode != 0:
        raise AnalysisBroken('clang failed on %s: %s' % (rel, p.stderr[-300:]))
    top = json.loads(p.stdout)
    out = {}
    records = {}
    real = os.path.realpath(path)
    cur = None
    line = 0
    for d in top.get('inner', []):
        loc = d.get('loc', {})
        f = loc.get('file') or (loc.get('expansionLoc') or {}).get('file')
        if f:
            cur = f
        if loc.get('line'):
            line = loc.get('line')
        if d.get('kind') == 'RecordDecl':
            fields = [c.get('type', {}).get('qualType') for c in d.get('inner', []) if c.get('kind') == 'FieldDecl']
            records[d.get('id')] = (d.get('tagUsed'), fields)
            if d.get('name'):
                records[d.get('tagUsed', 'struct') + ' ' + d['name']] = (d.get('tagUsed'), fields)
        if d.get('kind') == 'TypedefDecl' and not d.get('isImplicit') and cur and os.path.realpath(cur) == real:
            qt = d.get('type', {}).get('qualType')
            rec = None
            for c in d.get('inner', []):
                own = c.get('ownedTagDecl')
                if own and own.get('id') in records:
                    rec = records[own['id']]
            if rec is None and qt in records:
                rec = records[qt]
            out[d.get('name')] = (qt, line, rec)
    return out


def _ctype_align(t, rec=None, depth=0):
    """LP64 alignment of a C type as spelled by clang (scalars, pointers, arrays, and records given their field types)"""
    t = (t or '').replace('const ', '').replace('volatile ', '').strip()
    if rec is not None:
        als = [_ctype_align(f, None, depth + 1) for f in rec[1]]
        if not als or None in als:
            return None
        return max(als)
    if t.endswith('*') or '(*' in t:
        return 8
    if t.endswith(']'):
        return _ctype_align(t[:t.rindex('[')], None, depth + 1)
    a = _lp64_of_spelling(t)
    return a[2] if a else None


def _lp64_of_spelling(t):
    ms = _canon([w for w in (t or '').split() if w in KEYWORDS])
    if len(ms) != len((t or '').split()):
        return None
    for spelled, tname in C11_6_7_2:
        if _canon(spelled.split()) == ms:
            return _LP64[tname]
    return None


def _ty_arg_of_branch(fn, lit):
    """ty_* globals passed/assigned inside the branch of `fn` guarded by startswith(p, lit)"""
    found = []
    for n in fn.walk():
        if n.kind != 'IfStmt':
            continue
        c = n.inner[0]
        hit = False
        for call in c.calls('startswith'):
            a = call.args()
            if len(a) == 2 and a[1].str_value() == lit:
                hit = True
        if not hit:
            continue
        for x in n.inner[1].walk():
            if x.kind == 'DeclRefExpr' and x.ref_kind == 'VarDecl' and (x.ref_name or '').startswith('ty_'):
                found.append((x.ref_name, x.line))
    return found


_SIZEOF_MACRO = {   # __SIZEOF_<X>__ -> (psABI size, ty_* object of the compiler that must agree or None)
    'SHORT': (2, 'ty_short'), 'INT': (4, 'ty_int'), 'LONG': (8, 'ty_long'), 'LONG_LONG': (8, 'ty_long'), 'FLOAT': (4, 'ty_float'),
    'DOUBLE': (8, 'ty_double'), 'LONG_DOUBLE': (16, 'ty_ldouble'), 'POINTER': (8, None), 'SIZE_T': (8, 'ty_ulong'), 'PTRDIFF_T': (8, 'ty_long'),
    'WCHAR_T': (4, 'ty_int'), 'WINT_T': (4, 'ty_uint'), 'INT128': (16, None), 'FLOAT128': (16, None), 'FLOAT80': (16, None),
}


def _sizeof_macros(P, rep, tg):
    """the predefined __SIZEOF_<type>__ macros tell programs (and system headers) the size of a type: each equals the psABI size
    and the size the compiler's own type table gives the type"""
    pu = P.unit('preprocess.c')
    seen = 0
    for fnm, fd in sorted(pu.functions.items()):
        for c in fd.calls('define_macro'):
            a = c.args()
            nm = a[0].str_value() if len(a) == 2 else None
            if not (isinstance(nm, str) and nm.startswith('__SIZEOF_') and nm.endswith('__') and len(nm) > 11):
                continue
            seen += 1
            key = 'preprocess.c:%s:%s' % (fnm, nm)
            where = 'preprocess.c:%d' % c.line
            x = nm[len('__SIZEOF_'):-2]
            val = a[1].str_value()
            if x not in _SIZEOF_MACRO or not isinstance(val, str):
                rep.undecided('R08.5', key, 'predefined macro %s: the oracle does not know this type (or its value is not a literal)' % nm, where=where)
                continue
            want, g = _SIZEOF_MACRO[x]
            own = tg.get(g, {}).get('size') if g else None
            try:
                got = int(val.strip(), 0)
            except ValueError:
                rep.undecided('R08.5', key, 'predefined macro %s expands to `%s`, not to an integer literal' % (nm, val), where=where)
                continue
            rep.ob('R08.5', key, got == want and (own is None or own == got),
                   '%s is predefined as %d; psABI size of the type: %d%s - code that sizes buffers or selects layouts by this macro disagrees with sizeof' % (
                       nm, got, want, (', sizeof in this compiler (%s): %s' % (g, own)) if g else ''), where=where)
    if not seen:
        rep.undecided('R08.5', 'preprocess.c:init_macros:__SIZEOF__', 'no __SIZEOF_<type>__ macro is predefined any more: shape not recognised')


def r085(P, u, rep):
    rep.rule('R08.5', 'size_t / ptrdiff_t / wchar_t / max_align_t of include/stddef.h are the types the compiler itself gives to sizeof, pointer difference and wide literals, '
             'and those are the psABI types (unsigned long, long, int; max_align_t aligned to 16); every typedef of stddef.h / stdarg.h / stdatomic.h that programs share with '
             'code built by another compiler has the platform\'s object layout (size, alignment, signedness; va_list: psABI Fig. 3.34)', floor=72)
    H = 'include/stddef.h'
    tds = header_typedefs(P, H)
    tg = type_globals(P)

    def attrs(g):
        f = tg.get(g)
        if not f or not all(isinstance(f[k], (int, bool)) for k in f):
            return None
        return (int(f['size']), int(f['align']), int(f['is_unsigned']))

    def td(name):
        if name not in tds:
            rep.undecided('R08.5', '%s:%s:typedef' % (H, name), 'typedef %s vanished from %s' % (name, H))
            return None, None
        t, line, _rec = tds[name]
        a = _lp64_of_spelling(t)
        if a is None:
            rep.undecided('R08.5', '%s:%s:typedef' % (H, name), 'typedef %s is `%s`: not a plain arithmetic type the oracle can size' % (name, t), where='%s:%d' % (H, line))
            return None, None
        return (t, line), (a[1], a[2], a[3] or 0)

    # --- size_t
    sz_ty = None
    prim = u.fn('primary')
    if prim is None:
        raise AnalysisBroken('anchor function primary vanished from %s' % PU)
    size_ctor = None
    for c in prim.calls():
        a = c.args()
        if a and a[0].strip().kind == 'MemberExpr' and a[0].strip().name == 'size' and c.callee() and c.callee().startswith('new_'):
            size_ctor = c.callee()
    if size_ctor and u.fn(size_ctor):
        for n in u.fn(size_ctor).walk():
            if n.kind == 'BinaryOperator' and n.opcode == '=' and n.inner[0].strip().kind == 'MemberExpr' and n.inner[0].strip().name == 'ty':
                r = n.inner[1].strip()
                if r.kind == 'DeclRefExpr' and r.ref_name in tg:
                    sz_ty = r.ref_name
    hd, ha = td('size_t')
    if hd:
        if sz_ty is None or attrs(sz_ty) is None:
            rep.undecided('R08.5', '%s:size_t:is-sizeof-type' % H, 'could not recover the type primary() gives to sizeof (constructor %r)' % size_ctor)
        else:
            a = attrs(sz_ty)
            rep.ob('R08.5', '%s:size_t:is-sizeof-type' % H, ha == a,
                   'size_t is `%s` (size %d, %s) but sizeof yields %s (size %d, %s): `size_t n = sizeof x;` and printf("%%zu") disagree with the operator' % (
                       hd[0], ha[0], 'unsigned' if ha[2] else 'signed', sz_ty, a[0], 'unsigned' if a[2] else 'signed'), where='%s:%d' % (H, hd[1]))
            rep.ob('R08.5', '%s:primary:sizeof-type-is-unsigned-long' % PU, a == (8, 8, 1),
                   'sizeof yields %s (size %d, align %d, %s); psABI: size_t is unsigned long (8 bytes)' % (sz_ty, a[0], a[1], 'unsigned' if a[2] else 'signed'),
                   where='%s:%d' % (PU, u.fn(size_ctor).line))
        # __SIZE_TYPE__
        pu = P.unit('preprocess.c')
        macro = None
        for fnm, fd in pu.functions.items():
            for c in fd.calls('define_macro'):
                a = c.args()
                if len(a) == 2 and a[0].str_value() == '__SIZE_TYPE__':
                    macro = (a[1].str_value(), c.line)
        if macro is None:
            rep.undecided('R08.5', 'preprocess.c:init_macros:__SIZE_TYPE__', 'predefined macro __SIZE_TYPE__ vanished')
        else:
            ma = _lp64_of_spelling(macro[0])
            rep.ob('R08.5', 'preprocess.c:init_macros:__SIZE_TYPE__', ma is not None and (ma[1], ma[2], ma[3] or 0) == ha,
                   '__SIZE_TYPE__ expands to `%s` but size_t is `%s`: headers that define size_t from __SIZE_TYPE__ disagree with <stddef.h>' % (macro[0], hd[0]),
                   where='preprocess.c:%d' % macro[1])
    _sizeof_macros(P, rep, tg)
    # --- ptrdiff_t
    hd, ha = td('ptrdiff_t')
    ns = u.fn('new_sub')
    pd_ty = None
    if ns is not None:
        for n in ns.walk():
            if n.kind == 'IfStmt' and 'rhs->ty->base' in n.inner[0].src() and 'lhs->ty->base' in n.inner[0].src():
                for x in n.inner[1].walk():
                    if x.kind == 'BinaryOperator' and x.opcode == '=' and x.inner[0].strip().kind == 'MemberExpr' and x.inner[0].strip().name == 'ty':
                        r = x.inner[1].strip()
                        if r.kind == 'DeclRefExpr' and r.ref_name in tg:
                            pd_ty = (r.ref_name, x.line)
    if hd:
        if pd_ty is None or attrs(pd_ty[0]) is None:
            rep.undecided('R08.5', '%s:ptrdiff_t:is-pointer-difference-type' % H, 'could not recover the type new_sub() gives to pointer - pointer')
        else:
            a = attrs(pd_ty[0])
            rep.ob('R08.5', '%s:ptrdiff_t:is-pointer-difference-type' % H, ha == a and a == (8, 8, 0),
                   'ptrdiff_t is `%s` but pointer - pointer has type %s (size %d, %s); psABI: long' % (hd[0], pd_ty[0], a[0], 'unsigned' if a[2] else 'signed'),
                   where='%s:%d' % (PU, pd_ty[1]))
    # --- wchar_t
    hd, ha = td('wchar_t')
    tk = P.unit('tokenize.c')
    tfn = tk.fn('tokenize')
    if tfn is None:
        raise AnalysisBroken('tokenize() vanished')
    for lit, what, keyname in (("L'", 'wide character constant L\'x\'', 'wide-char-constant'), ('L"', 'element of a wide string literal L"..."', 'wide-string-element')):
        found = _ty_arg_of_branch(tfn, lit)
        names = sorted(set(f[0] for f in found))
        if len(names) != 1 or attrs(names[0]) is None:
            rep.undecided('R08.5', 'tokenize.c:tokenize:%s-type' % keyname, 'could not recover the type given to the %s (candidates %r)' % (what, names))
            continue
        a = attrs(names[0])
        line = found[0][1]
        rep.ob('R08.5', 'tokenize.c:tokenize:%s-type' % keyname, a == (4, 4, 0),
               'the %s has type %s (size %d, %s); psABI: wchar_t is int (4 bytes, signed)' % (what, names[0], a[0], 'unsigned' if a[2] else 'signed'),
               where='tokenize.c:%d' % line)
        if hd:
            rep.ob('R08.5', '%s:wchar_t:is-%s-type' % (H, keyname), ha == a,
                   'wchar_t is `%s` (%s) but the %s has type %s (%s): `wchar_t c = L\'\\xff\'...` style code sees two different types, (wchar_t)-1 < 0 is false here and true with gcc' % (
                       hd[0], 'unsigned' if ha[2] else 'signed', what, names[0], 'unsigned' if a[2] else 'signed'), where='%s:%d' % (H, hd[1]))
    # --- max_align_t
    if 'max_align_t' not in tds:
        rep.undecided('R08.5', '%s:max_align_t:typedef' % H, 'typedef max_align_t vanished')
    else:
        t, line, rec = tds['max_align_t']
        al = _ctype_align(t, rec)
        mx = max([int(f['align']) for g, f in tg.items() if isinstance(f['align'], int)] or [0])
        if al is None:
            rep.undecided('R08.5', '%s:max_align_t:alignment' % H, 'max_align_t is `%s`: the oracle cannot compute its alignment' % t, where='%s:%d' % (H, line))
        else:
            rep.ob('R08.5', '%s:max_align_t:alignment' % H, al >= max(mx, 16),
                   'max_align_t is `%s` (alignment %d) but the most aligned scalar type has alignment %d (long double; psABI: _Alignof(max_align_t) == 16): storage aligned for max_align_t is misaligned for long double' % (t, al, max(mx, 16)),
                   where='%s:%d' % (H, line))



# =====================================================================================
# R08.5 (cont.) offsetof of the bundled <stddef.h> is an integer constant expression for this compiler
# =====================================================================================
_CLANG_BINOP = {'+': 'ND_ADD', '-': 'ND_SUB', '*': 'ND_MUL', '/': 'ND_DIV', '%': 'ND_MOD', '&': 'ND_BITAND', '|': 'ND_BITOR', '^': 'ND_BITXOR',
                '<<': 'ND_SHL', '>>': 'ND_SHR', '==': 'ND_EQ', '!=': 'ND_NE', '<': 'ND_LT', '<=': 'ND_LE', '&&': 'ND_LOGAND', '||': 'ND_LOGOR', ',': 'ND_COMMA'}
_CLANG_UNOP = {'&': 'ND_ADDR', '*': 'ND_DEREF', '-': 'ND_NEG', '!': 'ND_NOT', '~': 'ND_BITNOT'}


def _node_shape(d):
    """clang expression (JSON) -> (node kind the parser builds for it, {operand field: shape}); Uninterpretable for anything else"""
    k = d.get('kind')
    I = [c for c in (d.get('inner') or []) if c]
    if k in ('ParenExpr', 'ConstantExpr', 'ImplicitCastExpr') and I:
        return _node_shape(I[0])
    if k == 'IntegerLiteral' or k == 'CharacterLiteral':
        return ('ND_NUM', {})
    if k == 'CStyleCastExpr' and I:
        return ('ND_CAST', {'lhs': _node_shape(I[-1])})
    if k == 'UnaryOperator' and d.get('opcode') in _CLANG_UNOP and I:
        return (_CLANG_UNOP[d['opcode']], {'lhs': _node_shape(I[0])})
    if k == 'MemberExpr' and I:
        b = _node_shape(I[0])
        return ('ND_MEMBER', {'lhs': ('ND_DEREF', {'lhs': b}) if d.get('isArrow') else b})
    if k == 'BinaryOperator' and d.get('opcode') in _CLANG_BINOP and len(I) == 2:
        return (_CLANG_BINOP[d['opcode']], {'lhs': _node_shape(I[0]), 'rhs': _node_shape(I[1])})
    if k == 'UnaryExprOrTypeTraitExpr':
        return ('ND_NUM', {})
    raise Uninterpretable('expression kind %s in the expansion' % k)


def _switch_arms(fn):
    """{enumerator: [statements of its arm]}, [statements of the default arm / after the switch] for the switch over a node kind in fn"""
    sws = [x for x in fn.find('SwitchStmt') if x.enclosing('SwitchStmt') is None]
    if len(sws) != 1 or not sws[0].inner or sws[0].inner[-1].kind != 'CompoundStmt':
        raise Uninterpretable('%s() is not one switch over the node kind' % fn.name)
    sw = sws[0]
    arms, default, cur = {}, None, None
    for c in sw.inner[-1].inner:
        if c.kind in ('CaseStmt', 'DefaultStmt'):
            cur = []
            x = c
            while x.kind in ('CaseStmt', 'DefaultStmt'):
                if x.kind == 'DefaultStmt':
                    default = cur
                else:
                    names = [y.ref_name for y in x.inner[0].walk() if y.kind == 'DeclRefExpr' and y.ref_kind == 'EnumConstantDecl']
                    if len(names) != 1:
                        raise Uninterpretable('case label of %s() is not one enumerator' % fn.name)
                    arms[names[0]] = cur
                x = x.inner[-1]
            cur.append(x)
        elif cur is not None:
            cur.append(c)
    if default is None:
        body = [c for c in fn.inner if c.kind == 'CompoundStmt'][0]
        default = body.inner[body.inner.index(sw) + 1:]
    return arms, default


def _accepts(u, fname, shape, depth=0):
    """does the predicate fname(node) (a switch over node->kind whose arms return a constant or recurse into operands) accept the shape?
    True / False; Uninterpretable when the predicate has another form"""
    if depth > 40:
        raise Uninterpretable('predicate recursion too deep')
    fn = u.fn(fname)
    if fn is None:
        raise Uninterpretable('%s() is not defined in %s' % (fname, u.name))
    ps = u.params(fname)
    if not ps or _norm_ptr(ps[0].type) != 'Node *':
        raise Uninterpretable('%s() does not take a node' % fname)
    pn = ps[0].name
    arms, default = _switch_arms(fn)
    kind, kids = shape
    stmts = arms.get(kind, default)
    rets = [r for s_ in stmts for r in ([s_] if s_.kind == 'ReturnStmt' else s_.find('ReturnStmt'))]
    if not rets:
        raise Uninterpretable('the arm of %s() for %s does not return' % (fname, kind))
    consts = [r.inner[0].int_value() if r.inner else None for r in rets]
    if all(c is not None for c in consts):
        if all(c for c in consts):
            return True
        if not any(consts):
            return False
    for field, sub in kids.items():
        calls = [c for s_ in stmts for c in s_.calls() if c.callee() in u.functions and c.args() and c.args()[0].src() == '%s->%s' % (pn, field)]
        for c in calls:
            if not _accepts(u, c.callee(), sub, depth + 1):
                return False
    return True


def _norm_ptr(t):
    return ' '.join((t or '').replace('struct ', '').replace('*', ' * ').split())


def _show_shape(sh):
    k, kids = sh
    return k[3:].lower() + ('(' + ', '.join(_show_shape(x) for x in kids.values()) + ')' if kids else '')


_DESIGNATORS = (     # class, member designator, what it is
    ('member', 'm', 'a scalar member'),
    ('nested-member', 'in.m', 'a member of a member'),
    ('array-member', 'arr', 'an array member'),
    ('array-element', 'arr[1]', 'an element of an array member'),
    ('array-element-2d', 'grid[1][2]', 'an element of a two-dimensional array member'),
    ('array-row', 'grid[1]', 'a row of a two-dimensional array member'),
    ('array-of-struct-element-member', 'ent[2].m', 'a member of an element of an array of structs'),
    ('nested-array-element', 'in.v[3]', 'an element of an array inside a member'),
)


def _split_type(qt):
    """(kind name, base spelling or None) of a clang type spelling, as the compiler under test classifies it"""
    t = ' '.join((qt or '').replace('const ', ' ').replace('volatile ', ' ').split())
    if '(*)' in t:
        return 'TY_PTR', ''.join(x.strip() for x in t.split('(*)', 1))
    if t.endswith(']'):
        i = t.index('[')
        j = t.index(']', i)
        return 'TY_ARRAY', (t[:i] + t[j + 1:]).strip()
    if t.endswith('*'):
        return 'TY_PTR', t[:-1].strip()
    if t.startswith('struct '):
        return 'TY_STRUCT', None
    if t.startswith('union '):
        return 'TY_UNION', None
    a = _lp64_of_spelling(t)
    if a is None or a[0] != 'int':
        raise Uninterpretable('type `%s` in the expansion' % qt)
    return {1: 'TY_CHAR', 2: 'TY_SHORT', 4: 'TY_INT', 8: 'TY_LONG'}[a[1]], None


def _mk_type(E, qt, depth=0):
    kind, base = _split_type(qt)
    if kind not in E:
        raise AnalysisBroken('type kind %s vanished' % kind)
    t = Obj('Type', lazy=False, label=qt)
    t.fields.update({'kind': E[kind], 'base': _mk_type(E, base, depth + 1) if (base is not None and depth < 6) else 0})
    return t


def _node_tree(E, d):
    """clang expression (JSON) -> the typed node tree the parser + add_type() build for it (concrete Engine-I objects).
    x[i] is *(x + i * sizeof *x); add_type() converts both operands of a pointer addition to the pointer type (casts), the
    type of `*p` is the pointee, an array-typed lvalue keeps its array type (no decay node)."""
    def node(kind, qt, **kids):
        if kind not in E:
            raise AnalysisBroken('node kind %s vanished' % kind)
        n = Obj('Node', lazy=False, label=kind)
        n.fields.update({'kind': E[kind], 'ty': _mk_type(E, qt), 'lhs': 0, 'rhs': 0, 'cond': 0, 'then': 0, 'els': 0})
        n.fields.update(kids)
        n.meta['qt'] = qt
        return n

    def qt_of(x):
        t = x.get('type', {})
        return t.get('desugaredQualType') or t.get('qualType')
    k = d.get('kind')
    I = [c for c in (d.get('inner') or []) if c]
    if k in ('ParenExpr', 'ConstantExpr', 'ImplicitCastExpr') and I:
        return _node_tree(E, I[0])
    if k in ('IntegerLiteral', 'CharacterLiteral', 'UnaryExprOrTypeTraitExpr'):
        return node('ND_NUM', 'int')
    if k == 'CStyleCastExpr' and I:
        return node('ND_CAST', qt_of(d), lhs=_node_tree(E, I[-1]))
    if k == 'UnaryOperator' and d.get('opcode') in _CLANG_UNOP and I:
        return node(_CLANG_UNOP[d['opcode']], qt_of(d), lhs=_node_tree(E, I[0]))
    if k == 'MemberExpr' and I:
        b = _node_tree(E, I[0])
        if d.get('isArrow'):
            kind, base = _split_type(b.meta['qt'])
            if kind != 'TY_PTR':
                raise Uninterpretable('-> applied to `%s`' % b.meta['qt'])
            b = node('ND_DEREF', base, lhs=b)
        return node('ND_MEMBER', qt_of(d), lhs=b)
    if k == 'ArraySubscriptExpr' and len(I) == 2:
        b, i = _node_tree(E, I[0]), _node_tree(E, I[1])
        kind, elem = _split_type(b.meta['qt'])
        if kind not in ('TY_ARRAY', 'TY_PTR'):
            raise Uninterpretable('subscript applied to `%s`' % b.meta['qt'])
        pt = elem + ' *'
        mul = node('ND_MUL', 'long', lhs=node('ND_CAST', 'long', lhs=i), rhs=node('ND_CAST', 'long', lhs=node('ND_NUM', 'long')))
        add = node('ND_ADD', pt, lhs=node('ND_CAST', pt, lhs=b), rhs=node('ND_CAST', pt, lhs=mul))
        return node('ND_DEREF', elem, lhs=add)
    if k == 'BinaryOperator' and d.get('opcode') in _CLANG_BINOP and len(I) == 2:
        return node(_CLANG_BINOP[d['opcode']], qt_of(d), lhs=_node_tree(E, I[0]), rhs=_node_tree(E, I[1]))
    raise Uninterpretable('expression kind %s in the expansion' % k)


def _show_tree(n):
    kids = [n.fields.get(f) for f in ('lhs', 'rhs')]
    kids = [x for x in kids if isinstance(x, Obj)]
    return n.label[3:].lower() + ('(' + ', '.join(_show_tree(x) for x in kids) + ')' if kids else '')


def _offsetof_designators(P, u, rep, H, path, pred):
    """C11 7.19p3 for every form of member designator: `offsetof(T, d)` with d a member, a member of a member, an array member, an
    element (of an element) of an array member, a member of an array element. The expansion the bundled header gives is read through
    clang, rebuilt as the typed node tree the parser hands to the constant-expression predicate, and the predicate (with every
    predicate it calls) is *executed* by Engine I on that concrete tree; it must answer "constant". Otherwise array_dimensions()
    gives `char a[offsetof(T, d)]` a VLA type: as a struct member that is silently a pointer-sized slot, and the size, the
    alignment and every later offset of the enclosing struct differ from the psABI."""
    base = '%s:offsetof:constant-expression' % H
    where = '%s:%d' % (PU, u.fn(pred).line)
    E = u.enums
    post = u.fn('postfix')
    subscript_ok = False
    if post is not None:
        for c in post.calls('new_unary'):
            a = c.args()
            if len(a) >= 2 and a[0].strip().kind == 'DeclRefExpr' and a[0].strip().ref_name == 'ND_DEREF' and a[1].strip().kind == 'CallExpr' and a[1].strip().callee() == 'new_add':
                subscript_ok = True
    probe = ('#include "%s"\nstruct __in { char c; long m; char v[9]; };\n'
             'struct __probe { char c; int m; char arr[7]; char grid[3][5]; struct __in in; struct __in ent[4]; };\n' % path)
    probe += 'enum {\n' + ''.join('  __probe_v%d = offsetof(struct __probe, %s),\n' % (i, dsg) for i, (_c, dsg, _w) in enumerate(_DESIGNATORS)) + '};\n'
    p = subprocess.run(['clang-14', '-x', 'c', '-std=c11', '-w', '-nostdinc', '-fsyntax-only', '-Xclang', '-ast-dump=json', '-'], input=probe, capture_output=True, text=True)
    try:
        top = json.loads(p.stdout)
    except ValueError:
        top = None
    inits = {}
    for d in (top or {}).get('inner', []):
        if d.get('kind') == 'EnumDecl':
            for c in d.get('inner', []) or []:
                if c.get('kind') == 'EnumConstantDecl' and (c.get('name') or '').startswith('__probe_v') and c.get('inner'):
                    inits[int(c['name'][len('__probe_v'):])] = c['inner'][0]
    if p.returncode != 0 or len(inits) != len(_DESIGNATORS):
        rep.undecided('R08.5', base, 'clang does not accept the offsetof designator probes with %s: %s' % (H, p.stderr[-200:]), where=where)
        return
    for i, (cls, dsg, what) in enumerate(_DESIGNATORS):
        key = '%s/%s' % (base, cls)
        if '[' in dsg and not subscript_ok:
            rep.undecided('R08.5', key, 'postfix() does not build x[i] as new_unary(ND_DEREF, new_add(x, i)) any more: the tree shape of a subscript is not known', where=where)
            continue
        try:
            tree = _node_tree(E, inits[i])
            it = Interp(P, u, {'cut': {'add_type': lambda it_, ctx, c, a: None}, 'loop_limit': 1, 'rec_limit': 64, 'max_depth': 200})
            paths = it.explore(pred, lambda ctx: [tree], max_paths=50)
        except (Uninterpretable, AnalysisBroken) as ex:
            rep.undecided('R08.5', key, '%s() not interpretable on the expansion of offsetof(T, %s): %s' % (pred, dsg, ex), where=where)
            continue
        outs = set()
        for ctx, out in paths:
            v = out[1] if out[0] == 'ret' else None
            v = it.settle(v) if isinstance(v, View) else v
            outs.add(int(bool(v)) if isinstance(v, (int, bool)) else None)
        if len(paths) != 1 or None in outs:
            rep.undecided('R08.5', key, '%s() has %d paths / a non-concrete answer on the concrete tree of offsetof(T, %s)' % (pred, len(paths), dsg), where=where)
            continue
        rep.ob('R08.5', key, outs == {1},
               'offsetof(T, %s) - %s - expands to %s, which %s() does not accept as a constant expression (C11 7.19p3; eval() folds it): an array whose bound it is, `char pad[offsetof(T, %s)]`, '
               'gets a variable-length array type; as a struct member that is silently an 8-byte, 8-aligned slot, so sizeof/_Alignof of the enclosing struct and the offsets of all later members '
               'differ from the psABI, and at file scope the declaration is rejected' % (dsg, what, _show_tree(tree), pred, dsg), where=where, facts={'tree': _show_tree(tree)})


def r085_offsetof(P, u, rep):
    """C11 7.19p3: offsetof expands to an integer constant expression. The expansion the bundled <stddef.h> gives is read through clang
    (a probe `enum { v = offsetof(struct p, m) }` including the header), translated into the node kinds the parser builds for it
    (& -> ND_ADDR, -> -> ND_MEMBER over ND_DEREF, cast -> ND_CAST, literal -> ND_NUM), and the compiler's own constant-expression predicate
    is_const_expr() - which array_dimensions() asks to choose between a fixed-size array type and a VLA type - is followed arm by arm over that shape."""
    H = 'include/stddef.h'
    key = '%s:offsetof:integer-constant-expression' % H
    path = P.header(H)
    probe = '#include "%s"\nstruct __probe { char c; int m; };\nenum { __probe_v = offsetof(struct __probe, m) };\n' % path
    p = subprocess.run(['clang-14', '-x', 'c', '-std=c11', '-w', '-nostdinc', '-fsyntax-only', '-Xclang', '-ast-dump=json', '-'], input=probe, capture_output=True, text=True)
    try:
        top = json.loads(p.stdout)
    except ValueError:
        rep.undecided('R08.5', key, 'clang produced no AST for the offsetof probe: %s' % p.stderr[-200:])
        return
    init = None
    for d in top.get('inner', []):
        if d.get('kind') == 'EnumDecl':
            for c in d.get('inner', []) or []:
                if c.get('kind') == 'EnumConstantDecl' and c.get('name') == '__probe_v' and c.get('inner'):
                    init = c['inner'][0]
    if p.returncode != 0 or init is None:
        rep.undecided('R08.5', key, '%s does not define an offsetof that clang accepts in `enum { v = offsetof(struct p, m) }`: %s' % (H, p.stderr[-200:]))
        return
    ad = u.fn('array_dimensions')
    preds = sorted(set(c.callee() for c in ad.calls() if c.callee() in u.functions and _norm_ptr((u.params(c.callee()) or [None])[0].type if u.params(c.callee()) else '') == 'Node *'
                       and ' '.join((c.dtype or c.type or '').split()) in ('bool', '_Bool', 'int'))) if ad is not None else []
    if ad is None or not (ad.calls('vla_of') and ad.calls('array_of')) or len(preds) != 1:
        rep.undecided('R08.5', key, 'array_dimensions() does not choose between array_of() and vla_of() by one predicate over the bound expression (found %s)' % preds)
        return
    where = '%s:%d' % (PU, u.fn(preds[0]).line)
    try:
        shape = _node_shape(init)
        ok = _accepts(u, preds[0], shape)
    except Uninterpretable as ex:
        rep.undecided('R08.5', key, 'offsetof / %s() not interpretable: %s' % (preds[0], ex), where=where)
        return
    try:
        _offsetof_designators(P, u, rep, H, path, preds[0])
    except AnalysisBroken as ex:
        rep.undecided('R08.5', '%s:offsetof:constant-expression' % H, 'designator probes could not be decided: %s' % ex, where=where)
    rep.ob('R08.5', key, ok, 'offsetof(type, member) of %s expands to %s, which %s() does not accept as a constant expression (the folder eval() does evaluate it): '
           '`char buf[offsetof(struct S, m)];` gets a variable-length array type - sizeof(buf) is not the psABI size of char[offset], at file scope the object is emitted as an 8-byte '
           'pointer slot and `sizeof buf` crashes the compiler (C11 7.19p3: offsetof is an integer constant expression)' % (H, _show_shape(shape), preds[0]), where=where,
           facts={'expansion': _show_shape(shape)})


# =====================================================================================
# R08.5 (cont.) object layout of the types the bundled headers define
# =====================================================================================
# What the platform (x86-64 psABI; gcc's <stddef.h>/<stdarg.h>/<stdatomic.h> with glibc's integer types) says an object of the
# type looks like: (sizeof, _Alignof, signedness of an integer type or None, scalar members [(offset, size, class)] or None).
# Only the shape is compared, never the spelling: any definition with this layout is fine.
_VA_ELEM = [(0, 4, 'int'), (4, 4, 'int'), (8, 8, 'ptr'), (16, 8, 'ptr')]        # psABI Figure 3.34
_VA_NAMES = {'gp_offset': 0, 'fp_offset': 4, 'overflow_arg_area': 8, 'reg_save_area': 16}


def _i(size, uns):
    return (size, size, uns, None)


ABI_TYPEDEFS = {
    'include/stddef.h': {
        'size_t': _i(8, 1), 'ptrdiff_t': _i(8, 0), 'wchar_t': _i(4, 0),
        'max_align_t': (32, 16, None, None),                 # struct { long long; long double; }: two 16-byte slots
    },
    'include/stdarg.h': {
        'va_list': (24, 8, None, _VA_ELEM), '__gnuc_va_list': (24, 8, None, _VA_ELEM),
    },
    'include/stdatomic.h': {
        'memory_order': (4, 4, None, None),
        'atomic_flag': (1, 1, None, None), 'atomic_bool': (1, 1, None, None),
        'atomic_char': _i(1, 0), 'atomic_schar': _i(1, 0), 'atomic_uchar': _i(1, 1),
        'atomic_short': _i(2, 0), 'atomic_ushort': _i(2, 1), 'atomic_int': _i(4, 0), 'atomic_uint': _i(4, 1),
        'atomic_long': _i(8, 0), 'atomic_ulong': _i(8, 1), 'atomic_llong': _i(8, 0), 'atomic_ullong': _i(8, 1),
        'atomic_char16_t': _i(2, 1), 'atomic_char32_t': _i(4, 1), 'atomic_wchar_t': _i(4, 0),
        'atomic_int_least8_t': _i(1, 0), 'atomic_uint_least8_t': _i(1, 1), 'atomic_int_least16_t': _i(2, 0), 'atomic_uint_least16_t': _i(2, 1),
        'atomic_int_least32_t': _i(4, 0), 'atomic_uint_least32_t': _i(4, 1), 'atomic_int_least64_t': _i(8, 0), 'atomic_uint_least64_t': _i(8, 1),
        # glibc <stdint.h> on x86-64: int_fast8_t is signed char, int_fast16_t / int_fast32_t / int_fast64_t are long
        'atomic_int_fast8_t': _i(1, 0), 'atomic_uint_fast8_t': _i(1, 1), 'atomic_int_fast16_t': _i(8, 0), 'atomic_uint_fast16_t': _i(8, 1),
        'atomic_int_fast32_t': _i(8, 0), 'atomic_uint_fast32_t': _i(8, 1), 'atomic_int_fast64_t': _i(8, 0), 'atomic_uint_fast64_t': _i(8, 1),
        'atomic_intptr_t': _i(8, 0), 'atomic_uintptr_t': _i(8, 1), 'atomic_size_t': _i(8, 1), 'atomic_ptrdiff_t': _i(8, 0),
        'atomic_intmax_t': _i(8, 0), 'atomic_uintmax_t': _i(8, 1),
    },
}


def _scalar_of_spelling(t):
    a = _lp64_of_spelling(t)
    if a is None:
        return None
    cls, size, align, uns = a
    return (cls, size, align, uns)


def _show_leaves(ls):
    return ', '.join('%s of %d bytes at offset %d' % ({'int': 'integer', 'ptr': 'pointer', 'float': 'floating member', 'bool': '_Bool', 'enum': 'enum'}.get(c, c), s, o) for o, s, c in ls)


def r085_abi_layout(P, u, rep):
    """Every ABI-visible typedef of a bundled header is laid out by the psABI rules (struct: members in order, each at the next
    multiple of its alignment, size rounded to the largest alignment; union: largest member; array: n elements) from the
    declaration clang reads, and the result is compared with the platform's object layout of that type."""
    for H, table in ABI_TYPEDEFS.items():
        try:
            ht = HeaderTypes(P.header(H), _scalar_of_spelling, tolerate_errors=True)
        except AnalysisBroken as ex:
            rep.undecided('R08.5', '%s:abi-layout' % H, 'header not readable: %s' % ex)
            continue
        for name, (wsize, walign, wuns, wleaves) in table.items():
            key = '%s:%s:abi-layout' % (H, name)
            if name not in ht.typedefs:
                rep.undecided('R08.5', key, 'typedef %s vanished from %s' % (name, H))
                continue
            where = '%s:%d' % (H, ht.lines.get(name, 0))
            spelled = ht.typedefs[name].get('type', {}).get('qualType')
            try:
                l = ht.layout(name)
                ls = leaves(l) if wleaves is not None else None
            except Uninterpretable as ex:
                rep.undecided('R08.5', key, '%s is `%s`: the layout oracle cannot size it (%s)' % (name, spelled, ex), where=where)
                continue
            bad = []
            if l['size'] != wsize:
                bad.append('sizeof(%s) is %s, platform ABI: %d' % (name, l['size'], wsize))
            if l['align'] != walign:
                bad.append('_Alignof(%s) is %d, platform ABI: %d' % (name, l['align'], walign))
            if wuns is not None and (l['cls'] != 'int' or int(bool(l['unsigned'])) != wuns):
                bad.append('%s is %s, platform ABI: %s integer' % (name, ('an unsigned integer' if l['unsigned'] else 'a signed integer') if l['cls'] == 'int' else 'of class ' + l['cls'],
                                                                   'an unsigned' if wuns else 'a signed'))
            if wleaves is not None and not bad and ls != wleaves:
                bad.append('%s consists of %s; platform ABI: %s' % (name, _show_leaves(ls), _show_leaves(wleaves)))
            if wleaves is _VA_ELEM and not bad:
                e = l['elem'] if l['cls'] == 'array' else l
                for fn_, off, _f in (e.get('fields') or []):
                    if fn_ in _VA_NAMES and off != _VA_NAMES[fn_]:
                        bad.append('the member %s of %s is at offset %d, psABI Figure 3.34: %d (the prologue of a variadic function and libc fill and read it there)' % (fn_, name, off, _VA_NAMES[fn_]))
            layout_differs = l['size'] != wsize or l['align'] != walign or (wleaves is not None and ls != wleaves)
            rep.ob('R08.5', key, not bad,
                   '%s is `%s`: %s - %s' % (name, spelled, '; '.join(bad),
                                            ('an object that holds a %s by value (struct member, array element, argument) has another size or other offsets here than in code built by gcc/clang' % name)
                                            if layout_differs else 'comparisons and conversions of its values differ from code built by gcc/clang'),
                   where=where, facts={'layout': {'size': l['size'], 'align': l['align'], 'class': l['cls']}})
