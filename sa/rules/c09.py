"""C09 Macro expansion follows C11 6.10.3 and terminates (DESIGN.md §3 C09).

Engine I explores the expansion functions of preprocess.c on abstract tokens
(every helper opaque, so each path is a sequence of helper calls with the
provenance of their arguments), and evaluates the small pure list/string
helpers (hide sets, append, quote_string, join_tokens) on a complete small
concrete domain.
"""
from ..interp import NoReturn, Interp, Obj, Sym, View, Cell, Term, Arr, VarPlace, ElemPlace, _Ref, is_opaque
from ..build import AnalysisBroken
from ..lib_c09 import (PInterp, PARAM, OTHER, literals_compared, make_equal_model, make_find_arg_model, m_copy_token,
                       copy_lazy_field, cls_of, chain, as_obj, mk_hideset, hideset_names, mk_tokens, m_copy_token_concrete,
                       strip_ids)
from ..lib_c09x import list_passes, Desc, show, calls_in, explore_expand, KNOWN_CALLS, explore_subst, SubstPath, explore_skip_arms, new_token_flag_facts, SKIP_KINDS
from ..lib_c09 import Agg, NotConcrete

U = 'preprocess.c'


def run(P, rep, tier):
    u = P.unit(U)
    rep.explanation = ('Structural skeleton of Prosser\'s expansion algorithm in preprocess.c, decided on every path of '
                       'expand_macro / subst / read_macro_arg_one / read_macro_definition over abstract tokens (token spelling is one '
                       'finite cell per token, refined by the comparisons the code performs), plus exhaustive evaluation of the pure '
                       'helpers (hide-set union/intersection/membership, add_hideset, append, quote_string, join_tokens) on a small '
                       'complete domain by the interpreter. Not decided: the emitted token sequence for all definitions/invocations '
                       '. Round 4 adds: argument token lists are shared and stay untouched (R09.12), placemarker handling of ## with empty operands on a '
                       'sub-language of replacement lists (R09.13), ## in object-like macros (R09.14), an empty replacement leaves the following token '
                       'alone (R09.15), replacement results are never directives (R09.16), and the token boundaries (pp-number, identifier, #, ##, ...) '
                       'macro replacement works on, by running one round of the tokenizer loop on concrete texts (R09.17). Round 5 adds R09.18: the white space '
                       '(has_space) of every token that replacement produces, copies, splices or passes on, as a later # spells it - the has_space obligations of '
                       'R19.2 (C19) re-issued, plus: non-first tokens of copied lists keep their flag (subst, the list copier, read_macro_arg_one, paste_objlike, '
                       'append, preprocess2 pass-through, expand_macro), the first token of a __VA_OPT__ group, the source of the flag of the token handed back '
                       '(the macro NAME), and the separator after an invocation that expands to nothing. Round 7 adds: R09.21 (a __VA_OPT__ group is one operand of ##; '
                       'has_varargs goes by is_va_args, run on concrete argument lists; an empty group left of ## is a placemarker), R09.22 (an argument is macro-replaced once '
                       'per invocation: two occurrences of one parameter sharing one MacroArg), and in R09.9 stringize as a whole is run on concrete operands with string '
                       'literals, character constants and a backslash outside of them (C11 6.10.3.2p2). Round 8 adds R09.23 (C11 6.10.3.1p1: arguments that are only operands of # / ## or unused are never '
                       'macro-expanded - the expander is reachable from subst only: call-graph obligation for every helper of the invocation machinery and every dynamic-macro handler, provenance of what '
                       'expand_macro hands to expanding functions, subst on parameter-free replacement lists; a subst that works on the arguments whatever the replacement list uses also stops the '
                       'parameter-driven explorations instead of multiplying their paths) and, in R09.3, `# parameter` as the right operand of ## (the string literal is the operand, not the bare #).')
    rep.assumptions += ['calloc succeeds', 'loops over token lists are analysed for 0..2 generic iterations',
                        'tokenize() returns a NUL/EOF-terminated token list', 'clang 14 typed AST']
    shared = {}

    def part(name, f):
        try:
            return f()
        except NotConcrete as e:
            rep.undecided(name, '%s:%s:not-concrete' % (U, name), 'the interpreter cannot follow a helper to a concrete result (%s)' % e)
        except AnalysisBroken as e:
            rep.undecided(name, '%s:%s:analysis' % (U, name), 'analysis could not proceed: %s' % e)
        return None

    part('R09.23', lambda: r_expansion_sites(P, u, rep))
    r = part('R09.1', lambda: r_expand(P, u, rep))
    rs = part('R09.3', lambda: r_subst(P, u, rep))
    if rs is not None:
        part('R09.12', lambda: r_arg_sharing(P, u, rep, rs[0], rs[1]))
    part('R09.21', lambda: r_va_opt(P, u, rep))
    part('R09.22', lambda: r_expanded_once(P, u, rep))
    part('R09.5', lambda: r_arg_one(P, u, rep))
    part('R09.5', lambda: r_args(P, u, rep))
    part('R09.6', lambda: r_definition(P, u, rep))
    part('R09.6', lambda: r_params(P, u, rep))
    part('R09.3', lambda: r_arg_lookup(P, u, rep))
    part('R09.7', lambda: r_hideset_prims(P, u, rep))
    part('R09.9', lambda: r_stringize(P, u, rep))
    part('R09.11', lambda: r_white_space(P, rep))
    part('R09.17', lambda: r_pp_number(P, rep))
    part('R09.18', lambda: r_result_white_space(P, u, rep))
    part('R09.19', lambda: r_definition_static(P, u, rep))
    part('R09.20', lambda: r_observed_sequence(P, rep))
    if r is not None:
        part('R09.8', lambda: r_builtins(P, u, rep, r[0], r[1]))
        part('R09.10', lambda: r_lookup(P, u, rep))
        part('R09.10', lambda: r_offer(P, u, rep))
        part('R09.16', lambda: r_directive_source(P, u, rep, r[0], r[1]))


# ------------------------------------------------------------------ expand_macro ---
def _flatten_union(d):
    if d[0] == 'call' and d[1] == 'hideset_union':
        out = []
        for a in d[2]:
            out += _flatten_union(a)
        return out
    return [d]


def _norm_leaf(d):
    """order-insensitive rendering of a hide-set operand"""
    if d[0] == 'call' and d[1] == 'hideset_intersection':
        return 'hideset_intersection(%s)' % ', '.join(sorted(show(a) for a in d[2]))
    return show(d)


def r_expand(P, u, rep):
    fn = 'expand_macro'
    it, paths = explore_expand(P, u, with_empty=True)
    line = u.fn(fn).line
    where = '%s:%d' % (U, line)
    rep.rule('R09.1', 'expand_macro tests hideset_contains(tok->hideset, tok->loc, tok->len) before anything else and does not expand a token whose own name is in its hide set', floor=4)
    rep.rule('R09.2', 'on every path that expands a non-builtin macro, all tokens of the result (body, substituted arguments, pasted tokens) get hideset ∪ {macro name}: add_hideset is applied to the finished replacement, with (invoking token\'s set) for object-like and (macro token ∩ closing paren) for function-like macros; the replacement is followed by the token after the invocation', floor=6)
    rep.rule('R09.4', 'a function-like macro name not followed by "(" is not expanded: the test dominates read_macro_args', floor=4)
    rep.rule('R09.10', 'an identifier is refused expansion for exactly three reasons: its name is in its hide set, no macro of that name is defined (find_macro answers NULL exactly for non-identifiers and names hashmap_get2 does not know), or it names a function-like macro and the next token is not "(" - white space and line breaks (at_bol/has_space) never decide; preprocess2 offers every token of its stream to expand_macro before anything else; read_macro_args rejects an invocation only through skip()', floor=5)
    n_obj = n_fun = n_handler = 0
    n_refuse = {}
    objlike_passes = []
    for ctx, out, rest in paths:
        D = Desc(it, ctx)
        calls = [e for e in ctx.events if e[0] in ('call', 'icall')]
        names = [e[1] if e[0] == 'call' else '<handler>' for e in calls]
        facts = {'path': ctx.trail, 'calls': names}
        # ---- R09.1
        hc = [i for i, e in enumerate(calls) if e[0] == 'call' and e[1] == 'hideset_contains']
        expands = out[0] == 'ret' and not (isinstance(it.settle(out[1]), int) and it.settle(out[1]) == 0)
        touched = any(nm in ('find_macro', '<handler>', 'append', 'add_hideset', 'subst', 'read_macro_args') for nm in names) or not (isinstance(rest, int) and rest == 0)
        if not hc:
            if touched or expands:
                rep.ob('R09.1', '%s:%s:guard-missing' % (U, fn), False,
                       'a path of expand_macro looks the macro up or expands it without consulting the token\'s hide set: `#define f f` would expand forever',
                       where=where, facts=facts)
            elif out[0] == 'ret':
                ok10, construct, msg = _refusal_reason(it, u, ctx, calls, D)
                n_refuse[construct] = n_refuse.get(construct, 0) + 1
                rep.ob('R09.10', '%s:%s:%s' % (U, fn, construct), ok10, msg, where=where, facts=facts)
            continue
        g = calls[hc[0]]
        args = [show(D.of(a)) for a in g[2]]
        rep.ob('R09.1', '%s:%s:guard-arguments' % (U, fn), args == ['tok.hideset', 'tok.loc', 'tok.len'],
               'the hide-set test is made with %r instead of (tok->hideset, tok->loc, tok->len): the wrong set or the wrong name is consulted' % (args,),
               where='%s:%d' % (U, g[3]), facts=facts)
        first_other = [i for i, nm in enumerate(names) if nm != 'hideset_contains']
        rep.ob('R09.1', '%s:%s:guard-first' % (U, fn), not first_other or first_other[0] > hc[0],
               'find_macro/expansion work (%s) precedes the hide-set test' % (names[first_other[0]] if first_other else ''), where=where, facts=facts)
        res = it.settle(g[4])
        if isinstance(res, int) and res != 0:
            rep.ob('R09.1', '%s:%s:hidden-name-not-expanded' % (U, fn), not expands and not touched and len(names) == 1,
                   'a token whose name is in its own hide set is still looked up/expanded (%s): self-referential macros do not terminate' % names[1:],
                   where='%s:%d' % (U, g[3]), facts=facts)
            continue
        if not (isinstance(res, int) and res == 0):
            rep.undecided('R09.1', '%s:%s:guard-result' % (U, fn), 'the result of the hide-set test is not branched on', where=where)
            continue
        if expands:
            rep.ob('R09.1', '%s:%s:expansion-only-when-not-hidden' % (U, fn), True, '', where=where)
        if not expands:
            rep.ob('R09.2', '%s:%s:no-splice-when-not-expanding' % (U, fn), isinstance(rest, int) and rest == 0,
                   'expand_macro answers "not a macro" but has already replaced the caller\'s token', where=where, facts=facts)
            if 'read_macro_args' in names:
                rep.ob('R09.4', '%s:%s:args-read-but-not-expanded' % (U, fn), False, 'the argument list is consumed on a path that does not expand', where=where, facts=facts)
            if out[0] == 'ret':
                ok10, construct, msg = _refusal_reason(it, u, ctx, calls, D)
                n_refuse[construct] = n_refuse.get(construct, 0) + 1
                rep.ob('R09.10', '%s:%s:%s' % (U, fn, construct), ok10, msg, where=where, facts=facts)
            continue
        # ---- expanding paths
        if '<handler>' in names:
            n_handler += 1
            continue        # R09.8 looks at this path
        d = D.of(rest)
        facts['result'] = show(d)
        funclike = 'read_macro_args' in names
        unknown = [c for c in calls_in(d) if c not in KNOWN_CALLS and (funclike or c not in list_passes(u, fn))]
        kind = 'funclike' if funclike else 'objlike'
        if funclike:
            n_fun += 1
        else:
            n_obj += 1
        # R09.4
        if funclike:
            eq = [e for e in calls[:names.index('read_macro_args')] if e[0] == 'call' and e[1] == 'equal']
            okp = False
            for e in eq:
                a = [show(D.of(x)) for x in e[2]]
                r = it.settle(e[4])
                if a == ['tok.next', '('] and isinstance(r, int) and r == 1:
                    okp = True
            rep.ob('R09.4', '%s:%s:paren-test-dominates-read_macro_args' % (U, fn), okp,
                   'read_macro_args is reached without equal(tok->next, "(") having been true: a function-like macro name used without an argument list would be expanded (or the token after it swallowed)',
                   where=where, facts=facts)
            rma = calls[names.index('read_macro_args')]
            a = [show(D.of(x)) for x in rma[2]]
            try:
                from ..build import require_signature
                require_signature(u, 'read_macro_args', ['Token **', 'Token *', 'MacroParam *', 'char *'], 'MacroArg *')
                sig_ok = True
            except AnalysisBroken as e_:
                sig_ok = False
                rep.undecided('R09.4', '%s:%s:read_macro_args-operands' % (U, fn), str(e_), where='%s:%d' % (U, rma[3]))
            if sig_ok:
                rep.ob('R09.4', '%s:%s:read_macro_args-operands' % (U, fn), a[1:] == ['tok', 'find_macro.params', 'find_macro.va_args_name'],
                       'read_macro_args is called with %r instead of (&tok, tok, m->params, m->va_args_name)' % (a,), where='%s:%d' % (U, rma[3]), facts=facts)
        m = None
        for e in calls:
            if e[0] == 'call' and e[1] == 'find_macro':
                m = it.settle(e[4])
        if isinstance(m, Obj):
            ol = it.settle(m.fields.get('is_objlike')) if 'is_objlike' in m.fields else None
            rep.ob('R09.4', '%s:%s:%s-path-kind' % (U, fn, kind), isinstance(ol, int) and ol == (0 if funclike else 1),
                   'the %s expansion path is taken without m->is_objlike being %s' % (kind, 'false' if funclike else 'true'), where=where, facts=facts)
        # R09.2
        if unknown:
            rep.undecided('R09.2', '%s:%s:%s-shape' % (U, fn, kind), 'the replacement is built with helper(s) %s the rule does not know: %s' % (sorted(set(unknown)), show(d)), where=where)
            continue
        if not (d[0] == 'call' and d[1] == 'append' and len(d[2]) == 2):
            rep.undecided('R09.2', '%s:%s:%s-shape' % (U, fn, kind), 'the spliced result is not append(replacement, continuation): %s' % show(d), where=where)
            continue
        B, N = d[2]
        want_next = 'rparen.next' if funclike else 'tok.next'
        rep.ob('R09.2', '%s:%s:%s-continuation' % (U, fn, kind), show(N) == want_next,
               'the replacement is followed by %s instead of the token after the invocation (%s): tokens are lost or re-read' % (show(N), want_next), where=where, facts=facts)
        if not (B[0] == 'call' and B[1] == 'add_hideset'):
            inner = 'add_hideset' in calls_in(B)
            rep.ob('R09.2', '%s:%s:%s-%s' % (U, fn, kind, 'hideset-applied-before-substitution' if inner else 'no-hideset'), False,
                   ('the hide set is attached to the replacement list before parameter substitution (%s): tokens that come from arguments or from ## keep their old hide set, so a macro name passed as its own argument or rebuilt by ## is expanded again (f(f)(1) wrong, CAT(fo,o) inside foo never terminates)' if inner else
                    'the replacement (%s) is spliced without add_hideset: the macro\'s own name is expanded again (non-termination on `#define f f`)') % show(B),
                   where=where, facts=facts)
            continue
        S, H = B[2]
        if funclike:
            ok_S = S[0] == 'call' and S[1] == 'subst' and len(S[2]) == 2 and show(S[2][0]) == 'find_macro.body' and S[2][1][0] == 'call' and S[2][1][1] == 'read_macro_args'
            want_S = 'subst(m->body, <arguments read by read_macro_args>)'
        else:
            ok_S = show(S) == 'find_macro.body'
            want_S = 'm->body'
            passes = []
            S0 = S
            while S0[0] == 'call' and S0[1] in list_passes(u, fn) and len(S0[2]) == 1:
                passes.append(S0[1])
                S0 = S0[2][0]
            if passes:
                ok_S = show(S0) == 'find_macro.body'
                want_S = 'a pass over m->body'
            objlike_passes.append((passes, '%s:%d' % (U, line)))
        rep.ob('R09.2', '%s:%s:%s-replacement-source' % (U, fn, kind), ok_S,
               'add_hideset is applied to %s instead of %s' % (show(S), want_S), where=where, facts=facts)
        leaves = sorted(_norm_leaf(x) for x in _flatten_union(H))
        if funclike:
            want = sorted(['hideset_intersection(rparen.hideset, tok.hideset)', 'new_hideset(find_macro.name)'])
        else:
            want = sorted(['tok.hideset', 'new_hideset(find_macro.name)'])
        construct = 'hideset-ok'
        if leaves != want:
            if 'new_hideset(find_macro.name)' not in leaves:
                construct = 'macro-name-not-hidden'
            elif funclike and 'hideset_intersection(rparen.hideset, tok.hideset)' not in leaves:
                construct = 'not-intersection-of-name-and-rparen'
            elif not funclike and 'tok.hideset' not in leaves:
                construct = 'invoking-hideset-dropped'
            else:
                construct = 'extra-names-hidden'
        rep.ob('R09.2', '%s:%s:%s-%s' % (U, fn, kind, construct), leaves == want,
               'the hide set given to the %s replacement is the union of %s; Prosser\'s algorithm requires %s (a missing name means re-expansion / non-termination, a surplus name suppresses legitimate expansions)' % (kind, leaves, want),
               where=where, facts=facts)
    _objlike_paste(P, u, rep, objlike_passes)
    _definition_untouched(P, u, rep, it, paths)
    _splice_flags(P, u, rep, it, paths)
    _only_first_token_stamped(P, u, rep, it, paths)
    if n_obj == 0:
        rep.undecided('R09.2', '%s:%s:no-objlike-path' % (U, fn), 'no path expands an object-like macro', where=where)
    if n_fun == 0:
        rep.undecided('R09.2', '%s:%s:no-funclike-path' % (U, fn), 'no path expands a function-like macro', where=where)
    if n_handler == 0:
        rep.undecided('R09.8', '%s:%s:no-handler-path' % (U, fn), 'no path applies a dynamic macro handler', where=where)
    for need in ('refusal-no-such-macro', 'refusal-funclike-name-without-paren'):
        if not n_refuse.get(need):
            rep.undecided('R09.10', '%s:%s:no-%s-path' % (U, fn, need), 'no path of expand_macro answers "not an invocation" for the reason "%s" (shape not recognised)' % need[8:], where=where)
    return it, paths


def _objlike_paste(P, u, rep, objlike_passes):
    """R09.14: ## in the replacement list of an object-like macro (C11 6.10.3.3 applies to both kinds of macro)"""
    from ..lib_c09y import explore_list_pass
    fn = 'expand_macro'
    rep.rule('R09.14', 'the ## operator is applied in the replacement list of object-like macros too: on every path that expands an object-like macro the body goes through a pass that, for every ## that is neither first nor last, calls paste(token before, token after) in place of the three tokens, copies every other token in order, and diagnoses only a ## at either end', floor=1)
    if not objlike_passes:
        return
    A = Agg(rep)
    eof = u.enums.get('TK_EOF')
    for passes, where in objlike_passes:
        if not passes:
            A.ob('R09.14', '%s:%s:objlike-paste-operator-applied' % (U, fn), False,
                 'the replacement list of an object-like macro is spliced (add_hideset(m->body, ..)) without any pass that handles ##: `#define CAT a ## b` expands to the three tokens `a ## b` instead of `ab` (C11 6.10.3.3p3: for both object-like and function-like macro invocations each ## in the replacement list is deleted and the preceding token is concatenated with the following one)', where)
            continue
        pasting = 0
        for g in passes:
            wg = '%s:%d' % (U, u.fn(g).line)
            it, paths, classes = explore_list_pass(P, u, g)
            for ctx, out in paths:
                body, _ = chain(it, ctx.body, limit=16)
                if out[0] == 'ret':
                    _pass_leaves_stored_list(it, ctx, A, g, wg, body)
                cl = [cls_of(b) for b in body]
                n = len(body)
                while n and 'kind' in body[n - 1].fields and it.settle(body[n - 1].fields['kind']) == eof:
                    n -= 1
                ended = n < len(body)
                facts = {'path': ctx.trail, 'replacement list': [sorted(c)[0] if c and len(c) == 1 else '?' for c in cl[:n]]}
                # walk the list the way the operator grammar reads it: the token after a ## is its right operand whatever it is
                want = []
                ops = []
                i = 0
                shape = 'ok'
                while i < n:
                    c = cl[i]
                    if c is None or ('##' in c and len(c) > 1):
                        shape = 'unasked'
                        break
                    if c == {'##'}:
                        ops.append(i)
                        if not want:
                            shape = 'first'
                            break
                        if i + 1 >= n:
                            shape = 'last' if ended else 'cut'
                            break
                        want[-1] = ('paste', want[-1], body[i + 1])
                        i += 2
                    else:
                        want.append(('copy', body[i]))
                        i += 1
                if shape == 'cut' or (shape == 'ok' and not ended):
                    continue        # loop bound reached before the end of the list
                if out[0] != 'ret':
                    if out[1] in ('error_tok', 'error_at', 'error'):
                        A.ob('R09.14', '%s:%s:diagnoses-only-paste-operator-at-either-end' % (U, g), shape in ('first', 'last'),
                             '%s rejects a replacement list whose ## operators all stand between two tokens' % g, wg, facts)
                    continue
                if shape == 'unasked':
                    A.ob('R09.14', '%s:%s:token-handled-without-asking-for-paste-operator' % (U, g), False,
                         '%s returns on a path where a token of the list that is not the right operand of a ## may or may not be ## (it never asked)' % g, wg, facts)
                    continue
                if shape in ('first', 'last'):
                    A.ob('R09.14', '%s:%s:paste-operator-at-either-end-diagnosed' % (U, g), False, '%s accepts a replacement list that begins or ends with ##' % g, wg, facts)
                    continue
                outl = []
                v = it.settle(out[1])
                ids = set(id(b) for b in body)
                while isinstance(v, Obj) and id(v) not in ids and len(outl) < 16:
                    outl.append(v)
                    v = it.settle(v.fields.get('next', 0))

                def matches(o, w):
                    if w[0] == 'copy':
                        return o.meta.get('copy_of') is w[1] and o.meta.get('made_by') is None
                    mb = o.meta.get('made_by')
                    if mb is None or mb[0] != 'paste' or len(mb[1]) != 2:
                        return False
                    return as_obj(it, mb[1][1]) is w[2] and mb[2] is o
                good = len(outl) == len(want) and all(matches(o, w) for o, w in zip(outl, want))
                if ops:
                    pasting += 1
                A.ob('R09.14', '%s:%s:%s' % (U, g, 'paste-operator-applied' if ops else 'other-tokens-copied-in-order'), good,
                     '%s turns the replacement list %s into %d token(s) that are not [every token copied in order, each `a ## b` replaced by the result of paste(a, b) written over the copy of a]' % (g, facts['replacement list'], len(outl)), wg, facts)
                if good:
                    _pass_keeps_has_space(it, ctx, A, g, wg, facts, outl, want)
        A.ob('R09.14', '%s:%s:objlike-paste-operator-applied' % (U, fn), pasting > 0,
             'none of the passes %s over the replacement list of an object-like macro calls paste() for a ##' % passes, where)
    A.flush()


def _pass_keeps_has_space(it, ctx, A, g, wg, facts, outl, want):
    """R09.18 on a pass over the replacement list of an object-like macro: every token of its result but the first (whose flag
    expand_macro replaces by the macro name's) carries has_space of the replacement-list token it stands for - a copy that of
    its source, a pasted token that of the leftmost operand"""
    for i, (o, w) in enumerate(zip(outl, want)):
        if i == 0:
            continue
        if w[0] == 'copy':
            verdict, v = _hs_store_verdict(it, ctx, o, w[1])
            case = 'copied'
        else:
            lm = w
            while lm[0] == 'paste':
                lm = lm[1]
            src = lm[1]
            v = o.fields.get(HS)
            sv = src.fields.get(HS)
            if sv is None:
                sv = it.read_field(src, HS)
            if v is None or v is sv or (isinstance(v, View) and isinstance(sv, View) and v.cell is sv.cell and v.tag == sv.tag):
                verdict = 'kept'
            elif isinstance(it.settle(v), int) or isinstance(v, View):
                verdict = 'changed'
            else:
                verdict = 'unknown'
            case = 'pasted'
        if verdict == 'unknown':
            A.rep.undecided('R09.18', '%s:%s:%s-token-has_space' % (U, g, case), 'has_space of a %s token is written with a value the rule cannot relate to the replacement list (%s)' % (case, _hs_text(v)), where=wg)
            continue
        A.ob('R09.18', '%s:%s:%s-token-has_space' % (U, g, case), verdict == 'kept',
             {'copied': '%s copies a token of the replacement list (not the first) but leaves %s in its has_space: `#define L a , b` / XSTR(L) must give "a , b"',
              'pasted': '%s leaves %s in has_space of the token made by ## instead of the white space of the left operand (the tokenizer gives the first token of a fresh buffer none): `#define L x a ## b` / XSTR(L) gives "xab" instead of "x ab"'}[case] % (g, _hs_text(v)), wg, facts)


def _kept(it, old, new):
    """a store of `new` over `old`: 'kept' | 'changed' | 'unknown'"""
    if old is not None and (new is old or (isinstance(new, View) and isinstance(old, View) and new.cell is old.cell and new.tag == old.tag)):
        return 'kept'
    c, oc = it.settle(new), it.settle(old) if old is not None else None
    if isinstance(c, int) and isinstance(oc, int):
        return 'kept' if bool(c) == bool(oc) else 'changed'
    if isinstance(c, int) or isinstance(new, View):
        return 'changed'
    return 'unknown'


def _only_first_token_stamped(P, u, rep, it, paths):
    """R09.18 on expand_macro: the one token whose has_space an expansion may replace is the token it hands back through *rest
    (R19.2 first-token / R09.15 say with what); the other tokens of the replacement, the tokens of the invocation and the
    tokens after it keep theirs"""
    fn = 'expand_macro'
    A = Agg(rep)
    where = '%s:%d' % (U, u.fn(fn).line)
    for ctx, out, rest in paths:
        if out[0] != 'ret' or isinstance(rest, int):
            continue
        names = [e[1] for e in ctx.events if e[0] == 'call']
        kind = 'builtin' if any(e[0] == 'icall' for e in ctx.events) else ('funclike' if 'read_macro_args' in names else 'objlike')
        R = as_obj(it, rest)
        skip = {id(R)}
        repl, foll = set(), set()
        for e in ctx.events:
            if e[0] == 'call' and e[1] == 'append' and len(e[2]) == 2:
                B, N = as_obj(it, e[2][0]), as_obj(it, e[2][1])
                if isinstance(B, Obj):
                    skip.add(id(B))     # append copies it and the copy is what *rest designates
                    repl |= set(id(x) for x in chain(it, B, limit=8)[0])
                if isinstance(N, Obj):
                    foll |= set(id(x) for x in chain(it, N, limit=8)[0])
        facts = {'path': ctx.trail}
        bad = False
        for e in ctx.events:
            if e[0] != 'fstore' or e[2] != HS or not isinstance(e[1], Obj) or e[1].tname != 'Token' or id(e[1]) in skip:
                continue
            role = 'replacement-token-after-the-first' if id(e[1]) in repl else ('token-after-the-invocation' if id(e[1]) in foll else 'other-token')
            verdict = _kept(it, e[3], e[4])
            if verdict == 'kept':
                continue
            bad = True
            if verdict == 'unknown':
                rep.undecided('R09.18', '%s:%s:%s-%s-has_space-written' % (U, fn, kind, role), 'has_space of %s is written with a value the rule cannot relate to its old value (%s)' % (strip_ids(e[1].label or 'a token'), _hs_text(e[4])), where=where)
                continue
            A.ob('R09.18', '%s:%s:%s-%s-has_space-written' % (U, fn, kind, role), False,
                 'expanding a%s macro stores %s into has_space of %s, which is not the first token of the replacement: the white space inside the replacement list (or after the invocation) is part of what a later # spells (`#define L a , b` / XSTR(L) must give "a , b"; XSTR(L;) "a , b;")' % (
                     {'builtin': ' dynamic', 'objlike': 'n object-like', 'funclike': ' function-like'}[kind], _hs_text(e[4]), strip_ids(e[1].label or 'a token')), where, facts)
        if not bad:
            A.ob('R09.18', '%s:%s:%s-only-the-first-token-is-stamped' % (U, fn, kind), True, '', where, facts)
        # whose white space the token handed back takes: the macro NAME's (an invocation extends to the closing parenthesis,
        # and every token of it but the name is a tempting wrong source)
        name = ctx.tok
        nf = {f: name.fields.get(f) if f in name.fields else None for f in ('at_bol', HS)}
        rs = [e for e in ctx.events if e[0] == 'fstore' and e[2] == HS and e[1] is R]
        from ..lib_c09x import replacement_certainly_empty
        if rs and isinstance(rs[-1][4], View) and not isinstance(it.settle(rs[-1][4]), int):
            v = rs[-1][4]
            own = isinstance(nf[HS], View) and v.cell is nf[HS].cell and v.tag == 'id'
            if own or v.cell.label.endswith(('.has_space', '.at_bol')):
                A.ob('R09.18', '%s:%s:%s-first-token-has_space-is-the-macro-name-s' % (U, fn, kind), own,
                     'the token that expand_macro hands back takes %s as its has_space instead of the flag of the macro name: the replacement is spelled by a later # with the white space that stood before another token of the invocation (`return ID(0);` -> "return0;", `(ID(a ))` -> "( a)")' % _hs_text(v), where, facts)
        if kind != 'builtin' and replacement_certainly_empty(it, u, ctx):
            # nothing replaces the invocation: the token after it is apart from what precedes iff the macro name was
            N = None
            for e in ctx.events:
                if e[0] == 'call' and e[1] == 'append' and len(e[2]) == 2:
                    N = as_obj(it, e[2][1])
            st = [e for e in ctx.events if e[0] == 'fstore' and e[2] == HS and (e[1] is R or e[1] is N)]
            if any(not isinstance(it.settle(e[4]), int) for e in st):
                continue        # R09.15 speaks about such a store
            sets = any(it.settle(e[4]) == 1 and _kept(it, e[3], e[4]) != 'kept' for e in st)
            apart = any(isinstance(x, Obj) and HS in x.fields and it.settle(x.fields[HS]) == 1 and isinstance(it.settle(x.fields[HS]), int) for x in (R, N))
            nv = {f: it.settle(v_) if v_ is not None else None for f, v_ in nf.items()}
            had = any(isinstance(x, int) and x == 1 for x in nv.values())
            had_not = all(isinstance(x, int) and x == 0 for x in nv.values())
            if sets:
                A.ob('R09.18', '%s:%s:%s-separator-after-empty-replacement-only-for-white-space-before-the-name' % (U, fn, kind), had,
                     'an invocation of a %s macro expands to nothing and the token after the invocation is given has_space on a path that has not established that the macro NAME was preceded by white space (at_bol / has_space of the name are %s): the decision is taken from another token (`+E( )b` with an empty E must stringize as "+b", `+ E()b` as "+ b")' % (kind, nv), where, facts)
            else:
                A.ob('R09.18', '%s:%s:%s-white-space-before-the-name-survives-an-empty-replacement' % (U, fn, kind), had_not or apart,
                     'an invocation of a %s macro expands to nothing and the token after the invocation keeps its own has_space on a path that has not established that the macro name had NO white space before it (at_bol / has_space of the name are %s): `+ E +` with an empty E is spelled "++" by a later #' % (kind, nv), where, facts)
    A.flush()


def _splice_flags(P, u, rep, it, paths):
    """R09.15: what expand_macro writes into the token list after the invocation when the replacement is empty"""
    fn = 'expand_macro'
    eof = u.enums.get('TK_EOF')
    rep.rule('R09.15', 'a macro that expands to nothing leaves the tokens after the invocation as they are: append(empty, next) IS next, so on a path where the finished replacement may be empty expand_macro does not write at_bol of what append returned (the `#` of a directive on the next line would lose its place at the beginning of the line and the directive would be taken for text; a `#` in the middle of a line would gain it) and writes has_space only to set it', floor=2)
    A = Agg(rep)
    where = '%s:%d' % (U, u.fn(fn).line)
    n = 0
    for ctx, out, rest in paths:
        if out[0] != 'ret' or any(e[0] == 'icall' for e in ctx.events):
            continue
        ap = [e for e in ctx.events if e[0] == 'call' and e[1] == 'append' and len(e[2]) == 2]
        if not ap:
            continue
        kind = 'funclike' if any(e[0] == 'call' and e[1] == 'read_macro_args' for e in ctx.events) else 'objlike'
        facts = {'path': ctx.trail}
        for e in ap:
            B = as_obj(it, e[2][0])
            R = as_obj(it, e[4])
            N = as_obj(it, e[2][1])
            if not isinstance(B, Obj) or not isinstance(R, Obj):
                rep.undecided('R09.15', '%s:%s:%s-splice-shape' % (U, fn, kind), 'the operands of append() are not followed', where=where)
                continue
            kv = B.fields.get('kind')
            ks = it.settle(kv) if kv is not None else None
            nonempty = (isinstance(ks, int) and ks != eof) or (isinstance(kv, View) and not isinstance(ks, int) and eof not in [kv.proj(c) for c in kv.cell.cands])
            if nonempty:
                continue
            n += 1
            st = [x for x in ctx.events if x[0] == 'fstore' and (x[1] is R or x[1] is N) and x[2] != 'next']
            bad = False
            for x in st:
                v = it.settle(x[4])
                if x[2] == 'has_space' and isinstance(v, int) and v == 1:
                    continue
                if _kept(it, x[3], x[4]) == 'kept':
                    continue        # writes back what the token had on this path
                bad = True
                inherits = isinstance(x[4], View) and x[4].cell.label.startswith('tok.')
                A.ob('R09.15', '%s:%s:%s-%s-of-token-after-empty-replacement-written' % (U, fn, kind, x[2]), False,
                     'on a path where the replacement may be empty (its first token is not known to differ from EOF) expand_macro stores %s into %s of the token append() returned - with an empty replacement that is the token AFTER the invocation, not a token of the replacement: `#define EMPTY` / `int a; EMPTY<newline>#define Y 2` clears at_bol of the `#`, so the directive is not recognised and Y stays undefined; `EMPTY # define R 3` makes a directive out of text; `+EMPTY() b` loses the blank before b' % (
                         'the flag of the macro token' if inherits else repr(x[4]), x[2]), where, facts)
            if not bad:
                A.ob('R09.15', '%s:%s:%s-token-after-empty-replacement-keeps-its-flags' % (U, fn, kind), True, '', where, facts)
    A.flush()
    if n == 0:
        rep.undecided('R09.15', '%s:%s:no-empty-replacement-path' % (U, fn), 'no expanding path on which the replacement may be empty was found', where=where)


# ------------------------------------------- the definition is not changed by its use ---
R0919 = ('a macro definition stays as #define stored it until the name is redefined or undefined (C11 6.10.3p9/p10: every later occurrence of the name is '
         'replaced by THE replacement list of the definition; 6.10.3.5p1: the definition lasts until #undef): expanding a macro reads the definition and never '
         'writes it - no path of expand_macro stores into the Macro that find_macro returned, into a token of its stored replacement list or into its '
         'parameter list; a pass over the replacement list of an object-like macro writes only the copies it makes; and no function that carries out a '
         'replacement (everything expand_macro reaches in preprocess.c) assigns through a Macro * / MacroParam *')


def _norm_type(t):
    import re
    t = re.sub(r'\b(struct|const|volatile|restrict)\b', '', t or '')
    return t.replace(' ', '')


DEF_RECORDS = ('Macro', 'MacroParam')
ASSIGN_OPS = ('=', '+=', '-=', '*=', '/=', '%=', '&=', '|=', '^=', '<<=', '>>=')


def _record_stores(fnode):
    """stores of one function that go through a pointer to (or an object of) a definition record:
    [(record, field or '<whole object>', line, 'store' | 'address')]"""
    out = []
    for n in fnode.walk():
        lhs = None
        how = 'store'
        if n.kind in ('BinaryOperator', 'CompoundAssignOperator') and n.opcode in ASSIGN_OPS and n.inner:
            lhs = n.inner[0]
        elif n.kind == 'UnaryOperator' and n.opcode in ('++', '--') and n.inner:
            lhs = n.inner[0]
        elif n.kind == 'UnaryOperator' and n.opcode == '&' and n.inner:
            lhs = n.inner[0]
            how = 'address'
        if lhs is None:
            continue
        x = lhs.strip()
        first = True
        while True:
            if x.kind == 'MemberExpr' and x.inner:
                b = x.inner[0]
                bt = _norm_type(b.dtype or b.type)
                for r in DEF_RECORDS:
                    # the member written is a member of the record itself (m->body = .., m->body->next is a token's member)
                    if bt in (r + '*', r) and first:
                        out.append((r, x.name, n.line, how))
                first = False if x.kind == 'MemberExpr' and (b.dtype or b.type or '').rstrip().endswith('*') else first
                x = b.strip()
                continue
            if x.kind == 'ArraySubscriptExpr' and x.inner:
                x = x.inner[0].strip()
                first = False
                continue
            if x.kind == 'UnaryOperator' and x.opcode == '*' and x.inner:
                bt = _norm_type(x.inner[0].dtype or x.inner[0].type)
                for r in DEF_RECORDS:
                    if bt == r + '*' and first and how == 'store':
                        out.append((r, '<whole object>', n.line, how))
                first = False
                x = x.inner[0].strip()
                continue
            break
    return out


def _replacement_machinery(u):
    """functions of the unit that expand_macro reaches through direct calls; the token-stream function preprocess2 (reached
    for the expansion of arguments) is looked at itself, but what it calls - the directive handlers - defines macros"""
    for f in ('expand_macro', 'preprocess2'):
        if f not in u.functions:
            raise AnalysisBroken('anchor %s vanished' % f)
    seen, todo = [], ['expand_macro']
    while todo:
        f = todo.pop()
        if f in seen or f not in u.functions:
            continue
        seen.append(f)
        if f == 'preprocess2':
            continue
        for c in u.fn(f).walk():
            g = c.callee() if c.kind == 'CallExpr' else None
            if g:
                todo.append(g)
    return seen


def _definition_fields(u, machinery):
    """{record: members that the defining functions (outside the replacement machinery) store when a macro is defined}"""
    out = {r: set() for r in DEF_RECORDS}
    for f in u.functions:
        if f in machinery:
            continue
        for r, fld, line, how in _record_stores(u.fn(f)):
            if how == 'store':
                out[r].add(fld)
    return out


def r_definition_static(P, u, rep):
    """R09.19, whole functions: no function of the replacement machinery assigns through a Macro * / MacroParam *"""
    rep.rule('R09.19', R0919, floor=12)
    mach = _replacement_machinery(u)
    deff = _definition_fields(u, mach)
    if not deff['Macro']:
        raise AnalysisBroken('no function outside the replacement machinery stores a member of a Macro: the defining functions are not recognised')
    for f in mach:
        where = '%s:%d' % (U, u.fn(f).line)
        bad = False
        for r, fld, line, how in _record_stores(u.fn(f)):
            bad = True
            w = '%s:%d' % (U, line)
            if how == 'address':
                rep.undecided('R09.19', '%s:%s:address-of-definition-member(%s.%s)' % (U, f, r, fld), '%s takes the address of the member %s of a %s: the rule cannot tell what is stored through it' % (f, fld, r), where=w)
            elif fld in deff[r] or fld == '<whole object>':
                rep.ob('R09.19', '%s:%s:definition-member-written(%s.%s)' % (U, f, r, fld), False,
                       '%s, which runs as part of every replacement, assigns the member %s of a %s - a member the defining functions (%s) set when the macro is defined: the stored definition is rewritten by a use of the macro, so the next occurrence of the name is replaced by something else than the replacement list of its #define (a stored replacement list that has been through one round of ## / parameter substitution is processed AGAIN by the next expansion: `#define hash_hash # ## #` gives the token ## once and is rejected the second time, C11 6.10.3.3p4 EXAMPLE)' % (
                           f, fld, r, ', '.join(sorted(g for g in u.functions if g not in mach and any(x[0] == r and x[3] == 'store' for x in _record_stores(u.fn(g)))))), where=w)
            else:
                rep.undecided('R09.19', '%s:%s:bookkeeping-member-written(%s.%s)' % (U, f, r, fld), '%s assigns the member %s of a %s, which is not a member the defining functions set: whether later replacements depend on it is not decided' % (f, fld, r), where=w)
        if not bad:
            rep.ob('R09.19', '%s:%s:assigns-no-member-of-a-definition' % (U, f), True, '', where=where)


def _definition_untouched(P, u, rep, it, paths):
    """R09.19, path by path in expand_macro: the objects reachable from the Macro that find_macro returned (as they were
    before the path stored anything) are never the target of a store"""
    fn = 'expand_macro'
    rep.rule('R09.19', R0919, floor=12)
    A = Agg(rep)
    where = '%s:%d' % (U, u.fn(fn).line)
    mach = _replacement_machinery(u)
    deff = _definition_fields(u, mach)
    n = 0
    for ctx, out, rest in paths:
        m = None
        for e in ctx.events:
            if e[0] == 'call' and e[1] == 'find_macro':
                m = it.settle(e[4])
        if not isinstance(m, Obj):
            continue
        names = [e[1] for e in ctx.events if e[0] == 'call']
        if out[0] != 'ret':
            kind = 'diagnosing'
        elif isinstance(it.settle(out[1]), int) and it.settle(out[1]) == 0:
            kind = 'refusing'
        else:
            kind = 'builtin' if any(e[0] == 'icall' for e in ctx.events) else ('funclike' if 'read_macro_args' in names else 'objlike')
        stores = [e for e in ctx.events if e[0] == 'fstore' and isinstance(e[1], Obj)]
        first_old = {}
        for e in stores:
            first_old.setdefault((id(e[1]), e[2]), e[3])
        reach = {id(m): (m, 'the Macro')}
        todo = [m]
        while todo:
            o = todo.pop()
            via = reach[id(o)][1]
            flds = dict(o.fields)
            for (oid, f), old in first_old.items():
                if oid == id(o):
                    flds[f] = old
            for f, v in flds.items():
                if v is None:
                    continue
                cands = [v.proj(c) for c in v.cell.cands] if isinstance(v, View) else [v]
                for x in cands:
                    if isinstance(x, Obj) and id(x) not in reach:
                        reach[id(x)] = (x, '%s->%s' % (via, f) if o is m else via)
                        todo.append(x)
        facts = {'path': ctx.trail}
        bad = False
        for e in stores:
            if id(e[1]) not in reach:
                continue
            if _kept(it, e[3], e[4]) == 'kept':
                continue
            o, via = reach[id(e[1])]
            bad = True
            if o is m:
                if e[2] not in deff['Macro']:
                    rep.undecided('R09.19', '%s:%s:%s-path-writes-bookkeeping-member(Macro.%s)' % (U, fn, kind, e[2]), 'a path of expand_macro stores into the member %s of the Macro, which is not a member the defining functions set' % e[2], where=where)
                    continue
                A.ob('R09.19', '%s:%s:%s-path-writes-the-definition(Macro.%s)' % (U, fn, kind, e[2]), False,
                     'a path of expand_macro (%s) stores %s into the member %s of the Macro that find_macro returned: the definition that #define stored is rewritten by a use of the macro, and every later occurrence of the name is replaced from the rewritten definition. A replacement list that has already been through the ## pass is run through it again by the next expansion - a token `##` that a paste PRODUCED (C11 6.10.3.3p4: `#define hash_hash # ## #`) is an ordinary token in the result but an operator when read again, so the second use of hash_hash is rejected; pasted spellings, hide sets and origins of one invocation leak into the next' % (
                         kind, strip_ids(repr(e[4])), e[2]), where, facts)
            else:
                A.ob('R09.19', '%s:%s:%s-path-writes-stored-%s(%s)' % (U, fn, kind, {'Token': 'replacement-list-token', 'MacroParam': 'parameter'}.get(o.tname, 'definition-data'), e[2]), False,
                     'a path of expand_macro (%s) stores %s into the member %s of an object of the stored definition itself (%s, reached through %s), not of a copy: the next occurrence of the macro name is replaced from the changed definition' % (
                         kind, strip_ids(repr(e[4])), e[2], strip_ids(o.label or o.tname), via), where, facts)
        if not bad:
            n += 1
            A.ob('R09.19', '%s:%s:%s-path-leaves-the-definition-as-stored' % (U, fn, kind), True, '', where, facts)
    A.flush()
    if n == 0:
        rep.undecided('R09.19', '%s:%s:no-path-with-a-macro' % (U, fn), 'no path of expand_macro on which find_macro returns a macro leaves the definition untouched (or none was found)', where=where)


def _pass_leaves_stored_list(it, ctx, A, g, wg, body):
    """R09.19 on a pass over the replacement list of an object-like macro: the list it is handed IS the stored definition"""
    ids = set(id(b) for b in body)
    facts = {'path': ctx.trail}
    bad = False
    for b in body:
        if b.meta.get('made_by') is not None or b.meta.get('created') or b.meta.get('copy_of') is not None:
            bad = True
            A.ob('R09.19', '%s:%s:stored-replacement-list-token-overwritten' % (U, g), False,
                 '%s overwrites a token of the list it is handed (`*tok = *paste(..)` / `*tok = *copy`) - that list is m->body, the replacement list #define stored: the definition is changed by the first expansion and the next one works on the result' % g, wg, facts)
    for e in ctx.events:
        if e[0] != 'fstore' or not isinstance(e[1], Obj) or id(e[1]) not in ids:
            continue
        if e[1].meta.get('made_by') is not None or e[1].meta.get('created') or e[1].meta.get('copy_of') is not None:
            continue
        if _kept(it, e[3], e[4]) == 'kept':
            continue
        bad = True
        A.ob('R09.19', '%s:%s:stored-replacement-list-token-written(%s)' % (U, g, e[2]), False,
             '%s stores into the member %s of a token of the list it is handed, not of a copy - that list is m->body, the replacement list #define stored: the definition is changed by the first expansion (tokens unlinked, flags or spellings of one use left behind) and the next occurrence of the name is replaced from the changed list' % (g, e[2]), wg, facts)
    if not bad:
        A.ob('R09.19', '%s:%s:writes-only-its-own-copies' % (U, g), True, '', wg, facts)


# ------------------------------------------- the replaced sequence as -E shows it ---
def r_observed_sequence(P, rep):
    """R09.20: 6.10.3 prescribes a SEQUENCE OF TOKENS; -E is where it is observed. Tokens that replacement brings next to each
    other (replacement | following text, argument | replacement-list token, and the two neighbours of an invocation that
    expands to nothing - which carry no trace of the macro at all) were not written next to each other in the source, so
    nothing but their spellings can tell whether they may be printed without white space between them."""
    from ..report import Report, reissue
    from . import c19
    rep.rule('R09.20', 'the token sequence that macro replacement yields is the token sequence -E shows: two tokens that meet without white space at the seam of a replacement (before, inside or after it; around an invocation that expands to nothing, whose neighbours are plain source tokens) are written apart by print_tokens whenever their spellings put together would be read back as other tokens - for every pair of spellings, on every path, whatever the other members (origin, hide set, position) of the two tokens hold, and the question is asked about the token written immediately before (R19.4/R19.5 and the spelling obligation of R19.1 of C19 re-issued)', floor=100)
    sub = Report('C19', rep.tier, rep.seed)
    for f in (lambda: c19.r_separation(P, sub), lambda: c19.r_printer(P, sub)):
        try:
            f()
        except AnalysisBroken as e:
            rep.undecided('R09.20', 'main.c:print_tokens:analysis', 'analysis could not proceed: %s' % e)

    def keep(o):
        k = o['key']
        return k.startswith(('R19.4:', 'R19.5:')) or k.startswith('R19.1:main.c:print_tokens:spelling-of-token')
    why = 'the preprocessed token sequence is not the one C11 6.10.3 prescribes for the source (`a +NONE()++b` with an empty NONE is the tokens a + ++ b; `-N` with `#define N -1` is - -1): '
    reissue(rep, 'R09.20', sub, why, keep=keep)



# ------------------------------------------- white space of the tokens replacement produces ---
def r_result_white_space(P, u, rep):
    """R09.18: # spells its operand with one space wherever a token of the operand has has_space (6.10.3.2p2, decided on
    join_tokens by R09.9). The operand of an inner # is, in a two-level stringification, the RESULT of macro replacement: the
    flag of every token that expand_macro/subst create, copy or splice is part of what 6.10.3.2 lets a program observe."""
    from ..report import Report, reissue
    from . import c19
    rep.rule('R09.18', 'white space as # sees it (C11 6.10.3.2p2: each occurrence of white space between the tokens of the operand becomes one space; the operand may itself be the result of replacement, `#define XSTR(x) STR(x)`): every token that macro replacement produces carries in has_space the white space of the token it stands for - the first token of an expansion that of the macro NAME (not of the closing parenthesis or any other token of the invocation), the first token of a substituted argument / the stringized / the pasted token that of the parameter, # or left operand in the replacement list, the first token of a __VA_OPT__ group that of the __VA_OPT__ token; every other token is copied with the flag it was read with, in the argument lists read_macro_arg_one collects as well as in replacement lists, by append() and on the way through preprocess2; an invocation that expands to nothing separates the token after it from what precedes exactly when the macro name was preceded by white space', floor=40)
    sub = Report('C19', rep.tier, rep.seed)
    why = 'the text produced by # for an operand that contains this token differs from the white space the program wrote: '
    for f in (lambda: c19.r_copy(P, sub), lambda: c19.r_expand(P, sub, True), lambda: c19.r_subst(P, sub, True), lambda: c19.r_subst_repeat(P, sub)):
        try:
            f()
        except AnalysisBroken as e:
            rep.undecided('R09.18', '%s:white-space-of-results:analysis' % U, 'analysis could not proceed: %s' % e)

    def keep(o):
        k = o['key']
        return k.startswith('R19.2:%s:' % U) and not k.endswith('at_bol')
    reissue(rep, 'R09.18', sub, why, keep=keep)
    _copies_keep_has_space(P, u, rep)
    _stream_keeps_has_space(P, u, rep)


HS = 'has_space'


def _stream_keeps_has_space(P, u, rep):
    """R09.18 on preprocess2: a token that is neither a macro invocation nor part of a directive is passed on with the
    white space it came with (arguments are expanded by preprocess2 before they are substituted, so every token of a
    two-level stringification has been through this path)"""
    from ..lib_c09y import stream_paths
    fn = 'preprocess2'
    it, paths = stream_paths(P, u, fn)
    A = Agg(rep)
    where = '%s:%d' % (U, u.fn(fn).line)
    for ctx, out in paths:
        facts = {'path': ctx.trail}
        bad = False
        for e in ctx.events:
            if e[0] != 'fstore' or e[2] != HS or not isinstance(e[1], Obj) or not e[1].meta.get('input'):
                continue
            verdict = _kept(it, e[3], e[4])
            if verdict == 'kept':
                continue
            bad = True
            if verdict == 'unknown':
                rep.undecided('R09.18', '%s:%s:passed-token-has_space-kept' % (U, fn), 'has_space of a token that is passed through is written with a value the rule cannot relate to its old value (%s)' % _hs_text(e[4]), where=where)
                continue
            A.ob('R09.18', '%s:%s:passed-token-has_space-kept' % (U, fn), False,
                 '%s stores %s into has_space of a token that is neither expanded nor part of a directive: the white space of ordinary text changes on its way through the preprocessor, and # applied to an argument that has been expanded (XSTR(a + b) -> STR(a + b)) spells it differently' % (fn, _hs_text(e[4])), where, facts)
        if not bad:
            A.ob('R09.18', '%s:%s:passed-token-has_space-kept' % (U, fn), True, '', where, facts)
    A.flush()


def _hs_store_verdict(it, ctx, tok, src):
    """what the stores of one path leave in has_space of `tok`, a copy_token() copy of `src`:
    'kept' (never written, or written with the source's own flag) | 'changed' (a constant or another token's flag) | 'unknown'"""
    st = [e for e in ctx.events if e[0] == 'fstore' and e[1] is tok and e[2] == HS]
    if not st:
        return 'kept', None
    v = st[-1][4]
    sv = src.fields.get(HS)
    if sv is None:
        sv = it.read_field(src, HS)
    if v is sv or (isinstance(v, View) and isinstance(sv, View) and v.cell is sv.cell and v.tag == sv.tag):
        return 'kept', v
    c, sc = it.settle(v), it.settle(sv)
    if isinstance(c, int) and isinstance(sc, int):
        return ('kept' if bool(c) == bool(sc) else 'changed'), v
    if isinstance(c, int) or isinstance(v, View):
        return 'changed', v         # the source flag is not known on this path: some input has the other value
    return 'unknown', v


def _hs_text(v):
    if isinstance(v, View):
        return 'the flag ' + strip_ids(v.cell.label) + ('' if v.tag == 'id' else ' (%s)' % v.tag)
    return 'the constant %r' % (v,) if isinstance(v, int) else strip_ids(repr(v))


def _copies_keep_has_space(P, u, rep):
    """R09.18 on subst: the tokens that are copied into the result (or into the private list handed to preprocess2) and are NOT
    the first token standing for a construct of the replacement list keep the flag they were read with; the first token of a
    __VA_OPT__ group takes the flag of the __VA_OPT__ token."""
    fn = 'subst'
    it, paths, classes = explore_subst(P, u)
    A = Agg(rep)
    w0 = '%s:%d' % (U, u.fn(fn).line)
    eof = u.enums.get('TK_EOF')
    seen = {'argument-rest': 0, 'list-handed-to-preprocess2': 0, 'expanded-rest': 0, 'body-token': 0, 'va-opt-group': 0}
    for ctx, out in paths:
        if out[0] != 'ret':
            continue
        sp = SubstPath(it, ctx)
        facts = {'path': ctx.trail}
        handed = {}
        for e in sp.calls:
            if e[1] == 'preprocess2':
                for k_, t_ in enumerate(chain(it, as_obj(it, e[2][0]), limit=8)[0]):
                    handed[id(t_)] = (k_, e)
        pasted_into = set(id(as_obj(it, e[2][0])) for e in sp.calls if e[1] == 'paste' and e[2])
        for e in sp.calls:
            if e[1] != 'copy_token':
                continue
            src, c = e[2][0], e[4]
            if not isinstance(src, Obj) or not isinstance(c, Obj) or c.meta.get('copy_of') is not src:
                continue        # overwritten by a struct assignment (`*cur = *paste(..)`): R19.2 pasted-token-has_space
            where = '%s:%d' % (U, e[3])
            k = it.settle(c.fields.get('kind')) if 'kind' in c.fields else None
            if isinstance(k, int) and k == eof:
                continue
            if id(c) in handed:
                # the private copy of an argument that preprocess2 expands: it reads white space as the invocation had it
                case, idx = 'list-handed-to-preprocess2', handed[id(c)][0]
                if idx == 0:
                    continue    # whatever expansion makes of it, the first token of the result is stamped with the parameter's flags
                what = 'token %d of the copy of an argument that is handed to preprocess2()' % idx
                demo = '`#define ID(x) x` / XSTR(ID(a+b)) must give "a+b", XSTR(ID(a + b)) "a + b"'
            elif id(src) in sp.raw:
                t, idx = sp.raw[id(src)]
                if idx == 0:
                    continue    # the first token of an operand of ##: R19.2 paste-lhs-argument-first-token / paste-empty-lhs-result
                case = 'argument-rest'
                what = 'token %d of an argument that is copied unexpanded (operand of ##)' % idx
                demo = '`#define C(a,b) a##b` / XSTR(C(x, y + z)) must give "xy + z"'
            elif id(src) in sp.exp:
                own, idx, pe = sp.exp[id(src)]
                if idx == 0:
                    continue    # R19.2 argument-first-token-has_space
                case = 'expanded-rest'
                what = 'token %d of a macro-expanded argument' % idx
                demo = 'XSTR(ID(a + b)) must give "a + b"'
            elif id(src) in sp.body_ids:
                pr = sp.pred_of(src)
                pp = sp.pred_of(pr) if pr is not None else None
                if pr is not None and '##' in (sp.cls(pr) or {'##'}):
                    continue    # right of a ##: stands where the (empty) left operand stood: R19.2 paste-empty-lhs-result
                if id(c) in pasted_into:
                    continue
                case = 'body-token'
                what = 'an ordinary token of the replacement list'
                demo = '`#define P(x) x , y` / XSTR(P(1)) must give "1 , y"'
            else:
                continue
            seen[case] += 1
            verdict, v = _hs_store_verdict(it, ctx, c, src)
            if verdict == 'unknown':
                rep.undecided('R09.18', '%s:%s:%s-has_space-kept' % (U, fn, case), 'has_space of %s is written with a value the rule cannot relate to the flag of the token it copies (%s)' % (what, _hs_text(v)), where=where)
                continue
            A.ob('R09.18', '%s:%s:%s-has_space-kept' % (U, fn, case), verdict == 'kept',
                 '%s does not stand first for a parameter, # or ## of the replacement list, yet subst (or the list copier it calls) overwrites its has_space with %s: # spells the white space inside the operand differently from what the program wrote (%s)' % (what, _hs_text(v), demo), where, facts)
        # __VA_OPT__ ( group ): the first token of the substituted group stands where the __VA_OPT__ token stood
        for e in sp.calls:
            if e[1] != 'subst':
                continue
            R = as_obj(it, e[4])
            content = as_obj(it, e[2][0]) if e[2] else None
            opt = None
            for x in sp.calls:
                if x[1] == 'read_macro_arg_one' and isinstance(x[4], Obj) and 'tok' in x[4].fields and as_obj(it, x[4].fields['tok']) is content and len(x[2]) > 1:
                    start = as_obj(it, x[2][1])
                    for b in sp.body:
                        n1 = sp.next_of(b)
                        if n1 is not None and sp.next_of(n1) is start and sp.cls(b) == {'__VA_OPT__'}:
                            opt = b
            if not isinstance(R, Obj) or opt is None:
                continue
            kv = R.fields.get('kind')
            ks = it.settle(kv) if kv is not None else None
            nonempty = (isinstance(ks, int) and ks != eof) or (isinstance(kv, View) and not isinstance(ks, int) and eof not in [kv.proj(c_) for c_ in kv.cell.cands])
            linked = any(x[0] == 'fstore' and x[2] == 'next' and it.settle(x[4]) is R for x in ctx.events)
            if not (nonempty and linked):
                continue
            seen['va-opt-group'] += 1
            v = R.fields.get(HS)
            ov = opt.fields.get(HS)
            ok = isinstance(v, View) and isinstance(ov, View) and v.cell is ov.cell and v.tag == 'id' and ov.tag == 'id'
            A.ob('R09.18', '%s:%s:va-opt-first-token-has_space' % (U, fn), ok,
                 'the first token that __VA_OPT__( ... ) contributes is linked into the result with the has_space it has inside the parentheses (%s) instead of the white space of the __VA_OPT__ token whose place it takes: `#define F(a,...) a __VA_OPT__(x) b` / XSTR(F(1,2)) gives "1x b" (must be "1 x b"), `a+__VA_OPT__( x)` gives "1+ x" (must be "1+x")' % (
                     'never written' if v is None else _hs_text(v)), '%s:%d' % (U, e[3]), facts)
    A.flush()
    for k_, n_ in seen.items():
        if n_ == 0:
            rep.undecided('R09.18', '%s:%s:no-%s-case' % (U, fn, k_), 'no explored path of subst shows the "%s" case' % k_, where=w0)


def _refusal_reason(it, u, ctx, calls, D):
    """why a path of expand_macro whose hide-set test was negative answers false: (legitimate?, construct, message)"""
    ident = u.enums.get('TK_IDENT')
    kv = ctx.tok.fields.get('kind')
    if isinstance(kv, View) and ident not in kv.cell.cands:
        return True, 'refusal-not-an-identifier', ''
    if isinstance(kv, int) and kv != ident:
        return True, 'refusal-not-an-identifier', ''
    fm = [e for e in calls if e[0] == 'call' and e[1] == 'find_macro']
    m = it.settle(fm[-1][4]) if fm else None
    if fm and isinstance(m, int) and m == 0:
        ok = [show(D.of(a)) for a in fm[-1][2]] == ['tok']
        return ok, 'refusal-no-such-macro', 'the macro is looked up with find_macro(%s) instead of find_macro(tok)' % ', '.join(show(D.of(a)) for a in fm[-1][2])
    tail = 'C11 6.10.3p10: the name of a function-like macro followed by "(" as the next preprocessing token is an invocation, and new-line is ordinary white space inside it; an object-like or dynamic macro name is always replaced. The decisions of this path: %s' % (ctx.trail,)
    if not isinstance(m, Obj):
        return False, 'refused-before-lookup', 'a token is answered "not a macro" although its name is not hidden and find_macro was not asked (or its answer not looked at): a defined macro stays unexpanded. ' + tail
    h = m.fields.get('handler')
    if h is not None and 0 in ctx.neq.get(('sym', getattr(h, 'name', None)), ()):
        return False, 'dynamic-macro-refused', 'a dynamic macro (m->handler set) is not expanded. ' + tail
    ol = it.settle(m.fields['is_objlike']) if 'is_objlike' in m.fields else None
    if not (isinstance(ol, int) and ol == 0):
        return False, 'objlike-macro-refused' if ol == 1 else 'refused-without-looking-at-macro-kind', 'a defined macro that is %s is not expanded. ' % ('object-like' if ol == 1 else 'not known to be function-like') + tail
    eqs = [(e, it.settle(e[4])) for e in calls if e[0] == 'call' and e[1] == 'equal' and [show(D.of(x)) for x in e[2]] == ['tok.next', '(']]
    if any(isinstance(r, int) and r == 0 for e, r in eqs):
        return True, 'refusal-funclike-name-without-paren', ''
    if any(isinstance(r, int) and r != 0 for e, r in eqs):
        return False, 'funclike-refused-although-paren-follows', 'a function-like macro name whose next token IS "(" is treated as an ordinary identifier because of a further condition: the invocation silently becomes a call of a same-named function (or a syntax error). ' + tail
    return False, 'funclike-refused-without-paren-test', 'a function-like macro name is treated as an ordinary identifier on a path that never found the next token to differ from "(". ' + tail


def r_lookup(P, u, rep):
    """find_macro: NULL without asking the table only for a token that is not an identifier; otherwise the table's answer for the token's spelling"""
    fn = 'find_macro'
    if fn not in u.functions:
        raise AnalysisBroken('anchor %s vanished' % fn)
    ident = u.enums.get('TK_IDENT')
    callees = set(c.callee() for c in u.fn(fn).walk() if c.kind == 'CallExpr' and c.callee())
    look = sorted(c for c in callees if c.startswith('hashmap_get'))
    if not look or ident is None:
        raise AnalysisBroken('find_macro no longer consults the macro table through hashmap_get*')
    it = PInterp(P, u, {'opaque': look, 'track_stores': True})

    def mk(ctx):
        ctx.tok = Obj('Token', lazy=True, label='tok')
        return [ctx.tok]
    where = '%s:%d' % (U, u.fn(fn).line)
    A = Agg(rep)
    n_tab = 0
    for ctx, out in it.explore(fn, mk, max_paths=2000):
        if out[0] != 'ret':
            A.ob('R09.10', '%s:%s:lookup-aborts' % (U, fn), False, 'find_macro does not return on a path (%s): decisions %s' % (out[1], ctx.trail), where, {'path': ctx.trail})
            continue
        D = Desc(it, ctx)
        d = D.of(out[1])
        facts = {'path': ctx.trail, 'returns': show(d)}
        kv = ctx.tok.fields.get('kind')
        may_ident = not (isinstance(kv, View) and ident not in kv.cell.cands)
        if d[0] == 'call' and d[1] in look:
            n_tab += 1
            a = [show(x) for x in d[2]]
            A.ob('R09.10', '%s:%s:table-asked-for-token-spelling' % (U, fn), a[-2:] == ['tok.loc', 'tok.len'] and a[0] == 'g:macros',
                 'the macro table is asked with (%s) instead of (&macros, tok->loc, tok->len)' % ', '.join(a), where, facts)
            continue
        if not may_ident:
            A.ob('R09.10', '%s:%s:non-identifier-is-no-macro' % (U, fn), isinstance(it.settle(out[1]), int) and it.settle(out[1]) == 0,
                 'find_macro returns %s for a token that is not an identifier' % show(d), where, facts)
            continue
        A.ob('R09.10', '%s:%s:identifier-answered-without-table' % (U, fn), False,
             'find_macro answers %s for a token that may be an identifier without the answer of the macro table: a defined macro is not found (decisions: %s) - white space, line position or any other property of the token must not decide whether a name is a macro' % (show(d), ctx.trail), where, facts)
    A.flush()
    if n_tab == 0:
        rep.undecided('R09.10', '%s:%s:no-table-path' % (U, fn), 'no path of find_macro returns the macro table\'s answer', where=where)


def _explore_caught(it, u, fname, mk, max_paths):
    """Interp.explore, but a construct the interpreter cannot follow ends that one path as ('unsupported', text)"""
    from ..interp import NeedChoice, Infeasible, Ctx, Unsupported
    fn = u.functions.get(fname)
    out = []
    stack = [[]]
    while stack:
        dec = stack.pop()
        ctx = Ctx(dec)
        it.ctx = ctx
        try:
            v = it.call_fn(u, fn, mk(ctx))
            out.append((ctx, ('ret', v)))
        except NeedChoice as e:
            for a in range(e.n - 1, -1, -1):
                stack.append(dec + [a])
        except Infeasible:
            pass
        except NoReturn as e:
            out.append((ctx, ('noreturn', e.fn, e.args_, e.line)))
        except (Unsupported, AnalysisBroken) as e:
            out.append((ctx, ('unsupported', str(e))))
        if len(out) + len(stack) > max_paths:
            raise AnalysisBroken('path explosion in %s (> %d)' % (fname, max_paths))
    return out


def r_offer(P, u, rep):
    """preprocess2: the first thing done with every token of the stream is expand_macro(&tok, tok)"""
    fn = 'preprocess2'
    if fn not in u.functions or 'expand_macro' not in u.functions:
        raise AnalysisBroken('anchor %s vanished' % fn)
    ecalls = u.fn(fn).calls('expand_macro')
    loop = None
    if ecalls:
        loop = next((a for a in ecalls[0].ancestors() if a.kind in ('WhileStmt', 'ForStmt', 'DoStmt')), None)
    if loop is None:
        rep.undecided('R09.10', '%s:%s:offer-shape' % (U, fn), 'preprocess2 no longer calls expand_macro from inside its token loop', where='%s:%d' % (U, u.fn(fn).line))
        return
    loop_body = loop.inner[0] if loop.kind == 'DoStmt' else loop.inner[-1]
    import re
    callees = set(c.callee() for c in u.fn(fn).walk() if c.kind == 'CallExpr' and c.callee())
    inline = set(x for x in ('is_hash',) if x in u.functions)
    lits = literals_compared(u.fn(fn))
    for h in inline:
        callees |= set(c.callee() for c in u.fn(h).walk() if c.kind == 'CallExpr' and c.callee())
        lits += [x for x in literals_compared(u.fn(h)) if x not in lits]
    classes = lits + [OTHER]
    eof, ident = u.enums.get('TK_EOF'), u.enums.get('TK_IDENT')

    def cut(it_, ctx, n, args):
        first = len(args) == 2 and isinstance(args[0], _Ref) and it_.settle(args[1]) is ctx.tok
        raise NoReturn('<expand_macro:%s>' % ('first' if first else 'other'), args, n.line)

    def foreign(name):
        def h(it_, ctx, n, args):
            raise NoReturn('<foreign:%s>' % name, args, n.line)
        return h
    cuts = {c: foreign(c) for c in callees - inline - {'equal', 'expand_macro', 'error', 'error_tok', 'error_at'}}
    cuts['expand_macro'] = cut

    class LI(PInterp):
        def exec(self, s_, env):
            if s_ is loop_body:
                self.ctx.iterations = getattr(self.ctx, 'iterations', 0) + 1
                if self.ctx.iterations > 1:
                    raise NoReturn('<next-token>', [], s_.line)     # one whole iteration done without the offer
            return super().exec(s_, env)
    it = LI(P, u, {'cut': cuts, 'models': {'equal': make_equal_model(classes, False)}, 'loop_limit': 2, 'track_stores': True})

    def mk(ctx):
        ctx.tok = Obj('Token', lazy=True, label='tok')
        return [ctx.tok]
    where = '%s:%d' % (U, u.fn(fn).line)
    A = Agg(rep)
    n_ok = 0
    for ctx, out in _explore_caught(it, u, fn, mk, 4000):
        kv = ctx.tok.fields.get('kind')
        if isinstance(kv, View) and list(kv.cell.cands) == [eof]:
            continue        # empty stream
        facts = {'path': ctx.trail}
        if out[0] == 'noreturn' and out[1] == '<expand_macro:first>':
            n_ok += 1
            A.ob('R09.10', '%s:%s:every-token-offered-to-expand_macro' % (U, fn), True, '', where, facts)
            continue
        cl = cls_of(ctx.tok)
        if (isinstance(kv, View) and ident not in kv.cell.cands) or (cl is not None and not any(c == OTHER or re.match(r'^[A-Za-z_]\w*$', c) for c in cl)):
            continue        # established not to be an identifier: cannot name a macro
        if out[0] == 'unsupported' or (out[0] == 'noreturn' and str(out[1]).startswith('<foreign:')):
            rep.undecided('R09.10', '%s:%s:offer-not-followed' % (U, fn), 'preprocess2 hands its first token (which may be an identifier) to %s before offering it to expand_macro; the rule cannot follow that' % (out[1],), where=where)
            continue
        how = {'ret': 'returns'}.get(out[0], 'goes on to the next token' if out[1] == '<next-token>' else 'goes on to %s' % (out[1],))
        A.ob('R09.10', '%s:%s:token-not-offered-to-expand_macro' % (U, fn), False,
             'preprocess2 %s without having called expand_macro(&tok, tok) on the first token of a non-empty stream although that token may be an identifier (decisions: %s): a macro name at that position is passed through unexpanded' % (how, ctx.trail), where, facts)
    A.flush()
    if n_ok == 0:
        rep.undecided('R09.10', '%s:%s:no-offer-path' % (U, fn), 'no path of preprocess2 reaches expand_macro with its first token', where=where)


def r_directive_source(P, u, rep, eit, epaths):
    """R09.16: C11 6.10.3.4p3 - the completely macro-replaced token sequence is not processed as a directive even if it
    resembles one. The first token of a replacement inherits at_bol of the macro name, so the directive test of preprocess2
    has to look at something expand_macro leaves on every token of a replacement."""
    fn = 'preprocess2'
    if fn not in u.functions or 'expand_macro' not in u.functions:
        raise AnalysisBroken('anchor %s vanished' % fn)
    rep.rule('R09.16', 'the result of macro replacement is never processed as a preprocessing directive: every path of preprocess2 that takes a token as the # of a directive (does not pass it on) has established that a member which expand_macro sets on every token of a replacement (origin) is null for it', floor=1)
    # members expand_macro sets (to a token) on the tokens of the finished replacement
    marks = None
    for ctx, out, rest in epaths:
        if out[0] != 'ret' or eit.settle(out[1]) != 1 or any(e[0] == 'icall' for e in ctx.events):
            continue
        ah = [as_obj(eit, e[4]) for e in ctx.events if e[0] == 'call' and e[1] == 'add_hideset']
        if not ah or not isinstance(ah[-1], Obj):
            continue
        B = ah[-1]
        kv = B.fields.get('kind')
        if kv is None or isinstance(eit.settle(kv), int):
            continue        # empty replacement (or never looked at)
        here = set(e[2] for e in ctx.events if e[0] == 'fstore' and e[1] is B and e[2] not in ('next', 'at_bol', 'has_space') and isinstance(as_obj(eit, e[4]), Obj))
        marks = here if marks is None else (marks & here)
    marks = sorted(marks or [])
    ecalls = u.fn(fn).calls('expand_macro')
    loop = next((a for a in ecalls[0].ancestors() if a.kind in ('WhileStmt', 'ForStmt', 'DoStmt')), None) if ecalls else None
    if loop is None:
        rep.undecided('R09.16', '%s:%s:shape' % (U, fn), 'preprocess2 no longer calls expand_macro from inside its token loop', where='%s:%d' % (U, u.fn(fn).line))
        return
    loop_body = loop.inner[0] if loop.kind == 'DoStmt' else loop.inner[-1]
    callees = set(c.callee() for c in u.fn(fn).walk() if c.kind == 'CallExpr' and c.callee())
    inline = set(x for x in ('is_hash',) if x in u.functions)
    lits = literals_compared(u.fn(fn))
    for h in inline:
        callees |= set(c.callee() for c in u.fn(h).walk() if c.kind == 'CallExpr' and c.callee())
        lits += [x for x in literals_compared(u.fn(h)) if x not in lits]
    if '#' not in lits:
        rep.undecided('R09.16', '%s:%s:shape' % (U, fn), 'preprocess2 (with is_hash) no longer compares a token with "#"', where='%s:%d' % (U, u.fn(fn).line))
        return
    classes = lits + [OTHER]
    eof = u.enums.get('TK_EOF')

    def no_macro(it_, ctx, n, args):
        ctx.emit('call', 'expand_macro', args, n.line, 0)
        return 0

    def foreign(name):
        def h(it_, ctx, n, args):
            raise NoReturn('<foreign:%s>' % name, args, n.line)
        return h
    cuts = {c: foreign(c) for c in callees - inline - {'equal', 'expand_macro', 'error', 'error_tok', 'error_at'}}
    cuts['expand_macro'] = no_macro

    class LI(PInterp):
        def exec(self, s_, env):
            if s_ is loop_body:
                self.ctx.iterations = getattr(self.ctx, 'iterations', 0) + 1
                if self.ctx.iterations > 1:
                    raise NoReturn('<next-token>', [], s_.line)
            return super().exec(s_, env)
    it = LI(P, u, {'cut': cuts, 'models': {'equal': make_equal_model(classes, False)}, 'loop_limit': 2, 'track_stores': True})

    def mk(ctx):
        ctx.tok = Obj('Token', lazy=True, label='tok')
        return [ctx.tok]
    where = '%s:%d' % (U, u.fn(fn).line)
    A = Agg(rep)
    n_dir = 0
    for ctx, out in _explore_caught(it, u, fn, mk, 4000):
        t = ctx.tok
        kv = t.fields.get('kind')
        if isinstance(kv, View) and list(kv.cell.cands) == [eof]:
            continue
        if out[0] == 'unsupported':
            continue
        passed = any(e[0] == 'fstore' and e[2] == 'next' and it.settle(e[4]) is t for e in ctx.events)
        if passed:
            continue
        cl = cls_of(t)
        if cl != {'#'}:
            continue        # which tokens other than # are not passed on is not a clause of this property
        n_dir += 1
        facts = {'path': ctx.trail}
        null_marks = [f for f in marks if f in t.fields and isinstance(it.settle(t.fields[f]), int) and it.settle(t.fields[f]) == 0]
        A.ob('R09.16', '%s:%s:directive-only-on-a-token-that-is-not-the-result-of-replacement' % (U, fn), bool(null_marks),
             'preprocess2 takes a # token as the start of a directive (decisions: %s) without having established that it is not the product of macro replacement (expand_macro marks every replacement token by setting %s; the path never finds that member null): the first token of a replacement inherits at_bol of the macro name, so `#define HASH #` / `HASH define Q 5` at the beginning of a line DEFINES Q, where C11 6.10.3.4p3 says the replaced sequence is not processed as a directive even if it resembles one (gcc leaves `# define Q 5` as text)' % (
                 ctx.trail, '/'.join(marks) if marks else 'no member at all'), where, facts)
    A.flush()
    if n_dir == 0:
        rep.undecided('R09.16', '%s:%s:no-directive-path' % (U, fn), 'no path of preprocess2 takes a # token out of the stream', where=where)


def r_subst(P, u, rep):
    fn = 'subst'
    it, paths, classes = explore_subst(P, u)
    line = u.fn(fn).line
    rep.rule('R09.13', 'placemarkers (C11 6.10.3.3p2-3): an operand of ## that is an empty argument behaves as a placemarker - subst diagnoses a replacement list only for what the list itself shows (# not followed by a parameter, ## first, ## last), never because an operand happened to be empty in this invocation; paste() is called with the token that stands for the operand left of the operator (looking through empty operands: `x ## y ## z` with y empty pastes x and z), and not at all when everything left of the operator back to the previous non-operand is empty', floor=4)
    rep.rule('R09.21', R0921, floor=8)
    rep.rule('R09.3', 'in subst the operands of # and ## are taken unexpanded (stringize/paste/copy of arg->tok), and exactly the parameters that are not operands of # or ## are replaced by preprocess2(arg->tok)', floor=10)
    for need in ('#', '##'):
        if need not in classes:
            raise AnalysisBroken('subst no longer compares tokens against %r' % need)
    A = Agg(rep)
    seen = {'stringize': 0, 'paste-arg': 0, 'paste-body': 0, 'lhs-copy': 0, 'expand': 0, 'gnu-comma': 0, 'va-opt': 0, 'va-opt-content': 0, 'body-copy': 0}
    for ctx, out in paths:
        sp = SubstPath(it, ctx)
        facts = {'path': ctx.trail}
        _diagnosis(it, u, ctx, out, sp, A, facts)
        handed = set()
        for e in sp.calls:
            if e[1] in ('preprocess2', 'stringize', 'paste', 'subst'):
                for a in e[2]:
                    for t_ in chain(it, as_obj(it, a), limit=8)[0]:
                        handed.add(id(t_))
        for e in sp.calls:
            where = '%s:%d' % (U, e[3])
            if e[1] == 'stringize':
                h = as_obj(it, e[2][0])
                x = e[2][1]
                seen['stringize'] += 1
                own = sp.owner(x)
                if sp.is_expanded(x):
                    A.ob('R09.3', '%s:%s:stringize-operand-macro-expanded' % (U, fn), False,
                         'the operand of # is macro-expanded before it is stringized: #x must spell the argument as written (C11 6.10.3.2)', where, facts)
                elif own is None or not isinstance(h, Obj):
                    A.ob('R09.3', '%s:%s:stringize-operand' % (U, fn), False, 'stringize() is applied to something that is not the raw token list of an argument (%r)' % (x,), where, facts)
                else:
                    ok = sp.cls(h) == {'#'} and sp.next_of(h) is own
                    A.ob('R09.3', '%s:%s:stringize-operand' % (U, fn), ok,
                         'stringize() is applied at token %s (class %s) to the argument of parameter token %s, which is not the token following a "#"' % (sp.name(h), sorted(sp.cls(h) or []), sp.name(own)), where, facts)
            elif e[1] == 'paste':
                x = e[2][1]
                own = sp.owner(x)
                xo = it.settle(x)
                if sp.is_expanded(x):
                    A.ob('R09.3', '%s:%s:paste-operand-macro-expanded' % (U, fn), False,
                         'the right operand of ## is macro-expanded before pasting: operands of ## must be taken unexpanded (C11 6.10.3.3)', where, facts)
                elif own is not None:
                    seen['paste-arg'] += 1
                    pr = sp.pred_of(own)
                    A.ob('R09.3', '%s:%s:paste-rhs-argument' % (U, fn), pr is not None and sp.cls(pr) == {'##'},
                         'paste() takes the argument of a parameter that does not follow "##"', where, facts)
                elif isinstance(xo, Obj) and id(xo) in sp.body_ids:
                    seen['paste-body'] += 1
                    pr = sp.pred_of(xo)
                    A.ob('R09.3', '%s:%s:paste-rhs-body-token' % (U, fn), pr is not None and sp.cls(pr) == {'##'} and PARAM not in (sp.cls(xo) or {PARAM}),
                         'paste() takes a replacement-list token that does not follow "##" or that may be a parameter', where, facts)
                    A.ob('R09.3', '%s:%s:paste-rhs-may-be-stringize-operator' % (U, fn), not _may_be_hash_operator(sp, xo),
                         'paste() takes as its right operand a single replacement-list token of which the code has not excluded that it is a `#` followed by a parameter: the operand of ## is then the '
                         'string literal that # makes of the argument (C11 6.10.3.2p2: each `# parameter` is replaced by one string literal - that literal is the preprocessing token next to the ##), '
                         'but the bare `#` is pasted: `#define F(x, y) x ## #y` / F(L, a) is rejected with "pasting forms \'L#\'" instead of giving L"a"', where, facts)
                    A.ob('R09.21', '%s:%s:paste-rhs-may-be-va-opt-group' % (U, fn), not _may_open_va_opt(sp, xo),
                         'paste() takes as its right operand a single replacement-list token of which the code has not excluded that it is the `__VA_OPT__` of a `__VA_OPT__( )` group: the operand of ## is the whole group (its substituted content, or a placemarker when there are no variable arguments) - `#define F(x, ...) x ## __VA_OPT__(a)` / F(p,1) yields `p__VA_OPT__(a)` instead of `pa`', where, facts)
                elif isinstance(xo, Obj) and any(c_[1] == 'stringize' and c_[4] is xo for c_ in sp.calls):
                    # `x ## #y`: the string literal made by # is the operand
                    sc = [c_ for c_ in sp.calls if c_[1] == 'stringize' and c_[4] is xo][0]
                    h = as_obj(it, sc[2][0])
                    pr = sp.pred_of(h) if isinstance(h, Obj) else None
                    A.ob('R09.3', '%s:%s:paste-rhs-stringized-operand' % (U, fn), pr is not None and sp.cls(pr) == {'##'},
                         'paste() takes the result of a # whose `#` token does not follow "##"', where, facts)
                else:
                    rep.undecided('R09.3', '%s:%s:paste-rhs-unknown' % (U, fn), 'the right operand of paste() (%r) is neither an argument nor a replacement-list token' % (x,), where)
            elif e[1] == 'preprocess2':
                seen['expand'] += 1
                t = sp.owner(e[2][0])
                if t is None:
                    rep.undecided('R09.3', '%s:%s:preprocess2-operand-unknown' % (U, fn), 'preprocess2() is applied to %r, not to the token list of an argument' % (e[2][0],), where)
                    continue
                nx = sp.next_of(t)
                ncls = sp.cls(nx) if nx is not None else None
                A.ob('R09.3', '%s:%s:lhs-of-paste-not-expanded' % (U, fn), ncls is not None and '##' not in ncls,
                     'a parameter is replaced by its macro-expanded argument although the next token may be "##" (the test is missing or comes too late): the left operand of ## must be taken unexpanded', where, facts)
                pr = sp.pred_of(t)
                pcls = sp.cls(pr) if pr is not None else set()
                ok = pcls is not None and not (pcls & {'#', '##'})
                pp = sp.pred_of(pr) if pr is not None else None
                if not ok and pp is not None and sp.cls(pp) == {'##'} and PARAM not in (sp.cls(pr) or {PARAM}):
                    ok = True       # the previous token was itself consumed as the right operand of ##: it is not an operator
                if not ok and pcls == {'##'}:
                    ma = t.meta.get('marg')
                    va = it.settle(ma.fields.get('is_va_args')) if ma is not None and 'is_va_args' in ma.fields else None
                    ok = pp is not None and sp.cls(pp) == {','} and isinstance(va, int) and va == 1     # GNU `, ## __VA_ARGS__`
                A.ob('R09.3', '%s:%s:operand-of-hash-or-paste-not-expanded' % (U, fn), ok,
                     'a parameter that follows "#" or "##" (previous token class %s) is replaced by its macro-expanded argument' % sorted(pcls or ['?']), where, facts)
            elif e[1] == 'copy_token':
                o = e[2][0]
                if id(o) in sp.raw and id(e[4]) in handed:
                    continue        # a private copy of the argument made for a callee (preprocess2 relinks what it is given): not part of the result
                if isinstance(o, Obj) and id(o) in sp.body_ids and id(o) not in sp.raw:
                    seen['body-copy'] += 1
                    A.ob('R09.3', '%s:%s:stringize-operator-copied-as-plain-token' % (U, fn), not _may_be_hash_operator(sp, o),
                         'a replacement-list token is copied into the result as an ordinary token although the code has not excluded that it is a `#` followed by a parameter (the token right of a ## whose '
                         'left operand is empty): the # operator is not applied - `#define G(x, y) x ## #y` / G(,b) yields `# b` instead of "b"', where, facts)
                    A.ob('R09.21', '%s:%s:va-opt-group-copied-as-plain-token' % (U, fn), not _may_open_va_opt(sp, o),
                         'a replacement-list token is copied into the result as an ordinary token although the code has not excluded that it is the `__VA_OPT__` of a `__VA_OPT__( )` group (the token right of a ## whose left operand is empty): the name __VA_OPT__ and its parentheses appear in the expansion - `#define F(x, ...) x ## __VA_OPT__(a)` / F(,1) yields `__VA_OPT__(a)` instead of `a`', where, facts)
                if id(o) in sp.raw:
                    t, k = sp.raw[id(o)]
                    nx = sp.next_of(t)
                    pr = sp.pred_of(t)
                    adj = (nx is not None and sp.cls(nx) == {'##'}) or (pr is not None and sp.cls(pr) == {'##'})
                    if adj:
                        seen['lhs-copy'] += 1
                    A.ob('R09.3', '%s:%s:%s' % (U, fn, 'paste-operand-copied-raw' if adj else 'plain-parameter-not-expanded'), adj,
                         'the tokens of an argument are copied into the result without macro expansion although the parameter is not an operand of ##: arguments must be completely macro-replaced before substitution (C11 6.10.3.1); f(f(1)) style nesting breaks', where, facts)
        # GNU `, ## __VA_ARGS__` and __VA_OPT__(..)
        copied = set(id(e[2][0]) for e in sp.calls if e[1] == 'copy_token')
        for b in sp.body:
            n1 = sp.next_of(b)
            n2 = sp.next_of(n1) if n1 is not None else None
            if sp.cls(b) == {','} and n1 is not None and sp.cls(n1) == {'##'} and n2 is not None and sp.cls(n2) == {PARAM}:
                ma = n2.meta.get('marg')
                va = it.settle(ma.fields.get('is_va_args')) if ma is not None and 'is_va_args' in ma.fields else None
                at = as_obj(it, ma.fields.get('tok')) if ma is not None and 'tok' in ma.fields else None
                k = it.settle(at.fields.get('kind')) if isinstance(at, Obj) and 'kind' in at.fields else None
                if va == 1 and isinstance(k, int):
                    seen['gnu-comma'] += 1
                    empty = (k == u.enums.get('TK_EOF'))
                    A.ob('R09.3', '%s:%s:gnu-comma-%s' % (U, fn, 'dropped-when-variadic-empty' if empty else 'kept-when-variadic-present'), (id(b) in copied) == (not empty),
                         '`, ## __VA_ARGS__` with %s variadic argument: the comma is %s' % ('an empty' if empty else 'a non-empty', 'emitted' if id(b) in copied else 'dropped'), '%s:%d' % (U, line), facts)
        opts = [e for e in sp.calls if e[1] == 'read_macro_arg_one']
        hvs = [e for e in sp.calls if e[1] == 'has_varargs']
        if len(opts) != len(hvs):
            rep.undecided('R09.3', '%s:%s:va-opt-shape' % (U, fn), '__VA_OPT__ content is read %d time(s) but has_varargs asked %d time(s) on one path' % (len(opts), len(hvs)), '%s:%d' % (U, line))
        else:
            for e, hv in zip(opts, hvs):
                r = it.settle(hv[4])
                opt = e[4]
                tv = opt.fields.get('tok')
                first = as_obj(it, tv) if tv is not None else None
                kv = first.fields.get('kind') if isinstance(first, Obj) and 'kind' in first.fields else None
                k = it.settle(kv) if kv is not None else None
                nonempty = (isinstance(k, int) and k != u.enums.get('TK_EOF')) or (isinstance(kv, View) and u.enums.get('TK_EOF') not in [kv.proj(c) for c in kv.cell.cands])
                linked_raw = isinstance(first, Obj) and any(x[0] == 'fstore' and x[2] == 'next' and it.settle(x[4]) is first for x in ctx.events)
                nested = [x for x in sp.calls if x[1] == 'subst' and isinstance(first, Obj) and as_obj(it, x[2][0]) is first]
                linked_sub = any(x[0] == 'fstore' and x[2] == 'next' and any(it.settle(x[4]) is it.settle(c[4]) for c in nested) for x in ctx.events)
                linked = linked_raw or linked_sub
                if nested and not nonempty:
                    # the content was handed to a nested subst(): what matters is whether THAT result is empty
                    ro = as_obj(it, nested[0][4])
                    kv2 = ro.fields.get('kind') if isinstance(ro, Obj) else None
                    k2 = it.settle(kv2) if kv2 is not None else None
                    nonempty = (isinstance(k2, int) and k2 != u.enums.get('TK_EOF')) or (isinstance(kv2, View) and u.enums.get('TK_EOF') not in [kv2.proj(c) for c in kv2.cell.cands])
                if not isinstance(r, int):
                    continue
                if r and not nonempty:
                    continue        # nothing to emit (or the content was never looked at)
                seen['va-opt'] += 1
                A.ob('R09.3', '%s:%s:va-opt-%s' % (U, fn, 'expands-when-variadic-present' if r else 'vanishes-when-variadic-empty'), linked == bool(r),
                     '__VA_OPT__(x): has_varargs is %s but the content is %s' % ('true' if r else 'false', 'emitted' if linked else 'dropped'), '%s:%d' % (U, e[3]), facts)
                a = [show(Desc(it, ctx).of(x)) for x in hv[2]]
                A.ob('R09.3', '%s:%s:va-opt-tests-the-invocation-arguments' % (U, fn), a == ['args'], 'has_varargs is asked about %s instead of the argument list of the invocation' % a, '%s:%d' % (U, hv[3]), facts)
                if r and linked:
                    seen['va-opt-content'] += 1
                    if linked_raw:
                        A.ob('R09.3', '%s:%s:va-opt-content-parameter-substituted' % (U, fn), False,
                             'the tokens between the parentheses of __VA_OPT__( ) are linked into the result exactly as they stand in the replacement list: parameters, # and ## inside them are not processed (`#define F(a,...) __VA_OPT__(a)` / F(1,2) yields `a` instead of `1`; `__VA_OPT__(__VA_ARGS__)` yields the name __VA_ARGS__)', '%s:%d' % (U, e[3]), facts)
                    else:
                        a2 = [show(Desc(it, ctx).of(x)) for x in nested[0][2][1:]]
                        A.ob('R09.3', '%s:%s:va-opt-content-parameter-substituted' % (U, fn), a2 == ['args'],
                             'the content of __VA_OPT__ is substituted with %s instead of the arguments of the invocation' % a2, '%s:%d' % (U, e[3]), facts)
    A.flush()
    for k, v in seen.items():
        if v == 0:
            rep.undecided('R09.3', '%s:%s:no-%s-path' % (U, fn, k), 'no explored path of subst performs the "%s" action (shape not recognised)' % k, where='%s:%d' % (U, line))
    r_paste_operands(P, u, rep)
    return it, paths


def _may_be_hash_operator(sp, t):
    """the decisions of the path leave it possible that body token t is `#` and the token after it a parameter"""
    c = sp.cls(t)
    if c is not None and '#' not in c:
        return False
    nx = sp.next_of(t)
    cn = sp.cls(nx) if nx is not None else None
    return cn is None or PARAM in cn


def _may_open_va_opt(sp, t):
    """the decisions of the path leave it possible that body token t is `__VA_OPT__` and the token after it `(`"""
    c = sp.cls(t)
    if c is not None and '__VA_OPT__' not in c:
        return False
    nx = sp.next_of(t)
    cn = sp.cls(nx) if nx is not None else None
    return cn is None or '(' in cn


def _diagnosis(it, u, ctx, out, sp, A, facts):
    """R09.13: a path of subst that ends in a diagnostic must be explained by the replacement list alone"""
    fn = 'subst'
    if out[0] != 'noreturn' or out[1] not in ('error_tok', 'error_at', 'error'):
        return
    eof = u.enums.get('TK_EOF')
    where = '%s:%d' % (U, out[3])
    main = []       # the replacement list proper (tokens reached from the first one)
    v = ctx.body
    while isinstance(v, Obj) and len(main) < 16:
        main.append(v)
        v = it.settle(v.fields.get('next', 0)) if 'next' in v.fields else None
    malformed = None
    for i, b in enumerate(main):
        c = sp.cls(b)
        nx = sp.next_of(b)
        if c == {'#'} and nx is not None and sp.cls(nx) is not None and PARAM not in sp.cls(nx):
            malformed = 'hash-without-parameter'
        if c == {'##'} and i == 0:
            malformed = 'paste-operator-first'
        if c == {'##'} and nx is not None and 'kind' in nx.fields and it.settle(nx.fields['kind']) == eof:
            malformed = 'paste-operator-last'
    for b in sp.body:      # the tokens after a __VA_OPT__( ... ) are reached through skip(): same list
        if id(b) in set(id(x) for x in main):
            continue
        c = sp.cls(b)
        nx = sp.next_of(b)
        if c == {'#'} and nx is not None and sp.cls(nx) is not None and PARAM not in sp.cls(nx):
            malformed = 'hash-without-parameter'
        if c == {'##'} and nx is not None and 'kind' in nx.fields and it.settle(nx.fields['kind']) == eof:
            malformed = 'paste-operator-last'
    if malformed:
        A.ob('R09.13', '%s:%s:diagnoses-%s' % (U, fn, malformed), True, '', where, facts)
        return
    t = as_obj(it, out[2][0]) if len(out) > 2 and out[2] else None
    pr = sp.pred_of(t) if isinstance(t, Obj) else None
    if isinstance(t, Obj) and sp.cls(t) == {'##'}:
        if pr is not None and sp.cls(pr) == {PARAM}:
            pp = sp.pred_of(pr)
            if pp is not None and sp.cls(pp) == {'##'} and sp.pred_of(pp) is not None and sp.cls(sp.pred_of(pp)) == {','}:
                return      # `, ## __VA_ARGS__ ## x`: the GNU comma extension has no prescribed meaning as an operand of a further ##
            what = 'after-empty-parameter-operands'
        elif pr is None and not any(t is x for x in main):
            what = 'after-empty-va-opt'
        else:
            what = 'after-other-tokens'
        A.ob('R09.13', '%s:%s:paste-operator-rejected-%s' % (U, fn, what), False,
             'subst aborts with a diagnostic at a ## that is neither the first nor the last token of the replacement list, because what stands left of it produced no token in this invocation (%s): an empty operand is a placemarker, `#define t(x,y,z) x ## y ## z` / t(,,) is the standard\'s own example (C11 6.10.3.3p4 in 6.10.3.5 EXAMPLE 5) and must expand to nothing, t(,,3) to 3' % {
                 'after-empty-parameter-operands': 'the parameters left of it had empty arguments', 'after-empty-va-opt': 'a __VA_OPT__( ) that vanished'}.get(what, what), where, facts)
        return
    A.ob('R09.13', '%s:%s:diagnostic-not-explained-by-the-replacement-list' % (U, fn), False,
         'subst aborts with a diagnostic although the replacement list is well-formed (# is followed by a parameter, ## is neither first nor last): the reason depends on the arguments of the invocation (decisions: %s)' % (ctx.trail,), where, facts)


def r_paste_operands(P, u, rep):
    """R09.13 on the sub-language {parameter, ##, other token} with three rounds of the main loop: what is handed to paste()"""
    from ..lib_c09y import explore_subst_small
    fn = 'subst'
    eof = u.enums.get('TK_EOF')
    it, paths = explore_subst_small(P, u, [PARAM, '##', OTHER], loop_limit=3)
    A = Agg(rep)
    w0 = '%s:%d' % (U, u.fn(fn).line)
    n_paste = 0
    for ctx, out in paths:
        calls = [e for e in ctx.events if e[0] == 'call']
        body = []
        v = ctx.body
        while isinstance(v, Obj) and len(body) < 16:
            body.append(v)
            v = it.settle(v.fields.get('next', 0)) if 'next' in v.fields else None
        idx = {id(b): i for i, b in enumerate(body)}
        cl = [cls_of(b) for b in body]
        facts = {'path': ctx.trail, 'replacement list': [sorted(c)[0] if c and len(c) == 1 else '?' for c in cl]}

        def argfirst(b):
            ma = b.meta.get('marg')
            return ma.fields.get('tok') if ma is not None else None

        def empty(b):
            """True/False/None: the argument of parameter token b is empty on this path"""
            f = argfirst(b)
            if not isinstance(f, Obj) or 'kind' not in f.fields:
                return None
            k = f.fields['kind']
            ks = it.settle(k)
            if isinstance(ks, int):
                return ks == eof
            if isinstance(k, View):
                return False if eof not in [k.proj(c) for c in k.cell.cands] else None
            return None
        owner_of_first = {id(argfirst(b)): b for b in body if isinstance(argfirst(b), Obj)}
        exp_owner = {}
        for e in calls:
            if e[1] == 'preprocess2':
                x = as_obj(it, e[2][0])
                if isinstance(x, Obj) and id(x) in owner_of_first:
                    for t_ in chain(it, e[4])[0]:
                        exp_owner[id(t_)] = owner_of_first[id(x)]

        def body_of(x):
            """replacement-list token that the token/list x comes from"""
            x = as_obj(it, x)
            k = 0
            while isinstance(x, Obj) and k < 8:
                if id(x) in idx:
                    return x
                if id(x) in owner_of_first:
                    return owner_of_first[id(x)]
                if id(x) in exp_owner:
                    return exp_owner[id(x)]
                x = x.meta.get('copy_of')
                k += 1
            return None

        def stands_for(meta):
            mb = meta.get('made_by')
            if mb is not None:
                return body_of(mb[1][1]) if len(mb[1]) > 1 else None
            src = meta.get('copy_of')
            return body_of(src) if src is not None else None
        for e in calls:
            if e[1] != 'paste':
                continue
            res = e[4]
            R = body_of(e[2][1])
            if R is None or idx[id(R)] < 2 or cl[idx[id(R)] - 1] != {'##'}:
                continue        # R09.3 looks at the right operand
            n_paste += 1
            h = idx[id(R)] - 1
            # the operand left of the operator, looking through empty operands
            j = h - 1
            eff = 'unknown'
            while True:
                if cl[j] == {PARAM} and empty(body[j]) is True:
                    if j >= 2 and cl[j - 1] == {'##'}:
                        j -= 2
                        continue
                    eff = None
                    break
                if cl[j] == {PARAM} and empty(body[j]) is None:
                    break
                eff = body[j]
                break
            if eff == 'unknown':
                continue
            where = '%s:%d' % (U, e[3])
            if eff is None:
                A.ob('R09.13', '%s:%s:paste-with-token-left-of-empty-operands' % (U, fn), False,
                     'paste() is called for a ## whose left operand is empty in this invocation (every operand left of it, back to the previous token that is not an operand, is an empty argument): the token that happens to be last in the result - an unrelated earlier token of the replacement list - is pasted with the right operand (`#define u(x,y,z) A x ## y ## z` / u(,,12) gives `A12` instead of `A 12`; a placemarker pasted with z is z)', where, facts)
                continue
            got = stands_for(res.meta.get('lhs_meta') or {})
            A.ob('R09.13', '%s:%s:paste-left-operand-is-the-operand-before-the-operator' % (U, fn), got is eff,
                 'paste() is handed, as its left operand, a token of the result that stands for replacement-list token %s, but the operand left of this ## (looking through empty arguments) is token %s' % (
                     idx.get(id(got), '?') if got is not None else 'of unknown provenance', idx[id(eff)]), where, facts)
    A.flush()
    if n_paste == 0:
        rep.undecided('R09.13', '%s:%s:no-paste-case' % (U, fn), 'no explored path of subst over {parameter, ##, token} replacement lists calls paste()', where=w0)


def r_arg_sharing(P, u, rep, it, paths):
    """One MacroArg serves every occurrence of its parameter in the replacement list (find_arg returns the same object each
    time): its token list must stay as read_macro_arg_one made it."""
    from ..lib_c09y import stream_writes, token_param_writes
    fn = 'subst'
    line = u.fn(fn).line
    w0 = '%s:%d' % (U, line)
    rep.rule('R09.12', 'the token list of a macro argument is shared by every occurrence of the parameter (#x, x ## y, plain x): subst never writes a member of an argument token, never links an argument token itself (only copies) into the list it builds, and never hands the list to a function that writes or relinks the tokens it is given (preprocess2 links its input tokens into its output and stamps them)', floor=4)
    A = Agg(rep)
    summaries = {}

    def writes_of(name):
        if name not in summaries:
            try:
                if name == 'preprocess2':
                    summaries[name] = sorted(stream_writes(P, u, name))
                elif name in u.functions:
                    summaries[name] = sorted(set(f for i, f in token_param_writes(P, u, name)))
                else:
                    summaries[name] = None
            except AnalysisBroken as e:
                summaries[name] = None
        return summaries[name]
    n_seen = {'copied': 0, 'handed-over': 0}
    for ctx, out in paths:
        sp = SubstPath(it, ctx)
        if not sp.raw:
            continue
        facts = {'path': ctx.trail}
        rawobj = {}
        for b in sp.body:
            ma = b.meta.get('marg')
            if ma is None or 'tok' not in ma.fields:
                continue
            v = it.settle(ma.fields.get('tok'))
            k = 0
            while isinstance(v, Obj) and k < 8:
                rawobj[id(v)] = v
                v = it.settle(v.fields.get('next', 0))
                k += 1
        eofk = u.enums.get('TK_EOF')
        for e in ctx.events:
            if e[0] == 'fstore':
                o = e[1]
                if isinstance(o, Obj) and id(o) in sp.body_ids and not o.meta.get('created'):
                    A.ob('R09.12', '%s:%s:replacement-list-token-written(%s)' % (U, fn, e[2]), False,
                         'subst writes the member %s of a token of the macro\'s replacement list itself (not of a copy): the stored body of the macro is changed for every later invocation' % e[2], w0, facts)
                nb = it.settle(e[4]) if e[2] == 'next' else None
                if isinstance(nb, Obj) and id(nb) in sp.body_ids and not (isinstance(o, Obj) and id(o) in sp.body_ids):
                    kb = it.settle(nb.fields['kind']) if 'kind' in nb.fields else None
                    if not (isinstance(kb, int) and kb == eofk):
                        A.ob('R09.12', '%s:%s:replacement-list-token-linked-into-result' % (U, fn), False,
                             'a token of the macro\'s replacement list is itself (not a copy_token of it) linked into the list subst builds: the next `cur->next = ..` / `*cur = *paste(cur, ..)` rewrites the stored body of the macro, so later invocations expand to tokens of this one', w0, facts)
                if isinstance(o, Obj) and id(o) in sp.raw:
                    A.ob('R09.12', '%s:%s:argument-token-written(%s)' % (U, fn, e[2]), False,
                         'subst writes the member %s of a token that belongs to the argument list of a parameter (not of a copy): the MacroArg is the same for every occurrence of the parameter, so a later `#x`, `x ## y` or plain `x` in the same replacement list sees the changed token' % e[2], w0, facts)
                nv = it.settle(e[4]) if e[2] == 'next' else None
                if isinstance(nv, Obj) and id(nv) in sp.raw and not (isinstance(o, Obj) and id(o) in sp.raw):
                    A.ob('R09.12', '%s:%s:argument-token-linked-into-result' % (U, fn), False,
                         'a token of an argument list is itself (not a copy_token of it) linked into the list subst builds: what subst does next to the end of its list (`*cur = *paste(cur, ..)`, `cur->next = ..`, the white-space flags) rewrites the argument, which every other occurrence of the parameter shares - `#define T(n) n##_fn, #n` stringizes the pasted token, `n##_lo, n##_hi` builds a cyclic list (the preprocessor does not terminate)', w0, facts)
            elif e[0] == 'call':
                if e[1] == 'copy_token':
                    if id(e[2][0]) in sp.raw:
                        n_seen['copied'] += 1
                    continue
                for i, a in enumerate(e[2]):
                    if not sp.is_shared_arg_list(a):
                        continue
                    n_seen['handed-over'] += 1
                    ws = writes_of(e[1])
                    if ws is None:
                        rep.undecided('R09.12', '%s:%s:argument-list-given-to-%s' % (U, fn, e[1]), 'the argument list of a parameter is handed to %s, whose effect on the tokens it is given cannot be summarised' % e[1], where='%s:%d' % (U, e[3]))
                        continue
                    A.ob('R09.12', '%s:%s:argument-list-given-to-%s' % (U, fn, e[1]), not ws,
                         'the token list stored in the MacroArg is handed to %s as it is, and %s writes the member(s) %s of the tokens of its input list%s: after the first plain occurrence of a parameter the argument is no longer what was written in the invocation, and a later `#x` / `x ## y` in the same replacement list works on the changed list (`#define H(x) x #x` with `#define M 42`: H(a M) gives "a 42" instead of "a M"; C11 6.10.3.1/6.10.3.2: # and ## operands are the argument as written)' % (
                             e[1], e[1], '/'.join(ws), ' (it links every token that is not a macro into its result, so the `next` of an argument token is redirected to the expansion of what followed it)' if 'next' in ws else ''), '%s:%d' % (U, e[3]), facts)
        clean = True
        for i_, o in rawobj.items():
            if o.meta.get('created'):
                clean = False
                A.ob('R09.12', '%s:%s:argument-token-overwritten' % (U, fn), False,
                     'a token of an argument list is overwritten as a whole by the result of paste()/stringize()', w0, facts)
        A.ob('R09.12', '%s:%s:argument-tokens-stay-as-read' % (U, fn), clean and not any(e[0] == 'fstore' and isinstance(e[1], Obj) and id(e[1]) in sp.raw for e in ctx.events),
             'subst changes a token of an argument list', w0, facts)
        A.ob('R09.12', '%s:%s:only-copies-of-argument-tokens-enter-the-result' % (U, fn),
             not any(e[0] == 'fstore' and e[2] == 'next' and isinstance(it.settle(e[4]), Obj) and id(it.settle(e[4])) in sp.raw and not (isinstance(e[1], Obj) and id(e[1]) in sp.raw) for e in ctx.events),
             'an argument token itself is linked into the result', w0, facts)
    A.flush()
    for k, v in n_seen.items():
        if v == 0:
            rep.undecided('R09.12', '%s:%s:no-%s-case' % (U, fn, k), 'no explored path of subst shows an argument list being %s' % k, where=w0)


R0921 = ('__VA_OPT__ (C23 6.10.4.1; GNU named variadic parameters included): a `__VA_OPT__( )` group is ONE unit of the replacement list wherever it stands, '
         'also as an operand of ## - no path of subst pastes or copies a replacement-list token of which it has not excluded that it opens such a group; '
         'whether the group vanishes is decided by the variadic argument of the invocation, found by its role (is_va_args), whatever the parameter is called; '
         'a group that vanishes left of a ## is a placemarker: paste() is not called with the token that happens to precede the group')


def r_va_opt(P, u, rep):
    """R09.21: has_varargs on concrete argument lists; `[token] __VA_OPT__( ) ## token` with and without variable arguments"""
    rep.rule('R09.21', R0921, floor=8)
    A = Agg(rep)
    ln = lambda f: '%s:%d' % (U, u.fn(f).line)
    eof, ident = u.enums.get('TK_EOF'), u.enums.get('TK_IDENT')
    if 'has_varargs' not in u.functions:
        raise AnalysisBroken('anchor has_varargs vanished')
    if len(u.params('has_varargs')) != 1:
        rep.undecided('R09.21', '%s:has_varargs:signature' % U, 'has_varargs no longer takes exactly the argument list', where=ln('has_varargs'))
    else:
        it = _conc(P, u)
        cases = [('variadic-present', [('x', 0, 1), ('__VA_ARGS__', 1, 1)]), ('variadic-empty', [('x', 0, 1), ('__VA_ARGS__', 1, 0)]),
                 ('named-variadic-present', [('x', 0, 1), ('rest', 1, 1)]), ('named-variadic-empty', [('x', 0, 1), ('rest', 1, 0)]),
                 ('named-variadic-present', [('x', 0, 0), ('rest', 1, 1)]), ('only-variadic-present', [('__VA_ARGS__', 1, 1)]),
                 ('named-variadic-present', [('r', 1, 1)]), ('no-variadic-parameter', [('x', 0, 1), ('y', 0, 1)]), ('no-argument', [])]
        for name, spec in cases:
            head = 0
            for nm, va, full in reversed(spec):
                tk = mk_tokens([{'loc': 'v'}] if full else [], eof, ident)[0]
                head = Obj('MacroArg', lazy=False, label='arg_' + nm, fields={'next': head, 'name': nm, 'is_va_args': va, 'tok': tk})
            want = 1 if any(va and full for nm, va, full in spec) else 0
            try:
                r = it.settle(_run1(it, 'has_varargs', [head]))
            except (NotConcrete, AnalysisBroken) as e:
                rep.undecided('R09.21', '%s:has_varargs:%s' % (U, name), 'the interpreter cannot follow has_varargs on a concrete argument list (%s)' % e, where=ln('has_varargs'))
                continue
            if not isinstance(r, int):
                rep.undecided('R09.21', '%s:has_varargs:%s' % (U, name), 'has_varargs does not evaluate to a number (%r)' % (r,), where=ln('has_varargs'))
                continue
            A.ob('R09.21', '%s:has_varargs:%s' % (U, name), (1 if r else 0) == want,
                 'has_varargs answers %s for the arguments %s (name, variadic, non-empty): __VA_OPT__ must look at the argument that holds the variable arguments (is_va_args), whatever the parameter is called - '
                 '`#define F(x, r...) x __VA_OPT__(a) r` / F(1,2) yields `1 2` instead of `1 a 2`' % (r, spec), ln('has_varargs'), {'arguments': spec})
    # -- a group left of ## on the sub-language {token, __VA_OPT__, (, ##}, three rounds of the main loop
    it, paths, classes = explore_subst(P, u, loop_limit=3, only=[OTHER, '__VA_OPT__', '(', '##'], max_paths=20000)
    n = {'present': 0, 'empty': 0}
    for ctx, out in paths:
        sp = SubstPath(it, ctx)
        skips = [e for e in sp.calls if e[1] == 'skip']
        hvs = [e for e in sp.calls if e[1] == 'has_varargs']
        if len(skips) != len(hvs):
            continue
        facts = {'path': ctx.trail}
        for e in sp.calls:
            if e[1] != 'paste':
                continue
            xo = it.settle(e[2][1])
            if not (isinstance(xo, Obj) and id(xo) in sp.body_ids):
                continue
            pr = sp.pred_of(xo)
            if pr is None or sp.cls(pr) != {'##'}:
                continue
            for s_, hv in zip(skips, hvs):
                if it.settle(s_[4]) is not pr:
                    continue
                r = it.settle(hv[4])
                if not isinstance(r, int):
                    continue
                where = '%s:%d' % (U, e[3])
                if r:
                    n['present'] += 1
                    A.ob('R09.21', '%s:subst:paste-right-after-va-opt-group-with-variable-arguments' % U, True, '', where, facts)
                else:
                    n['empty'] += 1
                    A.ob('R09.21', '%s:subst:paste-with-token-left-of-empty-va-opt' % U, False,
                         'paste() is called for a ## that directly follows a `__VA_OPT__( )` group although there are no variable arguments on this path: the group is a placemarker, '
                         'but the token that happens to be last in the result - the unrelated token BEFORE the group - is pasted with the right operand '
                         '(`#define G(x, ...) x __VA_OPT__(q) ## a` / G(1) yields `1a` instead of `1 a`)', where, facts)
    A.flush()
    if n['present'] == 0:
        rep.undecided('R09.21', '%s:subst:no-paste-after-va-opt-group' % U, 'no explored path of subst over {token, __VA_OPT__, (, ##} replacement lists calls paste() for a ## that follows a group', where=ln('subst'))


def r_expanded_once(P, u, rep):
    """R09.22: two plain occurrences of ONE parameter (one MacroArg object): how often is its token list handed to preprocess2"""
    from ..lib_c09x import explore_subst_shared
    rep.rule('R09.22', 'an argument is completely macro-replaced ONCE per invocation (C11 6.10.3.1: "each argument\'s preprocessing tokens are completely macro replaced" before being '
             'substituted - a step on the argument, not on the occurrence of the parameter): on no path of subst is the token list of one MacroArg handed to preprocess2 more than once; '
             'further occurrences of the parameter reuse the result (visible through __COUNTER__: `#define D(x) x x` / D(__COUNTER__) is `0 0`, and an identifier made unique '
             'with __COUNTER__ and passed as an argument names ONE object however often the parameter occurs)', floor=2)
    A = Agg(rep)
    w0 = '%s:%d' % (U, u.fn('subst').line)
    it, paths = explore_subst_shared(P, u, [PARAM, OTHER])
    two = 0
    for ctx, out in paths:
        if out[0] != 'ret':
            continue
        ma = getattr(ctx, 'shared_marg', None)
        if ma is None:
            continue
        body, _ = chain(it, ctx.body, limit=8)
        nparam = sum(1 for b in body if cls_of(b) == {PARAM})
        raw = set()
        v = it.settle(ma.fields.get('tok', 0)) if 'tok' in ma.fields else 0
        for t_ in chain(it, v, limit=8)[0]:
            raw.add(id(t_))
        npp = 0
        foreign = False
        for e in ctx.events:
            if e[0] != 'call' or e[1] != 'preprocess2':
                continue
            x = it.settle(e[2][0]) if e[2] else None
            k = 0
            while isinstance(x, Obj) and id(x) not in raw and x.meta.get('copy_of') is not None and k < 8:
                x = x.meta['copy_of']
                k += 1
            if isinstance(x, Obj) and id(x) in raw:
                npp += 1
            else:
                foreign = True
        facts = {'path': ctx.trail, 'occurrences of the parameter': nparam, 'calls of preprocess2 on its argument': npp}
        if foreign:
            rep.undecided('R09.22', '%s:subst:preprocess2-operand-unknown' % U, 'preprocess2() is applied to something that is not (a copy of) the token list of the argument', where=w0)
            continue
        if nparam >= 2:
            two += 1
            A.ob('R09.22', '%s:subst:argument-expanded-once-per-invocation' % U, npp <= 1,
                 'the parameter occurs %d times in the replacement list and the token list of its ONE argument is macro-replaced %d times, once per occurrence: a dynamic macro in the argument '
                 'is evaluated again for each occurrence (`#define D(x) x x` / D(__COUNTER__) yields `0 1`, gcc and clang `0 0`; `int u = (x); u + u` with u an identifier made from __COUNTER__ '
                 'by the caller declares one name and uses two others)' % (nparam, npp), w0, facts)
        elif nparam == 1:
            A.ob('R09.22', '%s:subst:single-occurrence-expanded' % U, npp == 1, 'a parameter that occurs once is macro-replaced %d times' % npp, w0, facts)
    A.flush()
    if two == 0:
        rep.undecided('R09.22', '%s:subst:no-path-with-two-occurrences' % U, 'no explored path of subst has two plain occurrences of one parameter', where=w0)


R0923 = ('an argument is macro-replaced only where its parameter occurs in the replacement list as neither an operand of # nor of ## (C11 6.10.3.1p1; an argument '
         'that is only stringized, only pasted, or not used at all is never expanded - visible through __COUNTER__ and through arguments that would be ill-formed '
         'invocations, `STR(ONE(1,2))`): between recognising the macro name and splicing the finished replacement, the expander (preprocess2/expand_macro) can be entered '
         'from subst() only - no helper the machinery calls (reading and looking up arguments, stringize, paste, hide-set and list helpers, dynamic-macro handlers) can reach '
         'it on the call graph, no path of expand_macro hands (anything derived from) the arguments to a function that expands, and subst expands nothing for a '
         'replacement list that contains no parameter')


def r_expansion_sites(P, u, rep):
    """R09.23: the places from which macro expansion can be started while one invocation is being replaced"""
    from ..lib_c09x import expand_cut_names, SUBST_CUT, subst_probe
    from ..lib_c09z import machinery_sites, chain_to, handler_functions, reach_objects, EXPANDER
    rep.rule('R09.23', R0923, floor=16)
    for f in ('expand_macro', 'subst', 'read_macro_args', 'preprocess2'):
        if f not in u.functions:
            raise AnalysisBroken('anchor %s vanished' % f)
    A = Agg(rep)
    helpers, sites, calls, taken, R = machinery_sites(u, expand_cut_names(u), set(SUBST_CUT))
    stop = set([EXPANDER, 'preprocess2'])
    doing = {'E': 'replacing an invocation (expand_macro)', 'S': 'substituting the parameters (subst)'}
    for h in sorted(helpers):
        ok = h not in R
        ch = ' -> '.join(chain_to(calls, h, R, stop)) if not ok else ''
        A.ob('R09.23', '%s:%s:cannot-reach-the-expander' % (U, h), ok,
             '%s, which is called while %s, can start macro expansion (%s): whatever it is given - the tokens of the invocation, an argument, an operand of # or ## - is macro-replaced '
             'whether or not the parameter occurs as a plain token of the replacement list; an argument that is only an operand of # / ## or is not used at all must stay '
             'unexpanded (`#define STR(x) #x` / STR(ONE(1,2)) with a one-parameter ONE is valid; STR(__COUNTER__) must not count)' % (h, doing.get(helpers[h], '?'), ch),
             '%s:%d' % (U, u.fn(h).line), {'call chain': ch})
    for h, (f, line) in sorted(handler_functions(u).items()):
        if h in helpers:
            continue
        ok = h not in R
        ch = ' -> '.join(chain_to(calls, h, R, stop)) if not ok else ''
        A.ob('R09.23', '%s:%s:cannot-reach-the-expander' % (U, h), ok,
             '%s, whose address %s stores (a dynamic-macro handler, called through m->handler), can start macro expansion (%s)' % (h, f, ch), '%s:%d' % (U, u.fn(h).line), {'call chain': ch})
    # sites in subst / expand_macro themselves that are neither the substitution nor the argument expansion
    for f, role, g, line in sites:
        if g == 'subst' and role == 'H':
            A.ob('R09.23', '%s:%s:substitution-started-by-a-helper' % (U, f), False, '%s calls subst' % f, '%s:%d' % (U, line), {})
    # ---- expand_macro: nothing derived from the arguments goes to a function that expands
    it, paths = explore_expand(P, u, with_empty=True)
    w0 = '%s:%d' % (U, u.fn('expand_macro').line)
    nfun = 0
    for ctx, out, rest in paths:
        D = Desc(it, ctx)
        calls_ = [e for e in ctx.events if e[0] == 'call']
        rma = [e for e in calls_ if e[1] == 'read_macro_args']
        if not rma:
            continue
        nfun += 1
        facts = {'path': ctx.trail, 'calls': [e[1] for e in calls_]}
        ids = reach_objects(it, rma[0][4])

        def derived(v, depth=0):
            p_ = D.producer(v)
            if p_ is not None:
                if p_ is rma[0]:
                    return True
                return depth < 8 and any(derived(a, depth + 1) for a in p_[2])
            if isinstance(v, View):
                return any(isinstance(c, Obj) and id(c) in ids for c in v.cell.cands)
            return isinstance(v, Obj) and id(v) in ids
        bad = None
        for e in calls_:
            if e[1] not in R or e[1] == 'subst' or e[1] in helpers:
                continue        # (a helper that is not looked into is judged on the call graph above)
            if any(derived(a) for a in e[2]):
                bad = e
                break
            rep.undecided('R09.23', '%s:expand_macro:%s-on-unknown-operand' % (U, e[1]), 'expand_macro calls %s, which can start macro expansion, on %s: not (derived from) the arguments of the invocation' % (
                e[1], [show(D.of(a)) for a in e[2]]), where='%s:%d' % (U, e[3]))
        A.ob('R09.23', '%s:expand_macro:arguments-reach-only-subst-unexpanded' % U, bad is None,
             'expand_macro hands %s - the token list of an argument of the invocation, or a copy of it - to %s, which macro-expands it, for every argument and before the replacement list is looked at: '
             'an argument whose parameter is only an operand of # or ##, or does not occur at all, is macro-replaced too (C11 6.10.3.1p1 exempts it). The expansion is observable: '
             '`#define STR(x) #x` / STR(ONE(1,2)) with a one-parameter ONE is rejected, STR(__COUNTER__) and CAT(x, __COUNTER__) advance the counter' % (
                 show(D.of(bad[2][0])) if bad and bad[2] else '?', bad[1] if bad else '?'), '%s:%d' % (U, bad[3]) if bad else w0, facts)
    if nfun == 0:
        rep.undecided('R09.23', '%s:expand_macro:no-funclike-path' % U, 'no explored path of expand_macro reads an argument list', where=w0)
    # ---- subst on a replacement list without parameters
    sit, spaths, hits, broken = subst_probe(P, u)
    ws = '%s:%d' % (U, u.fn('subst').line)
    if broken:
        rep.undecided('R09.23', '%s:subst:no-parameter-no-expansion' % U, 'subst could not be explored on replacement lists without parameters: %s' % broken, where=ws)
    else:
        rets = [1 for ctx, out in spaths if out[0] == 'ret']
        if len(rets) < 3:
            rep.undecided('R09.23', '%s:subst:no-parameter-no-expansion' % U, 'subst has %d returning path(s) on replacement lists of 0..2 ordinary tokens (3 expected at least)' % len(rets), where=ws)
        for ctx, out in spaths:
            A.ob('R09.23', '%s:subst:no-parameter-no-expansion' % U, True, '', ws, {'path': ctx.trail})
        for ctx, e in hits:
            A.ob('R09.23', '%s:subst:no-parameter-no-expansion' % U, False,
                 'subst calls %s, which macro-expands, although the replacement list consists of ordinary tokens only (no parameter, no #, no ##): arguments are expanded whatever the replacement list '
                 'does with them - also those that are only operands of # / ## or not used at all (C11 6.10.3.1p1)' % e[1], '%s:%d' % (U, e[3]), {'path': ctx.trail})
    A.flush()


EOFC = '<eof>'


def _indexed_tokens(u, classes, K):
    """lazy_field hook: tokens form a chain tok0 -> tok1 -> ... -> tokK, token K can only be EOF; kind follows the class cell"""
    eof = u.enums.get('TK_EOF')
    ident = u.enums.get('TK_IDENT')
    if eof is None or ident is None:
        raise AnalysisBroken('TokenKind enumerators vanished')

    def cell_of(o):
        c = o.meta.get('cls')
        if c is None:
            i = o.meta.get('idx', 0)
            c = Cell([EOFC] if i >= K else list(classes), (o.label or 'tok') + '.spelling')
            o.meta['cls'] = c
        return c

    def hook(it, ctx, o, f, t):
        if o.tname != 'Token':
            return NotImplemented
        src = o.meta.get('copy_of')
        if src is not None:
            return it.read_field(src, f)
        if f == 'next':
            i = o.meta.get('idx', 0)
            if i >= K:
                return 0
            nx = Obj('Token', lazy=True, label='tok%d' % (i + 1))
            nx.meta['idx'] = i + 1
            return nx
        if f == 'kind':
            return View(cell_of(o), lambda c: eof if c == EOFC else ident, 'kind')
        return NotImplemented
    return hook, cell_of


def r_arg_one(P, u, rep):
    fn = 'read_macro_arg_one'
    if fn not in u.functions or 'new_eof' not in u.functions:
        raise AnalysisBroken('anchor %s/new_eof vanished' % fn)
    rep.rule('R09.5', 'read_macro_arg_one copies tokens while tracking parenthesis depth: it stops only at depth 0 on ")" (or "," unless reading the variadic rest), diagnoses EOF, and returns the copied list terminated by an EOF token with *rest at the terminator', floor=22)
    lits = literals_compared(u.fn(fn))
    lits += [x for x in ('(', ')', ',') if x not in lits]     # a spelling the code no longer tests still exists in the input
    classes = lits + [OTHER, EOFC]
    K = 3
    hook, cell_of = _indexed_tokens(u, classes, K)

    def m_equal(it, ctx, n, args):
        t = as_obj(it, args[0], n)
        sx = args[1]
        if isinstance(t, int) and t == 0:
            raise NoReturn('<null-deref>', [], n.line)
        if not isinstance(t, Obj) or not isinstance(sx, str) or sx not in classes:
            raise AnalysisBroken('equal() shape not understood in %s line %d' % (fn, n.line))
        return View(cell_of(t), lambda c, sx=sx: 1 if c == sx else 0, 'is%r' % sx)

    def null_deref(it_, n):
        raise NoReturn('<null-deref>', [], n.line)

    from ..lib_c09z import opaque_expanders
    it = PInterp(P, u, {'opaque': ['new_eof'] + opaque_expanders(u, fn, ('equal', 'copy_token')), 'models': {'equal': m_equal, 'copy_token': m_copy_token},
                        'loop_limit': K + 2, 'track_stores': True, 'lazy_field': hook, 'on_null_deref': null_deref})

    def mk(ctx):
        t0 = Obj('Token', lazy=True, label='tok0')
        t0.meta['idx'] = 0
        ctx.t0 = t0
        ctx.box = {'rest': 0}
        ctx.rr = View(Cell([0, 1], 'read_rest'))
        return [_Ref(VarPlace(ctx.box, 'rest')), t0, ctx.rr]

    A = Agg(rep)
    line = u.fn(fn).line
    where = '%s:%d' % (U, line)
    nret = 0
    for ctx, out in it.explore(fn, mk, max_paths=50000):
        rr = it.settle(ctx.rr)
        if not isinstance(rr, int):
            rr_vals = list(ctx.rr.cell.cands)
        else:
            rr_vals = [rr]
        toks, _ = chain(it, ctx.t0)
        copies = [e[2][0] for e in ctx.events if e[0] == 'call' and e[1] == 'copy_token']
        facts = {'path': ctx.trail, 'read_rest': rr_vals}
        depth = 0
        done = False
        for i, t in enumerate(toks):
            cands = list(cell_of(t).cands)
            if i < len(copies):
                obs = 'copy' if copies[i] is t else 'copy-of-another-token'
            elif out[0] == 'ret':
                obs = 'stop' if it.settle(ctx.box['rest']) is t else 'stop-elsewhere'
            elif out[1] in ('error_tok', 'error_at', 'error'):
                obs = 'error'
            else:
                obs = 'run-past-the-end (%s)' % out[1]
            for rrv in rr_vals:
                exp = set()
                for c in cands:
                    if depth == 0 and c == ')':
                        exp.add(('stop', depth, c))
                    elif depth == 0 and c == ',' and not rrv:
                        exp.add(('stop', depth, c))
                    elif c == EOFC:
                        exp.add(('error', depth, c))
                    else:
                        exp.add(('copy', depth + (1 if c == '(' else -1 if c == ')' else 0), c))
                acts = set((a, d) for a, d, c in exp)
                a, d, c = sorted(exp)[0]
                dz = 'depth0' if depth == 0 else 'nested'
                if len(acts) > 1:
                    A.ob('R09.5', '%s:%s:undistinguished-%s' % (U, fn, dz), False,
                         'at %s (read_rest=%d) the code acts (%s) without distinguishing token spellings %s that require different actions %s' % (dz, rrv, obs, cands, sorted(acts)), where, facts)
                    done = True
                    break
                key = '%s:%s:%s-%s-%s%s' % (U, fn, a, {'(': 'lparen', ')': 'rparen', ',': 'comma', OTHER: 'other', EOFC: 'eof'}.get(c, 'tok'), dz, '-rest' if (c == ',' and depth == 0 and rrv) else '')
                A.ob('R09.5', key, obs == a,
                     'token %d of an argument (spelling %s, parenthesis depth %s, read_rest=%d): the code does "%s", the argument grammar requires "%s"' % (i, cands, depth, rrv, obs, a), where, facts)
                if obs != a:
                    done = True
            if done or obs != 'copy':
                break
            depth = d
        if out[0] == 'ret' and not done:
            nret += 1
            arg = as_obj(it, out[1])
            ne = [e for e in ctx.events if e[0] == 'call' and e[1] == 'new_eof']
            term = it.settle(ctx.box['rest'])
            ok = isinstance(arg, Obj) and len(ne) == 1 and as_obj(it, ne[0][2][0]) is term
            lst, tail = chain(it, arg.fields.get('tok', 0)) if isinstance(arg, Obj) else ([], None)
            copies_made = [e[4] for e in ctx.events if e[0] == 'call' and e[1] == 'copy_token']
            eofobj = it.settle(ne[0][4]) if ne else None
            want = copies_made + ([eofobj] if isinstance(eofobj, Obj) else [])
            ok = ok and len(lst) >= len(want) and all(a is b for a, b in zip(lst, want))
            A.ob('R09.5', '%s:%s:result-list' % (U, fn), ok,
                 'the returned argument is not exactly the copied tokens in order followed by new_eof(terminator) (got %d list cells for %d copies)' % (len(lst), len(copies_made)), where, facts)
            # R09.18: the argument is what # spells: every token after the first keeps the white space it was read with
            # (the flag of the first token is never looked at: join_tokens skips it and subst stamps the parameter's)
            if ok:
                for k_, c_ in enumerate(copies_made):
                    src_ = c_.meta.get('copy_of') if isinstance(c_, Obj) else None
                    if k_ == 0 or src_ is None:
                        continue
                    verdict, v_ = _hs_store_verdict(it, ctx, c_, src_)
                    if verdict == 'unknown':
                        rep.undecided('R09.18', '%s:%s:argument-token-has_space-kept' % (U, fn), 'has_space of a collected argument token is written with a value the rule cannot relate to the token it copies (%s)' % _hs_text(v_), where=where)
                        continue
                    A.ob('R09.18', '%s:%s:argument-token-has_space-kept' % (U, fn), verdict == 'kept',
                         'token %d of a macro argument is collected with %s in has_space instead of the flag the tokenizer gave it: #x and every later stringification spell the argument with other white space than the program wrote (S(a + b) must give "a + b", S(a+b) "a+b")' % (k_, _hs_text(v_)), where, facts)
    A.flush()
    if nret == 0:
        rep.undecided('R09.5', '%s:%s:no-return-path' % (U, fn), 'no path of %s returns an argument' % fn, where=where)


def r_args(P, u, rep):
    fn = 'read_macro_args'
    for f in (fn, 'read_macro_arg_one', 'new_eof'):
        if f not in u.functions:
            raise AnalysisBroken('anchor %s vanished' % f)
    from ..build import require_signature
    require_signature(u, fn, ['Token **', 'Token *', 'MacroParam *', 'char *'], 'MacroArg *')
    require_signature(u, 'read_macro_arg_one', ['Token **', 'Token *', 'bool'], 'MacroArg *')

    def cut_one(it, ctx, n, args):
        if len(args) != 3 or not isinstance(args[0], _Ref):
            raise AnalysisBroken('read_macro_arg_one call shape changed (line %d)' % n.line)
        k = len([e for e in ctx.events if e[0] == 'call' and e[1] == 'read_macro_arg_one'])
        stop = Obj('Token', lazy=True, label='stop%d' % k)
        args[0].place.set(it, stop)
        res = Obj('MacroArg', lazy=False, label='arg%d' % k)
        ctx.emit('call', 'read_macro_arg_one', args, n.line, res, stop)
        return res

    def cut_skip(it, ctx, n, args):
        t = as_obj(it, args[0], n)
        if not isinstance(t, Obj) or not isinstance(args[1], str):
            raise AnalysisBroken('skip() shape not understood (line %d)' % n.line)
        r = as_obj(it, it.read_field(t, 'next'), n)
        ctx.emit('call', 'skip', [t, args[1]], n.line, r)
        return r

    from ..lib_c09z import opaque_expanders
    it = PInterp(P, u, {'opaque': ['equal', 'new_eof'] + opaque_expanders(u, fn, ('read_macro_arg_one', 'skip')), 'cut': {'read_macro_arg_one': cut_one, 'skip': cut_skip}, 'loop_limit': 2, 'track_stores': True})

    def mk(ctx):
        ctx.tok = Obj('Token', lazy=True, label='tok')
        ctx.box = {'rest': 0}
        ctx.params = it.lazy_value('MacroParam *', 'params')
        ctx.va = Sym('va_name', 'char *')
        return [_Ref(VarPlace(ctx.box, 'rest')), ctx.tok, ctx.params, ctx.va]

    A = Agg(rep)
    where = '%s:%d' % (U, u.fn(fn).line)
    nret = 0
    for ctx, out in it.explore(fn, mk):
        if out[0] != 'ret':
            # skip() (cut: assumed to succeed) is the only place where the argument grammar is enforced
            msg = out[2][1] if len(out) > 2 and len(out[2]) > 1 and isinstance(out[2][1], str) else str(out[1])
            missing = [e for e in ctx.events if e[0] == 'call' and e[1] == 'equal' and len(e[2]) == 2 and e[2][1] in (')', ',') and it.settle(e[4]) == 0]
            if missing:
                continue    # a diagnostic of its own for a missing separator / closing parenthesis
            A.ob('R09.10', '%s:%s:rejects(%s)' % (U, fn, msg), False,
                 'read_macro_args aborts an invocation (%s: "%s") for a reason other than a missing "," or ")" (decisions: %s): a well-formed invocation is rejected' % (out[1], msg, ctx.trail), where, {'path': ctx.trail})
            continue
        nret += 1
        facts = {'path': ctx.trail}
        calls = [e for e in ctx.events if e[0] == 'call']
        reads = [e for e in calls if e[1] == 'read_macro_arg_one']
        named = [e for e in reads if it.settle(e[2][2]) == 0]
        restr = [e for e in reads if it.settle(e[2][2]) != 0]
        plist, _ = chain(it, ctx.params)
        va_on = 0 in ctx.neq.get(('sym', 'va_name'), ())
        va_off = ctx.bounds.get(('sym', 'va_name')) == [0, 0]
        A.ob('R09.5', '%s:%s:one-argument-per-parameter' % (U, fn), len(named) == len(plist) and reads[:len(named)] == named,
             '%d named parameter(s) but %d argument(s) read with read_rest=false (in that order first)' % (len(plist), len(named)), where, facts)
        if len(named) != len(plist):
            continue
        # starts
        prev_stop = None
        ok_start = True
        ok_name = True
        for i, e in enumerate(named):
            st = as_obj(it, e[2][1])
            if i == 0:
                want = as_obj(it, as_obj(it, ctx.tok.fields.get('next', 0)).fields.get('next', 0)) if 'next' in ctx.tok.fields else None
                A.ob('R09.5', '%s:%s:first-argument-after-paren' % (U, fn), st is want, 'the first argument is not read from the token after "name ("', where, facts)
            else:
                sk = [c for c in calls if c[1] == 'skip' and c[2][0] is prev_stop and c[2][1] == ',' and c[4] is st]
                ok_start = ok_start and bool(sk)
            prev_stop = e[5]
            nm = e[4].fields.get('name')
            ok_name = ok_name and nm is not None and nm is plist[i].fields.get('name')
        if len(named) > 1:
            A.ob('R09.5', '%s:%s:comma-between-arguments' % (U, fn), ok_start,
                 'a following argument is not read from the token after the "," at which the previous argument stopped (skip(tok, ",") missing or misplaced)', where, facts)
        if named:
            A.ob('R09.5', '%s:%s:argument-named-after-parameter' % (U, fn), ok_name,
                 'an argument is not stored under the name of the parameter at the same position: find_arg would substitute the wrong (or no) argument', where, facts)
        # variadic
        lst, _ = chain(it, out[1]) if out[1] is not None else ([], None)
        expect = [e[4] for e in named]
        if va_on:
            last = lst[-1] if lst else None
            ok_va = isinstance(last, Obj) and getattr(last.fields.get('name'), 'name', None) == 'va_name' and it.settle(last.fields.get('is_va_args', 0)) == 1
            A.ob('R09.5', '%s:%s:variadic-argument-appended' % (U, fn), ok_va and len(lst) == len(named) + 1,
                 'for a variadic macro the last argument is not the one named va_args_name with is_va_args set (list has %d entries for %d named parameters)' % (len(lst), len(named)), where, facts)
            if restr:
                e = restr[0]
                st = as_obj(it, e[2][1])
                if named:
                    sk = [c for c in calls if c[1] == 'skip' and c[2][0] is prev_stop and c[2][1] == ',' and c[4] is st]
                    A.ob('R09.5', '%s:%s:variadic-after-comma' % (U, fn), bool(sk), 'the variadic rest is not read from the token after the "," that ends the last named argument', where, facts)
                else:
                    want = as_obj(it, as_obj(it, ctx.tok.fields.get('next', 0)).fields.get('next', 0))
                    A.ob('R09.5', '%s:%s:variadic-only-after-paren' % (U, fn), st is want, 'with no named parameter the variadic rest is not read from the token after "("', where, facts)
                A.ob('R09.5', '%s:%s:variadic-is-rest' % (U, fn), last is e[4] and len(restr) == 1, 'the variadic argument is not the one read with read_rest=true', where, facts)
                prev_stop = e[5]
            else:
                ne = [c for c in calls if c[1] == 'new_eof']
                eq = [c for c in calls if c[1] == 'equal' and c[2][1] == ')' and it.settle(c[4]) == 1]
                A.ob('R09.5', '%s:%s:variadic-empty' % (U, fn), bool(ne) and bool(eq) and isinstance(last, Obj) and last.fields.get('tok') is ne[-1][4],
                     'an omitted variadic part is not represented by an empty (EOF-only) argument, or is assumed without ")" being next', where, facts)
            expect = expect + [last]
        elif va_off:
            A.ob('R09.5', '%s:%s:non-variadic-has-no-rest' % (U, fn), not restr, 'a non-variadic macro reads a variadic rest', where, facts)
        A.ob('R09.5', '%s:%s:arguments-in-order' % (U, fn), len(lst) == len(expect) and all(a is b for a, b in zip(lst, expect)),
             'the returned argument list is not the arguments in reading order', where, facts)
        # closing paren
        fin = it.settle(ctx.box['rest'])
        sk = [c for c in calls if c[1] == 'skip' and c[2][1] == ')']
        stop_final = prev_stop
        if stop_final is None:      # no argument read at all: the token after "("
            stop_final = as_obj(it, as_obj(it, ctx.tok.fields.get('next', 0)).fields.get('next', 0)) if 'next' in ctx.tok.fields else None
        A.ob('R09.5', '%s:%s:rest-is-closing-paren' % (U, fn), isinstance(fin, Obj) and fin is stop_final and any(c[2][0] is fin for c in sk),
             '*rest is not the token at which the last argument stopped, or that token is not checked to be ")": expand_macro continues after the wrong token', where, facts)
    A.ob('R09.10', '%s:%s:aborts-only-for-missing-comma-or-paren' % (U, fn), True, '', where)
    A.flush()
    if nret == 0:
        rep.undecided('R09.5', '%s:%s:no-return-path' % (U, fn), 'no returning path', where=where)


def _params_oracle(cl):
    """chibicc's parameter-list grammar over a list of token classes; returns (param indices, va, rest index) or 'error'"""
    i = 0
    params = []
    first = True
    n = len(cl)
    get = lambda k: cl[k] if k < n else EOFC
    while True:
        if get(i) == ')':
            return (tuple(params), None, i + 1)
        if not first:
            if get(i) != ',':
                return 'error'
            i += 1
        if get(i) == '...':
            return (tuple(params), '__VA_ARGS__', i + 2) if get(i + 1) == ')' else 'error'
        if get(i) != OTHER:
            return 'error'
        if get(i + 1) == '...':
            return (tuple(params), ('name-of', i), i + 3) if get(i + 2) == ')' else 'error'
        params.append(i)
        i += 1
        first = False


def r_params(P, u, rep):
    import itertools
    fn = 'read_macro_params'
    if fn not in u.functions:
        raise AnalysisBroken('anchor %s vanished' % fn)
    lits = literals_compared(u.fn(fn))
    lits += [x for x in (')', ',', '...') if x not in lits]
    classes = lits + [OTHER, EOFC]
    K = 4
    hook0, cell_of = _indexed_tokens(u, classes, K)
    ident, punct, eof = u.enums.get('TK_IDENT'), u.enums.get('TK_PUNCT'), u.enums.get('TK_EOF')

    def hook(it, ctx, o, f, t):
        if o.tname == 'Token' and f == 'kind' and o.meta.get('copy_of') is None:
            return View(cell_of(o), lambda c: eof if c == EOFC else (ident if c == OTHER else punct), 'kind')
        return hook0(it, ctx, o, f, t)

    def m_equal(it, ctx, n, args):
        t = as_obj(it, args[0], n)
        if isinstance(t, int) and t == 0:
            raise NoReturn('<null-deref>', [], n.line)
        if not isinstance(t, Obj) or args[1] not in classes:
            raise AnalysisBroken('equal() shape not understood in %s line %d' % (fn, n.line))
        return View(cell_of(t), lambda c, sx=args[1]: 1 if c == sx else 0, 'is%r' % args[1])

    def m_skip(it, ctx, n, args):
        v = m_equal(it, ctx, n, args)
        if it.truth(v, n):
            return it.read_field(as_obj(it, args[0], n), 'next')
        raise NoReturn('error_tok', [args[0], 'expected ' + str(args[1])], n.line)

    def cut_strndup(it, ctx, n, args):
        r = Sym(ctx.fresh('name-of:' + repr(args[0])), 'char *')
        ctx.emit('call', 'strndup', args, n.line, r)
        return r

    def null_deref(it_, n):
        raise NoReturn('<null-deref>', [], n.line)

    it = PInterp(P, u, {'models': {'equal': m_equal, 'skip': m_skip}, 'cut': {'strndup': cut_strndup}, 'loop_limit': K + 2,
                        'track_stores': True, 'lazy_field': hook, 'on_null_deref': null_deref})

    def mk(ctx):
        t0 = Obj('Token', lazy=True, label='tok0')
        t0.meta['idx'] = 0
        ctx.t0 = t0
        ctx.box = {'rest': 0, 'va': 0}
        return [_Ref(VarPlace(ctx.box, 'rest')), t0, _Ref(VarPlace(ctx.box, 'va'))]

    def tok_index(x):
        nm = getattr(x, 'name', None) or repr(x)
        import re
        m = re.search(r'tok(\d+)\.loc', nm)
        return int(m.group(1)) if m else None

    A = Agg(rep)
    where = '%s:%d' % (U, u.fn(fn).line)
    nret = 0
    for ctx, out in it.explore(fn, mk, max_paths=50000):
        toks, _ = chain(it, ctx.t0)
        cands = [list(cell_of(t).cands) for t in toks]
        outcomes = set()
        for combo in itertools.product(*cands):
            outcomes.add(_params_oracle(list(combo)))
            if len(outcomes) > 1:
                break
        facts = {'path': ctx.trail, 'token classes': cands}
        if out[0] == 'ret':
            nret += 1
            lst, _ = chain(it, out[1]) if out[1] is not None else ([], None)
            names = [tok_index(o.fields.get('name')) for o in lst]
            va = ctx.box['va']
            if isinstance(va, str):
                vao = va
            elif isinstance(va, int) and va == 0:
                vao = None
            else:
                vao = ('name-of', tok_index(va))
            r = it.settle(ctx.box['rest'])
            ri = r.meta.get('idx') if isinstance(r, Obj) else None
            obs = (tuple(names), vao, ri)
        elif out[1] in ('error_tok', 'error_at', 'error'):
            obs = 'error'
        else:
            obs = 'run-past-the-end'
        if len(outcomes) > 1:
            A.ob('R09.6', '%s:%s:undistinguished-spellings' % (U, fn), False,
                 'the parameter list is read as %r without looking at spellings that matter: %s' % (obs, sorted(map(str, outcomes))), where, facts)
            continue
        want = outcomes.pop()
        if want == 'error':
            key = 'malformed-list-diagnosed'
        elif want[1] is None:
            key = 'plain-list(%d)' % len(want[0])
        elif want[1] == '__VA_ARGS__':
            key = 'ellipsis(%d)' % len(want[0])
        else:
            key = 'named-variadic(%d)' % len(want[0])
        A.ob('R09.6', '%s:%s:%s' % (U, fn, key), obs == want,
             'for token classes %s the parameter reader yields %r (parameter token indices, variadic name, index of *rest); the grammar requires %r' % (cands, obs, want), where, facts)
    A.flush()
    if nret == 0:
        rep.undecided('R09.6', '%s:%s:no-return-path' % (U, fn), 'no returning path', where=where)


def r_arg_lookup(P, u, rep):
    for f in ('find_arg', 'has_varargs'):
        if f not in u.functions:
            raise AnalysisBroken('anchor %s vanished' % f)
    it = _conc(P, u)
    A = Agg(rep)
    eof, ident = u.enums.get('TK_EOF'), u.enums.get('TK_IDENT')

    def mk_args(specs):
        head = 0
        objs = []
        for nm, empty in reversed(specs):
            t = Obj('Token', lazy=False, fields={'kind': eof if empty else ident, 'loc': 'v', 'len': 1, 'next': 0})
            head = Obj('MacroArg', lazy=False, label=nm, fields={'name': nm, 'next': head, 'tok': t, 'is_va_args': 1 if nm == '__VA_ARGS__' else 0})
            objs.insert(0, head)
        return head, objs
    names = ['a', 'ab', '__VA_ARGS__']
    lists = [[], ['a'], ['ab', 'a'], ['a', 'ab', '__VA_ARGS__']]
    probes = [('a', 1), ('ab', 2), ('abc', 2), ('abc', 1), ('b', 1), ('abc', 3), ('__VA_ARGS__', 11), ('__VA_ARGS__x', 11), ('__VA_ARGS__', 4)]
    w = '%s:%d' % (U, u.fn('find_arg').line)
    for l in lists:
        for buf, n in probes:
            head, objs = mk_args([(x, False) for x in l])
            tok = Obj('Token', lazy=False, fields={'kind': ident, 'loc': buf, 'len': n, 'next': 0})
            r = it.settle(_run1(it, 'find_arg', [head, tok]))
            want = next((o for o in objs if o.fields['name'] == buf[:n]), 0)
            A.ob('R09.3', '%s:find_arg:length-and-bytes' % U, r is want or (r == 0 and want == 0),
                 'find_arg(%s, "%s") answers %s: a parameter is recognised by a prefix / not recognised, so another argument (or none) is substituted' % (l, buf[:n], getattr(r, 'label', r)), w)
    w = '%s:%d' % (U, u.fn('has_varargs').line)
    for specs, want in (([], 0), ([('__VA_ARGS__', True)], 0), ([('__VA_ARGS__', False)], 1), ([('a', False)], 0), ([('a', False), ('__VA_ARGS__', False)], 1), ([('a', False), ('__VA_ARGS__', True)], 0)):
        head, objs = mk_args(specs)
        r = it.settle(_run1(it, 'has_varargs', [head]))
        A.ob('R09.3', '%s:has_varargs:nonempty-variadic-argument' % U, isinstance(r, int) and (1 if r else 0) == want,
             'has_varargs(%s) answers %r: __VA_OPT__ would expand for an empty variadic argument or vanish for a non-empty one' % (specs, r), w)
    A.flush()


def r_definition(P, u, rep):
    fn = 'read_macro_definition'
    for f in (fn, 'read_macro_params', 'add_macro', 'copy_line'):
        if f not in u.functions:
            raise AnalysisBroken('anchor %s vanished' % f)
    rep.rule('R09.6', 'a #define introduces a function-like macro iff "(" follows the name with no white space; the name must be an identifier; parameters and body are read from the right tokens and stored in the Macro', floor=16)
    lits = literals_compared(u.fn(fn))
    lits += [x for x in ('(',) if x not in lits]
    classes = lits + [OTHER]
    ident = u.enums.get('TK_IDENT')

    def cut_params(it, ctx, n, args):
        if len(args) != 3 or not isinstance(args[0], _Ref) or not isinstance(args[2], _Ref):
            raise AnalysisBroken('read_macro_params call shape changed (line %d)' % n.line)
        r = Obj('Token', lazy=True, label='after_params')
        args[0].place.set(it, r)
        args[2].place.set(it, Sym('va_name', 'char *'))
        res = it.lazy_value('MacroParam *', 'params')
        ctx.emit('call', 'read_macro_params', args, n.line, res)
        return res

    def cut_copy_line(it, ctx, n, args):
        res = Obj('Token', lazy=True, label=ctx.fresh('line'))
        if isinstance(args[0], _Ref):
            args[0].place.set(it, Obj('Token', lazy=True, label='next_line'))
        ctx.emit('call', 'copy_line', args, n.line, res)
        return res

    def cut_add_macro(it, ctx, n, args):
        res = Obj('Macro', lazy=False, label='macro')
        ctx.emit('call', 'add_macro', args, n.line, res)
        return res

    it = PInterp(P, u, {'opaque': ['strndup'], 'cut': {'read_macro_params': cut_params, 'copy_line': cut_copy_line, 'add_macro': cut_add_macro},
                        'models': {'equal': make_equal_model(classes, False)}, 'track_stores': True})

    def mk(ctx):
        ctx.nametok = Obj('Token', lazy=True, label='name')
        ctx.box = {'rest': 0}
        return [_Ref(VarPlace(ctx.box, 'rest')), ctx.nametok]

    A = Agg(rep)
    where = '%s:%d' % (U, u.fn(fn).line)
    n_add = 0
    kinds = set()
    for ctx, out in it.explore(fn, mk):
        facts = {'path': ctx.trail}
        calls = [e for e in ctx.events if e[0] == 'call']
        adds = [e for e in calls if e[1] == 'add_macro']
        kk = ctx.nametok.fields.get('kind')
        kc = list(kk.cell.cands) if isinstance(kk, View) else None
        if out[0] != 'ret':
            continue
        A.ob('R09.6', '%s:%s:defines-once' % (U, fn), len(adds) == 1, 'a path of %s registers %d macros' % (fn, len(adds)), where, facts)
        if len(adds) != 1:
            continue
        n_add += 1
        a = adds[0]
        A.ob('R09.6', '%s:%s:name-is-identifier' % (U, fn), kc == [ident],
             'a macro is defined although the token after #define is not known to be an identifier', where, facts)
        after = it.settle(ctx.nametok.fields.get('next', 0))
        if not isinstance(after, Obj):
            rep.undecided('R09.6', '%s:%s:no-lookahead' % (U, fn), 'the token after the macro name is never inspected', where)
            continue
        hs = after.fields.get('has_space')
        hsc = list(hs.cell.cands) if isinstance(hs, View) else [0, 1]
        cc = sorted(cls_of(after) or classes)
        expect = set()
        for h in hsc:
            for c in cc:
                expect.add(0 if (h == 0 and c == '(') else 1)
        objlike = it.settle(a[2][1])
        if len(expect) > 1:
            A.ob('R09.6', '%s:%s:kind-decided-without-%s' % (U, fn, 'has_space' if len(hsc) > 1 else 'paren'), False,
                 'the macro kind (is_objlike=%r) is decided although white-space flag %s / next spelling %s leave both kinds possible: `#define f (x)` must be object-like, `#define f(x)` function-like' % (objlike, hsc, cc), where, facts)
            continue
        want = expect.pop()
        kinds.add(want)
        A.ob('R09.6', '%s:%s:%s' % (U, fn, 'objlike-iff-space-or-no-paren' if want else 'funclike-iff-paren-without-space'), objlike == want,
             'with has_space=%s and next token %s the macro is registered with is_objlike=%r (must be %d)' % (hsc, cc, objlike, want), where, facts)
        nm = a[2][0]
        sd = [e for e in calls if e[1] == 'strndup' and e[4] is nm]
        okn = bool(sd) and repr(sd[0][2][0]) == 'name.loc' and repr(sd[0][2][1]) == 'name.len'
        A.ob('R09.6', '%s:%s:name-spelling' % (U, fn), okn, 'the macro is registered under something else than the spelling (loc,len) of the name token', where, facts)
        cl = [e for e in calls if e[1] == 'copy_line']
        body_ok = len(cl) == 1 and a[2][2] is cl[0][4]
        src = as_obj(it, cl[0][2][1]) if cl else None
        if want == 1:
            A.ob('R09.6', '%s:%s:objlike-body-start' % (U, fn), body_ok and src is after,
                 'the body of an object-like macro does not start at the token after the name', where, facts)
        else:
            rp = [e for e in calls if e[1] == 'read_macro_params']
            okp = len(rp) == 1 and as_obj(it, rp[0][2][1]) is it.settle(after.fields.get('next', 0))
            A.ob('R09.6', '%s:%s:params-start-after-paren' % (U, fn), okp, 'parameters are not read from the token after "("', where, facts)
            A.ob('R09.6', '%s:%s:funclike-body-start' % (U, fn), body_ok and isinstance(src, Obj) and src.label == 'after_params',
                 'the body of a function-like macro does not start at the token read_macro_params stopped at', where, facts)
            m = a[4]
            okm = bool(rp) and m.fields.get('params') is rp[0][4] and getattr(m.fields.get('va_args_name'), 'name', None) == 'va_name'
            A.ob('R09.6', '%s:%s:params-stored' % (U, fn), okm, 'the parameter list / variadic name returned by read_macro_params is not stored in the Macro', where, facts)
        A.ob('R09.6', '%s:%s:rest-after-line' % (U, fn), bool(cl) and isinstance(cl[0][2][0], _Ref) and isinstance(ctx.box['rest'], Obj) and ctx.box['rest'].label == 'next_line',
             'the caller does not continue at the line after the definition', where, facts)
    A.flush()
    if kinds != {0, 1}:
        rep.undecided('R09.6', '%s:%s:kinds' % (U, fn), 'not both macro kinds are produced (saw is_objlike in %s)' % sorted(kinds), where=where)


def r_white_space(P, rep):
    """The white-space facts that the expansion clauses consume are produced by the tokenizer: R09.6 reads has_space of the
    token after the macro name, R09.9 (join_tokens) reads has_space of every argument token. Translation phase 3 makes a
    comment one space character, so every arm of tokenize() that consumes input without making a token is white space."""
    TU = 'tokenize.c'
    tu = P.unit(TU)
    rep.rule('R09.11', 'white space is recorded for the clauses that consume it (function-like iff "(" follows the name WITHOUT white space; # keeps one space where the argument had white space): every input-skipping arm of tokenize - blank, // comment, /* */ comment - leaves has_space set, a newline leaves at_bol or has_space set, no such arm clears has_space again except the newline arm (which sets at_bol), and new_token stores has_space into the token it makes and clears it for the next one', floor=9)
    A = Agg(rep)
    arms, problems = explore_skip_arms(P, tu)
    for line, text in problems:
        rep.undecided('R09.11', '%s:tokenize:skip-arm-not-followed' % TU, 'a statement of the tokenizer loop cannot be followed: %s' % text, where='%s:%d' % (TU, line))
    seen = {}
    for arm in arms:
        kind, init, (ab, hs) = arm['kind'], arm['init'], arm['final']
        if init[0] != 0:
            continue        # at the beginning of a line: directive recognition, not a clause of this property
        w = '%s:%d' % (TU, arm['line'])
        facts = {'path': arm['trail'], 'initial (at_bol, has_space)': init, 'final (at_bol, has_space)': (ab, hs)}
        seen[kind] = seen.get(kind, 0) + 1
        hs1 = isinstance(hs, int) and hs == 1
        ab1 = isinstance(ab, int) and ab == 1
        if kind == 'newline':
            A.ob('R09.11', '%s:tokenize:newline-is-white-space' % TU, hs1 or ab1,
                 'a newline is skipped with neither at_bol nor has_space set afterwards (from flags %s): a directive line does not end, and the line break inside an invocation leaves no trace' % (init,), w, facts)
            continue
        if init == (0, 0):
            A.ob('R09.11', '%s:tokenize:%s-sets-has_space' % (TU, kind), hs1,
                 'input is skipped (%s) without has_space being set for the next token: a comment is one space character (C11 5.1.1.2 phase 3), so `#define F/**/(x) ...` must define an OBJECT-like macro with body `(x) ...` (here it becomes function-like), and #x of `a/**/+/**/b` must give "a + b" (here "a+b")' % kind, w, facts)
        else:
            A.ob('R09.11', '%s:tokenize:%s-keeps-has_space' % (TU, kind), hs1,
                 'white space already seen is forgotten when more input is skipped (%s): `#define F /**/(x)` becomes function-like, # loses the space' % kind, w, facts)
    A.flush()
    for k in SKIP_KINDS:
        if not seen.get(k):
            rep.undecided('R09.11', '%s:tokenize:no-%s-arm' % (TU, k), 'the %s-skipping arm of tokenize was not recognised' % k, where='%s:%d' % (TU, tu.fn('tokenize').line))
    where = '%s:%d' % (TU, tu.fn('new_token').line)
    nt = new_token_flag_facts(P, tu)
    for trail, d in nt:
        rec, clr, v, g = d['has_space']
        A.ob('R09.11', '%s:new_token:records-has_space' % TU, rec,
             'new_token does not store the tokenizer\'s has_space flag into the token (stores %r): read_macro_definition and join_tokens see no white space' % (v,), where, {'path': trail})
        A.ob('R09.11', '%s:new_token:clears-has_space' % TU, clr,
             'new_token leaves has_space set (%r) for the following token: `#define F (x)`-style white space is attributed to the wrong token (`a +b` stringizes as "a + b")' % (g,), where, {'path': trail})
    A.flush()
    if not nt:
        rep.undecided('R09.11', '%s:new_token:no-path' % TU, 'new_token has no returning path', where=where)
    # -- a line break inside an argument is white space for # (C11 6.10.3p10, 6.10.3.2p2): join_tokens on the flag states
    #    the newline arm really leaves behind
    u = P.unit(U)
    for f in ('join_tokens', 'read_macro_arg_one', 'read_macro_args', 'copy_token'):
        if f not in u.functions:
            raise AnalysisBroken('anchor %s vanished' % f)
    states = sorted(set(a['final'] for a in arms if a['kind'] == 'newline' and a['init'][0] == 0 and all(isinstance(x, int) for x in a['final'])))
    # (what read_macro_arg_one itself leaves in has_space of the tokens it collects is decided path by path: R09.18 argument-token-has_space-kept)
    rewr = [m.name for f, fl in (('read_macro_arg_one', ('at_bol',)), ('read_macro_args', ('at_bol', 'has_space'))) for b in u.fn(f).walk()
            if b.kind in ('BinaryOperator', 'CompoundAssignOperator') and b.opcode and b.opcode.endswith('=') and b.opcode not in ('==', '!=', '<=', '>=')
            for m in [b.inner[0].strip()] if m.kind == 'MemberExpr' and m.name in fl]
    wj = '%s:%d' % (U, u.fn('join_tokens').line)
    if rewr:
        rep.undecided('R09.9', '%s:join_tokens:newline-inside-argument' % U, 'the argument reader rewrites %s of the tokens it copies; the rule cannot tell which flag state reaches join_tokens' % sorted(set(rewr)), where=wj)
    elif not states:
        rep.undecided('R09.9', '%s:join_tokens:newline-inside-argument' % U, 'the flag state after a skipped newline is not concrete', where=wj)
    else:
        eof, ident = u.enums.get('TK_EOF'), u.enums.get('TK_IDENT')
        it = _conc(P, u, models={'calloc': _m_calloc_buf, 'strncpy': _m_strncpy})
        for ab, hs in states:
            toks = mk_tokens([{'loc': 'a'}, {'loc': '+', 'at_bol': ab, 'has_space': hs}, {'loc': 'b'}], eof, ident)
            ctx, r = _run1ctx(it, 'join_tokens', [toks[0], 0] + [0] * (len(u.params('join_tokens')) - 2))
            try:
                got = _cstr(r)
            except _Opaque as e:
                rep.undecided('R09.9', '%s:join_tokens:not-concrete' % U, 'the interpreter cannot follow join_tokens to a concrete string (%s)' % e, where=wj)
                continue
            A.ob('R09.9', '%s:join_tokens:newline-inside-argument' % U, got == 'a +b',
                 'a token that follows a line break inside a macro argument carries (at_bol, has_space) = (%d, %d) out of tokenize(), read_macro_arg_one copies it unchanged, and join_tokens looks at has_space only: #x of `a<newline>+b` gives %r instead of "a +b" (new-line is ordinary white space inside an invocation, C11 6.10.3p10, and white space between argument tokens becomes one space, 6.10.3.2p2)' % (ab, hs, got),
                 wj, {'token state after newline': (ab, hs), 'got': got})
        A.flush()


PPNUM_SAMPLES = [
    # (text, category): the category names the clause of the pp-number grammar (C11 6.4.8) the text exercises
    ('1+2', 'ends-before-operator'), ('12;', 'ends-before-operator'), ('7 ', 'ends-before-operator'), ('3)', 'ends-before-operator'), ('1-x', 'ends-before-operator'),
    ('1e+X ', 'e-sign-continues'), ('1E-5+2', 'e-sign-continues'), ('1.5e+3f+2', 'e-sign-continues'), ('9e+', 'e-sign-continues'),
    ('0xE+BASE;', 'e-sign-continues-after-hex-prefix'), ('0x1e-E ', 'e-sign-continues-after-hex-prefix'), ('0XAE+1', 'e-sign-continues-after-hex-prefix'), ('0xe-x,', 'e-sign-continues-after-hex-prefix'),
    ('0x1p-3;', 'p-sign-continues'), ('0XA.Ep+B;', 'p-sign-continues'), ('1P-x ', 'p-sign-continues'), ('2p+2+2', 'p-sign-continues'),
    ('1a+2', 'other-letter-sign-ends'), ('0xf+1', 'other-letter-sign-ends'), ('1d-1', 'other-letter-sign-ends'), ('1x+y', 'other-letter-sign-ends'),
    ('1.5.6+', 'period-continues'), ('1..2 ', 'period-continues'), ('3.x', 'period-continues'), ('1.e+.5-', 'period-continues'),
    ('.5e-1+x', 'leading-period-digit'), ('.5.', 'leading-period-digit'),
    ('12ab.c9d+', 'letters-and-digits-continue'), ('0b101+1', 'letters-and-digits-continue'), ('1ULL*', 'letters-and-digits-continue'), ('1e', 'letters-and-digits-continue'),
    ('1_000+2', 'underscore-continues'), ('0x_f;', 'underscore-continues'), ('1e_+2', 'underscore-continues'),
]


TOKEN_SAMPLES = [
    # identifiers (C11 6.4.2.1; $ is accepted like gcc does): the longest run of letters, digits, underscore
    ('abc+1', 'identifier-ends-before-operator'), ('a_b c', 'identifier-ends-before-operator'), ('f(x)', 'identifier-ends-before-operator'), ('a.b', 'identifier-ends-before-operator'), ('a##b', 'identifier-ends-before-operator'), ('x#y', 'identifier-ends-before-operator'),
    ('_a1b2(', 'identifier-digits-and-underscore-continue'), ('x1 ', 'identifier-digits-and-underscore-continue'), ('__VA_ARGS__)', 'identifier-digits-and-underscore-continue'), ('a__1_,', 'identifier-digits-and-underscore-continue'), ('e1+2', 'identifier-digits-and-underscore-continue'),
    # the punctuators the macro clauses depend on (C11 6.4.6, longest match)
    ('##x', 'punctuator-paste-operator'), ('## #', 'punctuator-paste-operator'), ('###', 'punctuator-paste-operator'),
    ('#x', 'punctuator-hash'), ('# #', 'punctuator-hash'), ('#(', 'punctuator-hash'),
    ('...)', 'punctuator-ellipsis'), ('....', 'punctuator-ellipsis'),
    ('..x', 'punctuator-period'), ('.x', 'punctuator-period'), ('.,', 'punctuator-period'),
    ('(a', 'punctuator-parenthesis-comma'), (')(', 'punctuator-parenthesis-comma'), (',b', 'punctuator-parenthesis-comma'), ('((', 'punctuator-parenthesis-comma'), (',,', 'punctuator-parenthesis-comma'),
]


def _ppnum_oracle(text):
    import re
    m = re.match(r'\.?[0-9](?:[eEpP][+-]|[0-9A-Za-z_.])*', text)
    return m.group(0) if m else None


def _token_oracle(text):
    """(kind name, spelling) of the first preprocessing token of an ASCII text that starts with a digit, a period, a letter,
    underscore, #, ( ) or comma"""
    import re
    n = _ppnum_oracle(text)
    if n:
        return 'TK_PP_NUM', n
    m = re.match(r'[A-Za-z_$][A-Za-z_$0-9]*', text)
    if m:
        return 'TK_IDENT', m.group(0)
    for pct in ('...', '##', '#', '(', ')', ',', '.'):
        if text.startswith(pct):
            return 'TK_PUNCT', pct
    return None


def r_pp_number(P, rep):
    """Token boundaries are an input of macro replacement: what is one pp-number is never looked at for macro names, and
    is one operand of # and ##; an identifier is looked up under its whole spelling; #, ##, ( , ) and ... are the
    punctuators the macro clauses test. C11 6.4.8: pp-number = [.]digit (digit | identifier-nondigit | e sign | E sign |
    p sign | P sign | .)* - whatever the prefix. Decided by running one round of tokenize()'s loop on concrete texts."""
    from ..lib_c09y import first_tokens
    TU = 'tokenize.c'
    tu = P.unit(TU)
    rep.rule('R09.17', 'the preprocessing tokens macro replacement works on are cut as C11 6.4 prescribes: a preprocessing number is an optional period and a digit, continued by digits, letters, underscore, periods and by e/E/p/P immediately followed by + or - whatever its prefix (so `0xE+BASE` and `1_000` are ONE token each: BASE and _000 are not macro names there, and # / ## see one operand); an identifier is the longest run of letters, digits and underscore; ##, #, ..., ( ) and comma are punctuators by longest match - one round of the tokenize() loop run by the interpreter on concrete texts', floor=16)
    A = Agg(rep)
    samples = PPNUM_SAMPLES + TOKEN_SAMPLES
    res, line = first_tokens(P, tu, [t for t, c in samples])
    where = '%s:%d' % (TU, line)
    kinds = {tu.enums.get(k): k for k in ('TK_PP_NUM', 'TK_IDENT', 'TK_PUNCT', 'TK_NUM', 'TK_STR', 'TK_KEYWORD', 'TK_EOF') if tu.enums.get(k) is not None}
    for text, cat in samples:
        want = _token_oracle(text)
        got = res.get(text)
        got = (kinds.get(got[0], got[0]), got[1]) if got else None
        key = '%s:tokenize:%s' % (TU, cat if cat.startswith(('identifier', 'punctuator')) else 'pp-number-' + cat)
        if cat.startswith(('identifier', 'punctuator')):
            why = 'macro names are looked up, parameters recognised and the operators # / ## / ... / ( , ) tested on these tokens'
        else:
            why = 'a different token changes which identifiers macro replacement sees and what # and ## take as one operand: with `#define BASE 1`, `#define STR(x) #x`, `#define XSTR(x) STR(x)`, XSTR(0xE+BASE) must be "0xE+BASE"; `1_000` must not be `1` followed by the macro name `_000`'
        A.ob('R09.17', key, got == want,
             'on the text %r the tokenizer makes the token %r; C11 6.4 makes the first preprocessing token %r (%s)' % (text, got, want, why),
             where, {'text': text, 'token': got, 'C11': want})
    A.flush()


def _m_memcpy(it, ctx, n, args):
    """memcpy(d, s, k) into a concrete buffer from a concrete string: the k bytes of s (its terminator included if k reaches it)"""
    d, sx, k = args[0], args[1], it.settle(args[2])
    if not (isinstance(d, _Ref) and isinstance(d.place, ElemPlace) and isinstance(sx, str) and isinstance(k, int)):
        raise AnalysisBroken('memcpy shape not understood at line %d' % n.line)
    if k > len(sx) + 1:
        raise AnalysisBroken('memcpy reads past the end of its source at line %d' % n.line)
    for i in range(k):
        ElemPlace(d.place.arr, d.place.i + i).set(it, ord(sx[i]) if i < len(sx) else 0)
    return d


def _m_strchr_conc(it, ctx, n, args):
    s_, c = args[0], it.settle(args[1])
    if not isinstance(s_, str) or not isinstance(c, int) or c == 0:
        raise AnalysisBroken('strchr() on operands that are not concrete (line %d)' % n.line)
    i = s_.find(chr(c & 0xff))
    return s_[i:] if i >= 0 else 0


def _conc(P, u, **kw):
    cfg = {'track_stores': False, 'loop_limit': 0, 'rec_limit': 64}
    models = {'memcpy': _m_memcpy, 'strchr': _m_strchr_conc}
    models.update(kw.pop('models', {}) or {})
    cfg.update(kw)
    cfg['models'] = models
    return PInterp(P, u, cfg)


def _run1(it, fname, args):
    """single concrete evaluation; anything that forks or does not return is 'not concrete'"""
    paths = it.explore(fname, lambda ctx: list(args), max_paths=64)
    if len(paths) != 1 or paths[0][1][0] != 'ret':
        raise AnalysisBroken('%s does not evaluate to one result on concrete input (%d paths%s)' % (
            fname, len(paths), '' if not paths else ', ' + str(paths[0][1][:2])))
    return paths[0][1][1]


def r_hideset_prims(P, u, rep):
    for f in ('hideset_union', 'hideset_intersection', 'hideset_contains', 'new_hideset', 'add_hideset', 'append', 'copy_token'):
        if f not in u.functions:
            raise AnalysisBroken('anchor %s vanished' % f)
    rep.rule('R09.7', 'hide-set primitives, evaluated by the interpreter on all pairs of lists of length <= 2 over {a, ab, b}: union keeps every name of both, intersection keeps exactly the common names, membership compares length and bytes; add_hideset extends every token of a list on fresh copies; append copies the first list (without its EOF) in front of the second', floor=9)
    names = ['a', 'ab', 'b']
    lists = [[]] + [[x] for x in names] + [[x, y] for x in names for y in names]
    it = _conc(P, u)
    A = Agg(rep)
    ln = lambda f: '%s:%d' % (U, u.fn(f).line)
    for l1 in lists:
        for l2 in lists:
            h1, h2 = mk_hideset(l1), mk_hideset(l2)
            r = hideset_names(it, _run1(it, 'hideset_union', [h1, h2]))
            A.ob('R09.7', '%s:hideset_union:keeps-all-of-both' % U, r is not None and set(r) == set(l1) | set(l2),
                 'hideset_union(%s, %s) yields %s: a name of one operand is lost (its macro becomes expandable again -> possible non-termination) or a foreign name appears' % (l1, l2, r), ln('hideset_union'), {'hs1': l1, 'hs2': l2, 'result': r})
            A.ob('R09.7', '%s:hideset_union:operands-unchanged' % U, hideset_names(it, h1) == l1 and hideset_names(it, h2) == l2,
                 'hideset_union modifies an operand list in place (hide sets are shared between tokens)', ln('hideset_union'), {'hs1': l1, 'hs2': l2})
            h1, h2 = mk_hideset(l1), mk_hideset(l2)
            r = hideset_names(it, _run1(it, 'hideset_intersection', [h1, h2]))
            A.ob('R09.7', '%s:hideset_intersection:exactly-common-names' % U, r is not None and set(r) == set(l1) & set(l2),
                 'hideset_intersection(%s, %s) yields %s instead of exactly the common names' % (l1, l2, r), ln('hideset_intersection'), {'hs1': l1, 'hs2': l2, 'result': r})
    probes = [('a', 1), ('ab', 2), ('abc', 2), ('abc', 1), ('b', 1), ('ba', 1), ('abc', 3), ('', 0)]
    for l1 in lists:
        for buf, n in probes:
            r = it.settle(_run1(it, 'hideset_contains', [mk_hideset(l1), buf, n]))
            want = 1 if buf[:n] in l1 else 0
            A.ob('R09.7', '%s:hideset_contains:length-and-bytes' % U, isinstance(r, int) and (1 if r else 0) == want,
                 'hideset_contains(%s, "%s", %d) answers %r (name "%s" is %sin the set): a prefix or a longer name is taken for the name' % (l1, buf, n, r, buf[:n], '' if want else 'not '), ln('hideset_contains'), {'set': l1, 'probe': buf[:n], 'result': r})
    # add_hideset / append on concrete token lists
    eof, ident = u.enums.get('TK_EOF'), u.enums.get('TK_IDENT')
    if eof is None or ident is None:
        raise AnalysisBroken('TokenKind enumerators vanished')
    for hs_tok in ([[], []], [['a'], []], [['b'], ['a', 'b']]):
        for extra in ([], ['ab'], ['a', 'b']):
            toks = mk_tokens([{'loc': 'x', 'hideset': hs_tok[0], 'at_bol': 1}, {'loc': 'y', 'hideset': hs_tok[1], 'has_space': 1}], eof, ident)
            r = _run1(it, 'add_hideset', [toks[0], mk_hideset(extra)])
            out, tail = chain(it, r)
            ok = len(out) == len(toks) and isinstance(tail, int) and tail == 0
            A.ob('R09.7', '%s:add_hideset:same-length' % U, ok, 'add_hideset returns %d tokens for a list of %d (EOF included)' % (len(out), len(toks)), ln('add_hideset'))
            if not ok:
                continue
            for o, t, h in zip(out, toks, hs_tok + [[]]):
                got = hideset_names(it, o.fields.get('hideset', 0))
                A.ob('R09.7', '%s:add_hideset:every-token-extended' % U, got is not None and set(got) == set(h) | set(extra),
                     'after add_hideset(%s) a token with hide set %s carries %s: the macro name is missing from (or the old set is dropped from) a replacement token' % (extra, h, got), ln('add_hideset'), {'token': t.label})
                A.ob('R09.7', '%s:add_hideset:fresh-copies' % U, o is not t and hideset_names(it, t.fields.get('hideset', 0)) == h,
                     'add_hideset modifies the macro body in place (later expansions of the same macro inherit stale hide sets)', ln('add_hideset'))
                same = all(o.fields.get(f) == t.fields.get(f) for f in ('kind', 'loc', 'len', 'at_bol', 'has_space'))
                A.ob('R09.7', '%s:add_hideset:other-fields-kept' % U, same, 'add_hideset changes kind/spelling/white-space flags of a token', ln('add_hideset'))
    for n1, fv in ((0, 0), (1, 0), (2, 0), (0, 1), (1, 1), (2, 1)):
        t1 = mk_tokens([{'loc': 'p%d' % i, 'has_space': (i + fv) % 2} for i in range(n1)], eof, ident)
        t2 = mk_tokens([{'loc': 'q', 'has_space': fv}], eof, ident)
        r = _run1(it, 'append', [t1[0], t2[0]])
        out, tail = chain(it, r)
        locs = [o.fields.get('loc') for o in out]
        want = ['p%d' % i for i in range(n1)] + ['q', '']
        A.ob('R09.7', '%s:append:first-without-eof-then-second' % U, locs == want,
             'append(list of %d tokens, [q]) yields spellings %s instead of %s' % (n1, locs, want), ln('append'))
        A.ob('R09.7', '%s:append:second-list-shared-first-copied' % U, len(out) >= n1 + 1 and out[n1] is t2[0] and all(out[i] is not t1[i] for i in range(n1)) and [o.fields.get('loc') for o in chain(it, t1[0])[0]] == ['p%d' % i for i in range(n1)] + [''],
             'append links the macro body itself into the output (the stored body is corrupted by later splices) or copies the continuation', ln('append'))
        if locs == want:
            got_f = [it.settle(o.fields.get('has_space', 0)) for o in out[:n1 + 1]]
            want_f = [(i + fv) % 2 for i in range(n1)] + [fv]
            A.ob('R09.18', '%s:append:has_space-of-both-lists-kept' % U, got_f == want_f,
                 'append(list of %d tokens, [q]) leaves has_space %s in the spliced tokens where the operands had %s: the white space inside a replacement, or before the token that follows the invocation, changes in a later stringification' % (n1, got_f, want_f), ln('append'))
    A.flush()


def _m_calloc_buf(it, ctx, n, args):
    """calloc used for a char buffer: an array of known size (overflow is visible as growth)"""
    a, b = it.settle(args[0]), it.settle(args[1])
    if not (isinstance(a, int) and isinstance(b, int)):
        raise AnalysisBroken('buffer size is not concrete at line %d' % n.line)
    arr = Arr([0] * (a * b), label='buf')
    ctx.bufs = getattr(ctx, 'bufs', []) + [(arr, a * b)]
    return _Ref(ElemPlace(arr, 0))


def _m_strncpy(it, ctx, n, args):
    d, sx, k = args[0], args[1], it.settle(args[2])
    if not (isinstance(d, _Ref) and isinstance(d.place, ElemPlace) and isinstance(sx, str) and isinstance(k, int)):
        raise AnalysisBroken('strncpy shape not understood at line %d' % n.line)
    for i in range(k):
        ElemPlace(d.place.arr, d.place.i + i).set(it, ord(sx[i]) if i < len(sx) else 0)
    return d


class _Opaque(Exception):
    pass


def _cstr(v):
    """C string behind a char* value; None = no terminating NUL inside the buffer; raises _Opaque when not concrete"""
    if isinstance(v, _Ref) and isinstance(v.place, ElemPlace) and isinstance(v.place.arr, Arr) and isinstance(v.place.i, int):
        out = []
        for c in v.place.arr.elems[v.place.i:]:
            if not isinstance(c, int):
                raise _Opaque(repr(c))
            if c == 0:
                return ''.join(out)
            out.append(chr(c & 0xff))
        return None     # unterminated
    if isinstance(v, str):
        return v
    raise _Opaque(repr(v))


def _run1ctx(it, fname, args):
    paths = it.explore(fname, lambda ctx: list(args), max_paths=64)
    if len(paths) != 1 or paths[0][1][0] != 'ret':
        raise AnalysisBroken('%s does not evaluate to one result on concrete input' % fname)
    return paths[0][0], paths[0][1][1]


def _m_format_concrete(it, ctx, n, args):
    """format() with a literal template over %s, %.*s, %c, %d and concrete operands"""
    f = args[0]
    if not isinstance(f, str):
        raise AnalysisBroken('format() with a template that is not a literal at line %d' % n.line)
    out, i, k = [], 0, 1

    def nxt():
        nonlocal k
        if k >= len(args):
            raise AnalysisBroken('format() has too few operands at line %d' % n.line)
        v = args[k]
        k += 1
        return v
    while i < len(f):
        if f[i] != '%':
            out.append(f[i]); i += 1
            continue
        if f.startswith('%%', i):
            out.append('%'); i += 2
        elif f.startswith('%.*s', i):
            w, v = it.settle(nxt()), nxt()
            v = _cstr(v) if not isinstance(v, str) else v
            if not isinstance(w, int) or v is None:
                raise AnalysisBroken('format() operand not concrete at line %d' % n.line)
            out.append(v[:w]); i += 4
        elif f.startswith('%s', i):
            v = nxt()
            try:
                v = _cstr(v)
            except _Opaque as e:
                raise AnalysisBroken('format() operand not concrete at line %d (%s)' % (n.line, e))
            if v is None:
                raise AnalysisBroken('format() operand unterminated at line %d' % n.line)
            out.append(v); i += 2
        elif f.startswith('%c', i) or f.startswith('%d', i):
            v = it.settle(nxt())
            if not isinstance(v, int):
                raise AnalysisBroken('format() operand not concrete at line %d' % n.line)
            out.append(chr(v & 0xff) if f[i + 1] == 'c' else str(v)); i += 2
        else:
            raise AnalysisBroken('format() conversion not modelled at line %d: %r' % (n.line, f[i:i + 4]))
    return ''.join(out)


def _stringize_oracle(spec, literal_kinds):
    """C11 6.10.3.2p2"""
    out = []
    for i, (sp_, kind, hs) in enumerate(spec):
        if i and hs:
            out.append(' ')
        out.append(sp_.replace('\\', '\\\\').replace('"', '\\"') if kind in literal_kinds else sp_)
    return '"' + ''.join(out) + '"'


def _stringize_text(P, u, rep, A, ln):
    """R09.9: run stringize(hash, operand) by the interpreter on concrete operand token lists; tokenize/new_file are
    replaced by models that keep the text. The helper structure below stringize is free."""
    eof, ident = u.enums.get('TK_EOF'), u.enums.get('TK_IDENT')
    K = {k: u.enums.get(k) for k in ('TK_STR', 'TK_NUM', 'TK_PUNCT', 'TK_IDENT', 'TK_PP_NUM')}
    if any(v is None for v in K.values()):
        raise AnalysisBroken('token kinds vanished: %s' % sorted(k for k, v in K.items() if v is None))
    if len(u.params('stringize')) != 2:
        rep.undecided('R09.9', '%s:stringize:signature' % U, 'stringize no longer takes (the # token, the operand list)', where=ln('stringize'))
        return

    def m_new_file(it, ctx, n, args):
        o = Obj('File', lazy=True, label=ctx.fresh('file'))
        o.meta['text'] = args[-1] if args else None
        return o

    def m_tokenize(it, ctx, n, args):
        f = as_obj(it, args[0], n) if args else None
        t = Obj('Token', lazy=True, label=ctx.fresh('tokenized'))
        t.meta['text'] = f.meta.get('text') if isinstance(f, Obj) else None
        ctx.tokenized = getattr(ctx, 'tokenized', []) + [t]
        return t
    it = _conc(P, u, models={'calloc': _m_calloc_buf, 'strncpy': _m_strncpy, 'new_file': m_new_file, 'tokenize': m_tokenize, 'format': _m_format_concrete})
    S, N, Pn, I, PPN = 'TK_STR', 'TK_NUM', 'TK_PUNCT', 'TK_IDENT', 'TK_PP_NUM'
    cases = [
        ('joins-argument-then-quotes', [('a', I, 0), ('+', Pn, 1), ('b', I, 0)]),
        ('backslash-outside-literal', [('\\', Pn, 0), ('n', I, 0)]),
        ('backslash-outside-literal', [('a', I, 1), ('\\', Pn, 0), ('b', I, 0), ('1', PPN, 1)]),
        ('string-literal', [('"a\\n"', S, 0)]),
        ('string-literal', [('u8"q\\""', S, 1), ('x', I, 1)]),
        ('character-constant', [("'\\\\'", N, 0)]),
        ('character-constant', [("L'\\0'", N, 0), ("'\"'", N, 1)]),
        ('literal-and-other-tokens', [('\\', Pn, 0), ('x41', I, 0), ('"\\\\"', S, 1)]),
    ]
    for name, spec in cases:
        toks = mk_tokens([{'loc': sp_, 'has_space': hs, 'at_bol': 0} for sp_, kind, hs in spec], eof, ident)
        for t_, (sp_, kind, hs) in zip(toks, spec):
            t_.fields['kind'] = K[kind]
        want = _stringize_oracle(spec, (S, N))
        hash_ = Obj('Token', lazy=True, label='hash')
        try:
            ctx, r = _run1ctx(it, 'stringize', [hash_, toks[0]])
            ro = as_obj(it, r)
            got = ro.meta.get('text') if isinstance(ro, Obj) else None
            got = got if isinstance(got, str) else _cstr(got)
        except (AnalysisBroken, _Opaque, NotConcrete) as e:
            rep.undecided('R09.9', '%s:stringize:%s' % (U, name), 'the interpreter cannot follow stringize on the operand %s to the text it tokenizes (%s)' % ([x[0] for x in spec], e), where=ln('stringize'))
            continue
        if got is None:
            rep.undecided('R09.9', '%s:stringize:%s' % (U, name), 'stringize does not return a token of a tokenize()d buffer', where=ln('stringize'))
            continue
        if got == want:
            key = name if name == 'joins-argument-then-quotes' else name + '-spelled'
        elif got.count('\\') > want.count('\\') and any(kind not in (S, N) and '\\' in sp_ for sp_, kind, hs in spec):
            key = 'backslash-outside-literal-doubled'
        elif got.count('\\') < want.count('\\'):
            key = 'literal-not-escaped'
        else:
            key = name + '-wrong'
        A.ob('R09.9', '%s:stringize:%s' % (U, key), got == want,
             '# applied to the operand %s spells the string literal %s; C11 6.10.3.2p2 requires %s: a \\ is inserted before each " and \\ of a string literal or character constant of the operand '
             'and NOWHERE else (`#define S(x) #x` / S(\\n) is "\\n", a string of one new-line character, not "\\\\n")' % ([x[0] for x in spec], got, want),
             ln('stringize'), {'operand': spec, 'got': got, 'want': want})
        over = [(len(arr.elems), size) for arr, size in getattr(ctx, 'bufs', []) if len(arr.elems) > size]
        A.ob('R09.9', '%s:stringize:buffer-size' % U, not over, 'stringizing %s writes past a buffer (%s)' % ([x[0] for x in spec], over), ln('stringize'))


def r_stringize(P, u, rep):
    for f in ('quote_string', 'join_tokens', 'stringize', 'new_str_token', 'paste'):
        if f not in u.functions:
            raise AnalysisBroken('anchor %s vanished' % f)
    rep.rule('R09.9', 'stringizing: join_tokens puts one space before a token iff it has has_space and is not the first; quote_string (the string of __FILE__ and the like) wraps in quotes and escapes exactly \" and \\ within the allocated size; stringize spells its operand between quotes with a \\ before each \" and \\ of the string literals and character constants in it and nowhere else (run on concrete operands); new_str_token feeds its string through quote_string; paste concatenates lhs then rhs and rejects a result that is more than one token', floor=8)
    A = Agg(rep)
    ln = lambda f: '%s:%d' % (U, u.fn(f).line)
    it = _conc(P, u, models={'calloc': _m_calloc_buf, 'strncpy': _m_strncpy})
    # quote_string
    for sx in ['', 'a', 'a"b', 'a\\b', '\\', '"', '\\"', 'x\\n"y"', "'\\\\'"]:
        ctx, r = _run1ctx(it, 'quote_string', [sx])
        try:
            got = _cstr(r)
        except _Opaque as e:
            rep.undecided('R09.9', '%s:quote_string:not-concrete' % U, 'the interpreter cannot follow quote_string(%r) to a concrete string (%s)' % (sx, e), where=ln('quote_string'))
            continue
        want = '"' + sx.replace('\\', '\\\\').replace('"', '\\"') + '"'
        bad = 'backslash' if ('\\' in sx and (got is None or got.count('\\') < want.count('\\'))) else ('quote' if '"' in sx else 'plain')
        A.ob('R09.9', '%s:quote_string:escapes-%s' % (U, 'quote-and-backslash' if got == want else bad), got == want,
             'quote_string(%r) yields %r, C11 6.10.3.2p2 requires %r: the stringized literal denotes a different string than the argument spells' % (sx, got, want), ln('quote_string'), {'input': sx, 'got': got, 'want': want})
        over = [(len(arr.elems), size) for arr, size in getattr(ctx, 'bufs', []) if len(arr.elems) > size]
        A.ob('R09.9', '%s:quote_string:buffer-size' % U, not over, 'quote_string(%r) writes %s bytes into a buffer of %s' % (sx, over[0][0] if over else 0, over[0][1] if over else 0), ln('quote_string'))
    # join_tokens
    eof, ident = u.enums.get('TK_EOF'), u.enums.get('TK_IDENT')
    cases = [([('a', 0), ('+', 1), ('b', 0), ('c', 1)], 'a +b c'), ([('a', 1), ('b', 1)], 'a b'), ([('a', 0)], 'a'), ([], ''), ([('x', 1), ('y', 0)], 'xy')]
    for spec, want in cases:
        toks = mk_tokens([{'loc': l, 'has_space': h, 'at_bol': 0} for l, h in spec], eof, ident)
        ctx, r = _run1ctx(it, 'join_tokens', [toks[0], 0] + [0] * (len(u.params('join_tokens')) - 2))
        try:
            got = _cstr(r)
        except _Opaque as e:
            rep.undecided('R09.9', '%s:join_tokens:not-concrete' % U, 'the interpreter cannot follow join_tokens to a concrete string (%s)' % e, where=ln('join_tokens'))
            continue
        first_sp = bool(spec) and spec[0][1] == 1
        key = 'spacing' if got == want else ('leading-space' if got is not None and got.startswith(' ') and first_sp else ('missing-space' if got is not None and got.replace(' ', '') == want.replace(' ', '') and len(got) < len(want) else 'spacing-wrong'))
        A.ob('R09.9', '%s:join_tokens:%s' % (U, key), got == want,
             'join_tokens over %s yields %r instead of %r (# must keep exactly one space where the argument had white space and none at the ends)' % (spec, got, want), ln('join_tokens'), {'tokens': spec})
        over = [(len(arr.elems), size) for arr, size in getattr(ctx, 'bufs', []) if len(arr.elems) > size]
        A.ob('R09.9', '%s:join_tokens:buffer-size' % U, not over, 'join_tokens writes past its buffer (%s)' % (over,), ln('join_tokens'))
    toks = mk_tokens([{'loc': 'a'}, {'loc': 'b', 'has_space': 1}, {'loc': 'c', 'has_space': 1}], eof, ident)
    ctx, r = _run1ctx(it, 'join_tokens', [toks[0], toks[2]] + [0] * (len(u.params('join_tokens')) - 2))
    try:
        A.ob('R09.9', '%s:join_tokens:stops-at-end' % U, _cstr(r) == 'a b', 'join_tokens(tok, end) does not stop before `end` (got %r)' % _cstr(r), ln('join_tokens'))
    except _Opaque as e:
        rep.undecided('R09.9', '%s:join_tokens:not-concrete' % U, 'the interpreter cannot follow join_tokens to a concrete string (%s)' % e, where=ln('join_tokens'))
    # stringize as a whole, run on concrete operands: the text it hands to tokenize()
    _stringize_text(P, u, rep, A, ln)
    it3 = PInterp(P, u, {'opaque': ['quote_string', 'new_file', 'tokenize']})
    for ctx, out in it3.explore('new_str_token', lambda ctx: [Sym('str', 'char *'), Obj('Token', lazy=True, label='tmpl')]):
        d = Desc(it3, ctx).of(out[1]) if out[0] == 'ret' else ('leaf', 'noreturn')
        A.ob('R09.9', '%s:new_str_token:quotes-then-tokenizes' % U, show(d) == 'tokenize(new_file(tmpl.file.name, tmpl.file.file_no, quote_string(str)))',
             'new_str_token returns %s: the string is not passed through quote_string before being tokenized' % show(d), ln('new_str_token'))
    # paste
    tk_eof = u.enums.get('TK_EOF')
    it4 = PInterp(P, u, {'opaque': ['new_file', 'tokenize'], 'cut': {'format': None}})
    nret = nerr = 0
    for ctx, out in it4.explore('paste', lambda ctx: [Obj('Token', lazy=True, label='lhs'), Obj('Token', lazy=True, label='rhs')]):
        D = Desc(it4, ctx)
        fm = [e for e in ctx.events if e[0] == 'call' and e[1] == 'format']
        if fm:
            a = [show(D.of(x)) for x in fm[0][2]]
            A.ob('R09.9', '%s:paste:lhs-then-rhs' % U, a == ['%.*s%.*s', 'lhs.len', 'lhs.loc', 'rhs.len', 'rhs.loc'],
                 'paste builds the new spelling from %s instead of ("%%.*s%%.*s", lhs->len, lhs->loc, rhs->len, rhs->loc): operands swapped or truncated' % a, ln('paste'))
        if out[0] == 'ret':
            nret += 1
            t = as_obj(it4, out[1])
            d = D.of(out[1])
            nx = as_obj(it4, t.fields.get('next', 0)) if isinstance(t, Obj) and 'next' in t.fields else None
            k = it4.settle(nx.fields.get('kind')) if isinstance(nx, Obj) and 'kind' in nx.fields else None
            A.ob('R09.9', '%s:paste:single-token-result' % U, show(d).startswith('tokenize(new_file(') and k == tk_eof,
                 'paste returns %s without having established that the pasted spelling lexes to exactly one token (a ## b forming two tokens must be diagnosed)' % show(d), ln('paste'), {'path': ctx.trail})
        elif out[1] in ('error_tok', 'error_at', 'error'):
            nerr += 1
    A.flush()
    if not nret or not nerr:
        rep.undecided('R09.9', '%s:paste:paths' % U, 'paste has %d returning and %d diagnosing paths' % (nret, nerr), where=ln('paste'))


BUILTINS = ('__FILE__', '__LINE__', '__COUNTER__', '__TIMESTAMP__', '__BASE_FILE__')


def _origin_chain(it, tmpl):
    out = [tmpl]
    v = tmpl
    while len(out) < 8:
        o = v.fields.get('origin')
        if o is None:
            break
        o = it.settle(o)
        if not isinstance(o, Obj):
            break
        out.append(o)
        v = o
    return out


def _outermost(it, x):
    o = x.fields.get('origin')
    if o is None:
        return False
    o = it.settle(o)
    return isinstance(o, int) and o == 0


def r_builtins(P, u, rep, eit, epaths):
    fn = 'expand_macro'
    for f in ('init_macros', 'add_builtin', 'add_macro', 'new_num_token', 'new_str_token'):
        if f not in u.functions:
            raise AnalysisBroken('anchor %s vanished' % f)
    rep.rule('R09.8', 'the five dynamic macros are registered with a handler of the right behaviour (__LINE__/__FILE__ from the outermost invocation, __COUNTER__ counts up by one per use), the handler test precedes the ordinary expansion paths and its result replaces exactly the one macro token', floor=16)
    A = Agg(rep)
    ln = lambda f: '%s:%d' % (U, u.fn(f).line)
    # -- application path
    for ctx, out, rest in epaths:
        ic = [e for e in ctx.events if e[0] == 'icall']
        if not ic:
            continue
        D = Desc(eit, ctx)
        facts = {'path': ctx.trail}
        e = ic[0]
        names = [x[1] for x in ctx.events if x[0] == 'call']
        A.ob('R09.8', '%s:%s:handler-called-with-macro-token' % (U, fn), strip_ids(repr(e[1])) == 'find_macro.handler' and [show(D.of(a)) for a in e[2]] == ['tok'],
             'the dynamic macro handler is invoked as %s(%s) instead of m->handler(tok)' % (strip_ids(repr(e[1])), ', '.join(show(D.of(a)) for a in e[2])), '%s:%d' % (U, e[3]), facts)
        A.ob('R09.8', '%s:%s:handler-before-ordinary-expansion' % (U, fn), not any(nm in ('add_hideset', 'append', 'subst', 'read_macro_args') for nm in names),
             'a dynamic macro (registered with a NULL body) also runs the ordinary replacement path (%s)' % names, ln(fn), facts)
        r = as_obj(eit, rest) if not (isinstance(rest, int)) else None
        okr = isinstance(r, Obj) and show(D.of(r)) == '<handler>(tok)'
        A.ob('R09.8', '%s:%s:handler-result-spliced' % (U, fn), okr and out[0] == 'ret' and eit.settle(out[1]) == 1,
             'the handler\'s token is not handed back through *rest with result true', ln(fn), facts)
        if okr:
            nx = r.fields.get('next')
            A.ob('R09.8', '%s:%s:handler-result-replaces-one-token' % (U, fn), nx is not None and show(D.of(nx)) == 'tok.next',
                 'the token produced by the handler is followed by %s instead of tok->next: the rest of the line is lost or the macro name is re-read' % (show(D.of(nx)) if nx is not None else 'whatever tokenize() left (EOF)'), ln(fn), facts)
    # -- registrations
    reg = {}
    for c in u.fn('init_macros').calls('add_builtin'):
        a = c.args()
        nm = a[0].str_value() if a else None
        f = a[1].strip() if len(a) > 1 else None
        if nm is None or f is None or f.kind != 'DeclRefExpr' or f.ref_kind != 'FunctionDecl':
            rep.undecided('R09.8', '%s:init_macros:registration-shape' % U, 'add_builtin call with non-literal operands', where='%s:%d' % (U, c.line))
            continue
        reg[nm] = (f.ref_name, c.line)
    for nm in BUILTINS:
        A.ob('R09.8', '%s:init_macros:registers-%s' % (U, nm), nm in reg and reg[nm][0] in u.functions,
             'the dynamic macro %s is not registered with a handler: it expands to nothing / stays an identifier' % nm, ln('init_macros'))
    # add_builtin stores the handler
    it = PInterp(P, u, {'opaque': ['add_macro'], 'track_stores': True})
    for ctx, out in it.explore('add_builtin', lambda ctx: [Sym('name', 'char *'), Sym('fn', 'macro_handler_fn *')]):
        st = [e for e in ctx.events if e[0] == 'fstore' and e[2] == 'handler']
        am = [e for e in ctx.events if e[0] == 'call' and e[1] == 'add_macro']
        ok = out[0] == 'ret' and len(am) == 1 and getattr(am[0][2][0], 'name', None) == 'name' and len(st) == 1 and getattr(st[0][4], 'name', None) == 'fn' and \
            as_obj(it, out[1]) is as_obj(it, am[0][4]) and st[0][1] is as_obj(it, am[0][4])
        A.ob('R09.8', '%s:add_builtin:stores-handler' % U, ok, 'add_builtin does not store its function argument as the handler of the macro it registers under `name`', ln('add_builtin'))
    # -- handler behaviour
    def explore_handler(h):
        ith = PInterp(P, u, {'opaque': ['new_num_token', 'new_str_token', 'stat', 'ctime_r'], 'loop_limit': 2, 'track_stores': True})
        def mk(ctx):
            ctx.tmpl = Obj('Token', lazy=True, label='tmpl')
            return [ctx.tmpl]
        return ith, ith.explore(h, mk)

    for nm in BUILTINS:
        if nm not in reg or reg[nm][0] not in u.functions:
            continue
        h = reg[nm][0]
        ith, hp = explore_handler(h)
        where = ln(h)
        nret = 0
        for ctx, out in hp:
            if out[0] != 'ret':
                continue
            nret += 1
            D = Desc(ith, ctx)
            d = D.of(out[1])
            facts = {'path': ctx.trail, 'returns': show(d)}
            ch = _origin_chain(ith, ctx.tmpl)
            last = ch[-1]
            pre = strip_ids(last.label)
            if nm == '__LINE__':
                ok = d[0] == 'call' and d[1] == 'new_num_token'
                A.ob('R09.8', '%s:%s:%s-yields-number-token' % (U, h, nm), ok, '%s expands to %s, not to a number token' % (nm, show(d)), where, facts)
                if ok:
                    ce = [e for e in ctx.events if e[0] == 'call' and e[1] == 'new_num_token'][-1]
                    from ..interp import Lin
                    l = Lin.of(ce[2][0])
                    terms = sorted(strip_ids(repr(lf)) for k, (c, lf) in l.terms.items()) if isinstance(l, Lin) else None
                    good = isinstance(l, Lin) and l.c == 0 and all(c == 1 for k, (c, lf) in l.terms.items())
                    A.ob('R09.8', '%s:%s:%s-line-of-outermost-invocation' % (U, h, nm), good and terms == sorted([pre + '.line_no', pre + '.file.line_delta']) and _outermost(ith, last),
                         '%s yields %r; it must be line_no + file->line_delta of the outermost macro invocation (origin chain followed to its end; here the chain was followed %d step(s) and stopped at a token whose origin is %s)' % (nm, ce[2][0], len(ch) - 1, 'NULL' if _outermost(ith, last) else 'not known to be NULL'), where, facts)
            elif nm == '__FILE__':
                want = 'new_str_token(%s.file.display_name, %s)' % (pre, pre)
                A.ob('R09.8', '%s:%s:%s-name-of-outermost-invocation' % (U, h, nm), show(d) == want and _outermost(ith, last),
                     '%s expands to %s; it must be the display name of the file of the outermost invocation (origin chain followed to its end)' % (nm, show(d)), where, facts)
            elif nm == '__COUNTER__':
                ce = [e for e in ctx.events if e[0] == 'call' and e[1] == 'new_num_token']
                st = [(k, v) for k, v in ctx.globals.items() if k.startswith('static:')]
                ok = d[0] == 'call' and d[1] == 'new_num_token' and len(ce) == 1 and isinstance(ce[0][2][0], int) and len(st) == 1 and st[0][1] == ce[0][2][0] + 1
                A.ob('R09.8', '%s:%s:%s-counts-up' % (U, h, nm), ok,
                     '%s: the handler passes %r and leaves its counter at %r; each use must yield the current value and advance it by one' % (nm, ce[0][2][0] if ce else None, st[0][1] if st else None), where, facts)
                A.ob('R09.8', '%s:%s:%s-starts-at-zero' % (U, h, nm), bool(ce) and ce[0][2][0] == 0, '%s does not start at 0' % nm, where, facts)
            elif nm == '__BASE_FILE__':
                A.ob('R09.8', '%s:%s:%s-is-base-file' % (U, h, nm), show(d) == 'new_str_token(g:base_file, tmpl)', '%s expands to %s instead of the string base_file' % (nm, show(d)), where, facts)
            else:
                A.ob('R09.8', '%s:%s:%s-yields-string-token' % (U, h, nm), d[0] == 'call' and d[1] == 'new_str_token', '%s expands to %s, not to a string token' % (nm, show(d)), where, facts)
        if nret == 0:
            rep.undecided('R09.8', '%s:%s:no-return-path' % (U, h), 'handler of %s has no returning path' % nm, where=where)
    A.flush()
