"""C10 Conditional inclusion and #include resolution select exactly the right text (DESIGN.md §3 C10).

Vehicle: Engine I on *transitions*.  Each scanner of the preprocessor (skip_line, copy_line,
skip_cond_incl, skip_cond_incl2, detect_include_guard, the dispatcher preprocess2, include_file,
search_include_paths, eval_const_expr) is abstractly interpreted on one generic occurrence of a
directive (`# d M` followed by an unknown rest of the stream) in every abstract state of the
conditional stack; the functions that consume the rest are cut and return "resync" tokens.  A path is
one transition of the state machine, the obligations are its transition table (C11 6.10.1/6.10.2).
The option plumbing of main.c is evaluated over the finite option table (one argv per option).
"""
from ..interp import Obj, Sym, Term, View, Cell, Arr, Lin, NoReturn, Infeasible, Unsupported, _Ref, _ValPlace
from ..build import AnalysisBroken
from ..lib_c10 import (PPInterp, Toks, register_nested_enums, explore_directive, outcome, calls, is_resync,
                       idx_of, truth_in, settle, m_equal, m_strndup, hook, cut_tok, resync, set_out,
                       string_lits_compared, RESUME, directive_scenario, mark_replaced, pp2_config, spelled_from, TABLE_LOOKUPS, h_find_macro,
                       h_table_lookup, key_base, file_key_functions)

U = 'preprocess.c'
OPENERS = ('if', 'ifdef', 'ifndef')
CLOSERS = ('elif', 'else', 'endif')
COND = OPENERS + CLOSERS
# callees that consume the rest of the directive's line and hand back the first token of the next line
LINE_CONSUMERS = ('skip_line', 'eval_const_expr', 'read_include_filename', 'read_macro_definition', 'read_line_marker')
# callees that start from a line start and hand back a later line start
LINE_PASSERS = ('skip_cond_incl', 'include_file')


# minimum number of distinct obligations per rule, confirmed by hand on the pinned tree (below: exit 2)
FLOORS = {'R10.1': 15, 'R10.2': 130, 'R10.3': 14, 'R10.4': 40, 'R10.5': 10, 'R10.6': 47, 'R10.7': 28, 'R10.8': 17, 'R10.10': 12, 'R10.11': 9, 'R10.12': 55, 'R10.13': 9, 'R10.14': 40}


def _declare_rules(rep):
    for r in sorted(FLOORS):
        rep.rule(r, '(see DESIGN.md C10 %s)' % r, floor=FLOORS[r])


def run(P, rep, tier):
    u = P.unit(U)
    for f in ('skip_line', 'copy_line', 'skip_cond_incl', 'skip_cond_incl2', 'detect_include_guard', 'preprocess2', 'preprocess',
              'push_cond_incl', 'eval_const_expr', 'read_const_expr', 'include_file', 'search_include_paths', 'search_include_next',
              'is_hash', 'find_macro'):
        if f not in u.functions:
            raise AnalysisBroken('anchor function %s vanished from %s' % (f, U))
    if 'cond_incl' not in u.globals:
        raise AnalysisBroken('anchor global cond_incl vanished from %s' % U)
    register_nested_enums(u)
    T = Toks(u)
    rep.explanation = ('Transition tables of the conditional-inclusion state machine and of the include resolution, obtained by '
                       'path-sensitive abstract interpretation of each scanner on one generic directive occurrence per abstract state '
                       '(empty stack / top entry in then, elif, else state x taken flag x value of the controlling expression x macro '
                       'defined or not), compared with C11 6.10.1/6.10.2; sibling agreement of the four directive scanners; memoised '
                       'lookups keep their side effects; option table of main.c evaluated per option. Decides the state-machine '
                       'skeleton and the plumbing; does not decide the selected text for all directive sequences and include graphs, '
                       'nor the value of whole #if expressions (the integer arms of the constant folder behind eval_const_expr are C07\'s, re-issued as R10.12). A `#` alone on its line is a null directive: each of the four scanners is also run on `#` / `d M` and must treat `d M` as an ordinary line (R10.2 nextline). The contents of the hash tables (macro table, guard memo) are unknown to every rule: a lookup may find an entry or '
                       'not. The two token-list joiners are run on concrete lists of 0..3 tokens (R10.10); the -D/-U plumbing is re-issued from C17 R17.9 and completed '
                       'by define_macro (R10.11).')
    rep.assumptions += ['the rest of the token stream after the analysed directive is arbitrary (cut at skip_line/skip_cond_incl/eval_const_expr/...)',
                        'tokens produced by the tokenizer are newline-terminated lists ending in TK_EOF with at_bol set',
                        'equal(tok, s) compares the spelling of tok with s', 'calloc succeeds', 'the first token of a macro expansion carries the at_bol flag of the macro name (C09 R09.18); every later token of an expansion may carry any flag',
                        'the successor of the TK_EOF token that ends a token list is NULL (tokenize/new_eof allocate it zeroed)',
                        'the values of -include options are non-NULL strings (parse_args stores argv words)',
                        'reference for -include lookup and for the order of the fixed system directories: gcc (working directory first, then the include path; '
                        'own headers, /usr/local/include, multiarch directory, /usr/include)']
    _declare_rules(rep)
    dres = {}

    def guarded(rule, f, *args):
        # one rule that cannot be decided must not hide what the others find
        try:
            return f(*args)
        except (AnalysisBroken, Unsupported) as e:
            rep.undecided(rule, '%s:analysis' % rule, 'the analysis of this rule could not proceed: %s' % e)
        except Infeasible as e:
            rep.undecided(rule, '%s:analysis' % rule, 'the analysis of this rule ran into an infeasible state outside a path: %s' % e)
        except (KeyError, IndexError, AttributeError, TypeError, ValueError, RecursionError) as e:
            import traceback
            tb = traceback.format_exc().strip().splitlines()
            rep.undecided(rule, '%s:analysis' % rule, 'internal error of the checker in this rule: %r | %s' % (e, ' / '.join(tb[-3:])))
        return None
    guarded('R10.1', r101, P, u, T, rep)
    d = guarded('R10.2', explore_all_directives, P, u, T, rep)
    dres.update(d or {})
    guarded('R10.1', r101_dispatch, P, u, T, rep, dres)
    guarded('R10.2', r102, P, u, T, rep, dres)
    guarded('R10.4', r104, P, u, T, rep, dres)
    guarded('R10.3', r103, P, u, T, rep)
    guarded('R10.5', r105, P, u, T, rep)
    r105_width(P, u, rep)
    guarded('R10.13', r1013_if_operand_types, P, u, T, rep)
    guarded('R10.7', r107, P, u, rep)
    guarded('R10.7', r107_per_file, P, u, T, rep)
    guarded('R10.7', r107_probe_predicate, P, rep)
    guarded('R10.7', _r107_search_sites, P, u, rep)
    guarded('R10.7', _r107_quoted_site, P, u, T, rep)
    null_first = guarded('R10.8', r108, P, u, T, rep, dres)
    guarded('R10.16', _r1016_computed_include, P, u, T, rep)
    guarded('R10.10', r1010_joiners, P, rep, bool(null_first))
    guarded('R10.11', r1011_define_option, P, rep)
    guarded('R10.6', r106, P, rep)
    guarded('R10.9', r109_macro_table_order, P, rep)
    guarded('R10.15', r1015_directive_source, P, u, T, rep)
    guarded('R10.12', r1012_if_arithmetic, P, rep, tier)
    guarded('R10.14', r1014_tables, P, rep)


# ------------------------------------------------------------------------------------------------ R10.1
def _plain_tok(label):
    return Obj('Token', lazy=True, label=label)


def _walk_next(it, first, last, limit=80):
    """tokens from first (inclusive) to last (exclusive) along ->next as materialised on the path; None if
    last is not reached"""
    out = []
    t = first
    while t is not last:
        out.append(t)
        if len(out) > limit or not isinstance(t, Obj):
            return None
        nx = t.fields.get('next')
        nx = settle(it, nx)
        if isinstance(nx, View):
            objs = [c for c in nx.cell.cands if isinstance(c, Obj)]
            nx = objs[0] if len(objs) == 1 else None
        t = nx
        if t is None:
            return None
    return out


def _bol(it, ctx, t):
    v = t.fields.get('at_bol') if isinstance(t, Obj) else None
    if v is None:
        return None
    return truth_in(it, ctx, v)


def _ends_list(it, ctx, t, E):
    """True/False/None: the token is the TK_EOF that ends a token list, as far as the finished path says"""
    k = t.fields.get('kind') if isinstance(t, Obj) else None
    if k is None:
        return None
    k = settle(it, k)
    if isinstance(k, int):
        return k == E['TK_EOF']
    saved = it.ctx
    it.ctx = ctx
    try:
        v = it.cmp('==', k, E['TK_EOF'])
    except Exception:
        return None
    finally:
        it.ctx = saved
    return truth_in(it, ctx, v)


def _check_eol_scan(it, ctx, rep, rule, fn, first, result, where, seen):
    """result must be the first token at or after `first` that begins a line"""
    key = '%s:%s:' % (U, fn)
    result = settle(it, result)
    if not isinstance(result, Obj):
        rep.ob(rule, key + 'returns-no-token', False, '%s hands back %r instead of a token of the list it was given' % (fn, result), where=where, facts={'path': ctx.trail})
        return
    skipped = _walk_next(it, first, result)
    if skipped is None:
        rep.ob(rule, key + 'result-not-on-the-list', False, '%s hands back a token that is not reached from its argument by ->next' % fn, where=where, facts={'path': ctx.trail})
        return
    E = it.unit.enums
    rb = _bol(it, ctx, result)
    if rb is not True and _ends_list(it, ctx, result, E) is True:
        rb = True      # the end of the token list ends the line as well (a directive inside a macro argument)
    seen['paths'] += 1
    if skipped:
        seen['skipping'] += 1
    rep.ob(rule, key + ('stops-at-line-start' if rb else 'returns-mid-line-token'), rb is True,
           '%s can hand back a token that does not begin a line (after passing %d token(s)): the rest of the directive line is then '
           'treated as ordinary program text (e.g. `#endif X` leaks X into the output)' % (fn, len(skipped)), where=where,
           facts={'path': ctx.trail, 'passed': len(skipped)})
    bad = [t for t in skipped if _bol(it, ctx, t) is not False or _ends_list(it, ctx, t, E) is True]
    rep.ob(rule, key + ('passes-only-mid-line-tokens' if not bad else 'skips-past-line-start'), not bad,
           '%s passes over a token that begins a new line (or over the end of the token list): text of the following line is dropped' % fn, where=where, facts={'path': ctx.trail})


def r101(P, u, T, rep):
    rep.rule('R10.1', 'end-of-line scans (skip_line, copy_line, the #pragma arm) stop exactly at the first token that begins a line or ends the token list, and every '
             'directive arm of the dispatcher leaves the stream at a line start', floor=FLOORS['R10.1'])
    # skip_line
    it = PPInterp(P, u, {'opaque': ['warn_tok'], 'loop_limit': 3})
    fn = 'skip_line'
    where = '%s:%d' % (U, u.fn(fn).line)
    seen = {'paths': 0, 'skipping': 0}

    def mk(ctx):
        ctx.first = _plain_tok('t0')
        return [ctx.first]
    for ctx, out in it.explore(fn, mk, max_paths=200):
        if out[0] != 'ret':
            continue
        _check_eol_scan(it, ctx, rep, 'R10.1', fn, ctx.first, out[1], where, seen)
    if seen['paths'] == 0:
        rep.undecided('R10.1', '%s:%s:no-returning-path' % (U, fn), 'skip_line has no returning path the analysis can follow')
    # the end marker of a copied line (copy_line -> new_eof: a TK_EOF that is a copy of the last token of the line, hence not at_bol) ends the line: there is
    # nothing to skip and nothing to diagnose (`#include H` with H a macro re-reads the expanded copy of the line; after the file name comes that marker)
    E = u.enums

    def mk_end(ctx):
        t = _plain_tok('end-marker')
        t.fields['kind'] = E['TK_EOF']
        t.fields['at_bol'] = 0
        ctx.first = t
        return [t]
    verd = set()
    for ctx, out in it.explore(fn, mk_end, max_paths=50):
        if out[0] != 'ret':
            verd.add('rejected')
        elif settle(it, out[1]) is not ctx.first:
            verd.add('passed')
        elif [e for e in ctx.events if e[0] == 'call' and e[1] in ('warn_tok', 'error_tok', 'error_at', 'error')]:
            verd.add('diagnosed')
        else:
            verd.add('ok')
    if not verd:
        rep.undecided('R10.1', '%s:%s:end-marker' % (U, fn), 'skip_line could not be followed on the end marker of a token list')
    elif 'passed' in verd:
        pass        # reported above (skips-past-line-start / result-not-on-the-list)
    else:
        okm = verd == {'ok'}
        rep.ob('R10.1', '%s:%s:%s' % (U, fn, 'end-marker-is-no-extra-token' if okm else 'end-marker-diagnosed-as-extra-token'), okm,
               'skip_line given the TK_EOF that ends a copied line (not at_bol: new_eof copies the last token of the line) %s: a directive whose operands were '
               'macro-expanded from a copy of its line (`#define H "h.h"` / `#include H`) gets a spurious "extra token" diagnostic although nothing follows the file name' % (
                   'reports it as an extra token' if 'diagnosed' in verd else 'rejects it'), where=where)
    # a skipper that never skips is caught above (returns-mid-line-token); one whose loop the analysis cannot enter is undecided
    # copy_line
    it2 = PPInterp(P, u, {'opaque': ['copy_token', 'new_eof'], 'loop_limit': 3})
    fn = 'copy_line'
    where = '%s:%d' % (U, u.fn(fn).line)
    seen2 = {'paths': 0, 'skipping': 0}

    def mk2(ctx):
        ctx.first = _plain_tok('t0')
        ctx.rest = _ValPlace(None)
        return [_Ref(ctx.rest), ctx.first]
    for ctx, out in it2.explore(fn, mk2, max_paths=200):
        if out[0] != 'ret':
            continue
        _check_eol_scan(it2, ctx, rep, 'R10.1', fn, ctx.first, ctx.rest.v, where, seen2)
        ncopy = len([e for e in ctx.events if e[0] == 'call' and e[1] == 'copy_token'])
        sk = _walk_next(it2, ctx.first, settle(it2, ctx.rest.v)) if isinstance(settle(it2, ctx.rest.v), Obj) else None
        if sk is not None:
            rep.ob('R10.1', '%s:%s:copies-every-token-of-the-line' % (U, fn), ncopy == len(sk),
                   'copy_line passes %d token(s) of the line but copies %d: the controlling expression loses or duplicates tokens' % (len(sk), ncopy),
                   where=where, facts={'path': ctx.trail})
    if seen2['paths'] == 0 or seen2['skipping'] == 0:
        rep.undecided('R10.1', '%s:%s:no-copying-path' % (U, fn), 'copy_line has no path that copies a token and returns')


def explore_all_directives(P, u, T, rep):
    """one exploration of the dispatcher per directive name; shared by R10.1/2/4/8"""
    lits = string_lits_compared(u.fn('preprocess2'))
    universe = list(COND) + sorted(x for x in lits if x not in COND and x not in ('#',)) + ['no_such_directive']
    out = {}
    for d in universe:
        try:
            it, res = explore_directive(P, u, T, d)
        except Unsupported as e:
            rep.undecided('R10.2', '%s:preprocess2:arm/%s' % (U, d), 'the dispatcher arm for `#%s` uses a construct the interpreter does not model: %s' % (d, e))
            continue
        out[d] = (it, res)
    return out


def _arm_line(ctx, default):
    for e in ctx.events:
        if e[0] == 'equal' and e[3] == 1 and isinstance(e[2], str) and e[2] != '#':
            return e[4]
    return default


def _line_start_ok(ctx, t, depth=0):
    """is token t a legitimate place to resume after the directive `# d M` / `x y`?
    returns (ok, description)"""
    if isinstance(t, View) or t is None:
        return False, 'an undetermined token'
    i = idx_of(ctx, t)
    if i is not None:
        bol = ctx.toks[i].fields.get('at_bol')
        if i == 0:
            return False, 'the `#` of the directive itself (the directive would be processed again for ever)'
        if bol:
            return (i == 3), ('the first token of the next line' if i == 3 else 'a later line (text dropped)')
        return False, 'the token `%s` on the directive line (the rest of the directive line is processed as program text)' % ctx.toks[i].meta.get('text')
    if is_resync(t):
        prod = t.meta['resync']
        src = t.meta.get('from')
        if prod in LINE_CONSUMERS:
            j = idx_of(ctx, src)
            if j is None:
                if is_resync(src) and depth < 4:
                    return _line_start_ok(ctx, src, depth + 1)
                return False, 'the result of %s applied to an unknown token' % prod
            if j == 0:
                return False, 'the result of %s applied to the `#` of the directive' % prod
            if j > 3:
                return False, 'the result of %s applied to a token of a later line (text dropped)' % prod
            return True, 'line start after %s' % prod
        if prod in LINE_PASSERS:
            j = idx_of(ctx, src)
            if j is not None:
                # a group skipper started on the directive line itself only passes the rest of the line
                if j == 0:
                    return False, 'the result of %s started at the `#` of the directive itself' % prod
                if j > 3:
                    return False, 'the result of %s started beyond the next line start (text dropped)' % prod
                return True, 'after %s' % prod
            if is_resync(src) and depth < 4:
                return _line_start_ok(ctx, src, depth + 1)
            return False, 'the result of %s applied to an unknown token' % prod
        return False, 'a token produced by %s' % prod
    return False, 'an unknown token'


def r101_dispatch(P, u, T, rep, dres):
    fnline = u.fn('preprocess2').line
    n = 0
    for d, (it, res) in dres.items():
        bad = None
        good = 0
        line = fnline
        for ctx, out in res:
            o = outcome(out)
            line = _arm_line(ctx, line)
            if o[0] == 'error':
                continue
            if o[0] == 'ret':
                # the dispatcher returned: the scenario ran into TK_EOF without leaving the directive line
                bad = bad or (ctx, 'the end of the list without consuming the directive line')
                continue
            ok, desc = _line_start_ok(ctx, o[1])
            if ok:
                good += 1
            else:
                bad = bad or (ctx, desc)
        if good == 0 and bad is None:
            continue    # arm always diagnoses (#error, unknown directive)
        n += 1
        rep.ob('R10.1', '%s:preprocess2:%s/resumes-at-next-line' % (U, d), bad is None,
               'after `#%s` the dispatcher resumes at %s' % (d, bad[1] if bad else ''), where='%s:%d' % (U, line),
               facts={'path': bad[0].trail if bad else None})
    if n < 6:
        rep.undecided('R10.1', '%s:preprocess2:arms' % U, 'only %d directive arms of the dispatcher could be followed to the next line' % n)


# ------------------------------------------------------------------------------------------------ R10.2
def _scan_cfg(nested):
    return {'models': {'equal': m_equal, 'strndup': m_strndup},
            'cut': {nested: cut_tok(nested)}, 'lazy_field': hook, 'loop_limit': 12}


def _scanner_class(P, u, T, fn, d, variant=None):
    """behaviour of skip_cond_incl / skip_cond_incl2 on `# d M` / `# endif z` / `x y`"""
    it = PPInterp(P, u, _scan_cfg('skip_cond_incl2'))
    res = it.explore(fn, directive_scenario(T, d, second='endif', variant=variant), max_paths=200)
    cls = set()
    info = []
    for ctx, out in res:
        o = outcome(out)
        nest = calls(ctx, 'skip_cond_incl2')
        if nest:
            a = nest[0][2][0] if nest[0][2] else None
            i = idx_of(ctx, a)
            if o[0] == 'resume' and o[1] is nest[0][5] and len(nest) == 1 and i in (1, 2):
                cls.add('nest')
            elif i == 0:
                cls.add('odd:nested scan started at the `#` of the directive itself (never terminates)')
            else:
                cls.add('odd:nested scan started at %r, then %r' % (a, o[:2]))
        elif o[0] == 'ret':
            i = idx_of(ctx, settle(it, o[1]))
            if fn == 'skip_cond_incl2':
                # returns the position after `#endif`
                cls.add({1: 'close', 2: 'close', 4: 'pass', 5: 'pass'}.get(i, 'odd:returns token %r' % (i,)))
            else:
                cls.add({0: 'stop', 3: 'pass'}.get(i, 'odd:returns token %r' % (i,)))
        elif o[0] == 'resume':
            cls.add('odd:runs past the following `#endif`')
        else:
            cls.add('odd:%s' % (o[1],))
        info.append(ctx.trail)
    return cls, info


def _after_nested(P, u, T, fn, d):
    """`# d M` / `# ifdef z` / `x y`, where the nested skip started at the first line hands back the `#` of the second line:
    True if the second line is recognised as an opener as well, a description otherwise, None if the first is not nested"""
    def first_then_resync(it, ctx, n, args):
        k = getattr(ctx, 'n_nested', 0)
        ctx.n_nested = k + 1
        r = ctx.toks[3] if k == 0 else resync(ctx, 'skip_cond_incl2', args[0] if args else None)
        ctx.emit('call', 'skip_cond_incl2', args, n.line, r, r)
        return r
    cfg = _scan_cfg('skip_cond_incl2')
    cfg['cut'] = {'skip_cond_incl2': first_then_resync}
    it = PPInterp(P, u, cfg)
    res = it.explore(fn, directive_scenario(T, d, second='ifdef'), max_paths=200)
    verdicts = set()
    for ctx, out in res:
        o = outcome(out)
        nest = calls(ctx, 'skip_cond_incl2')
        if not nest or idx_of(ctx, nest[0][2][0] if nest[0][2] else None) not in (1, 2):
            return None
        if len(nest) == 2 and idx_of(ctx, nest[1][2][0] if nest[1][2] else None) in (4, 5) and o[0] == 'resume' and o[1] is nest[1][5]:
            verdicts.add(True)
        else:
            verdicts.add('it goes on with %s' % ('the token after it' if len(nest) == 1 else 'a %d. nested scan' % len(nest)))
    if verdicts == {True}:
        return True
    bad = sorted(v for v in verdicts if v is not True)
    return bad[0] if bad else None


def _guard_scenario(T, d, variant=None):
    def mk(ctx):
        specs = T.line('g', [('#', 'TK_PUNCT'), ('ifndef', 'TK_IDENT'), ('G', 'TK_IDENT')])
        specs += T.line('h', [('#', 'TK_PUNCT'), ('define', 'TK_IDENT'), ('G', 'TK_IDENT')])
        specs += T.line('a', [('#', 'TK_PUNCT'), (d, 'TK_IDENT'), ('M', 'TK_IDENT')])
        if variant == 'word':
            specs[6] = ('a0:w', 'w', 'TK_IDENT', True)
        elif variant == 'midline':
            specs[6] = ('a0:#', '#', 'TK_PUNCT', False)
        elif variant == 'nextline':
            specs[7] = (specs[7][0], specs[7][1], specs[7][2], True)     # `#` alone on its line, `d M` is the next line
        specs += T.line('e', [('#', 'TK_PUNCT'), ('endif', 'TK_IDENT')])
        specs += [('eof', '', 'TK_EOF', True)]
        ts = T.chain(specs)
        if variant == 'replaced':
            mark_replaced(ts[6])
        ctx.toks = ts
        ctx.tokidx = {id(t): i for i, t in enumerate(ts)}
        return [ts[0]]
    return mk


def _guard_class(P, u, T, d, variant=None):
    """what detect_include_guard does at `# d M` standing at depth 0 inside `#ifndef G / #define G / ... / #endif<EOF>`:
    nest (hands the nested conditional to a group skipper), reject (answers NULL: always safe), pass (scans on and
    accepts the final #endif), accept (accepts at this very line)"""
    cfg = _scan_cfg('skip_cond_incl')
    cfg['cut'] = dict(cfg['cut'])
    cfg['cut']['skip_cond_incl2'] = cut_tok('skip_cond_incl2')
    it = PPInterp(P, u, cfg)
    res = it.explore('detect_include_guard', _guard_scenario(T, d, variant), max_paths=200)
    cls = set()
    for ctx, out in res:
        o = outcome(out)
        nest = calls(ctx, ('skip_cond_incl', 'skip_cond_incl2'))
        if nest:
            i = idx_of(ctx, nest[0][2][0] if nest[0][2] else None)
            if o[0] == 'resume' and o[1] is nest[0][5] and i in (6, 7, 8):
                cls.add('nest')
            else:
                cls.add('odd:nested scan started at token %r, then %r' % (i, o[:2]))
        elif o[0] == 'ret':
            v = settle(it, o[1])
            src = spelled_from(v)
            if isinstance(v, int) and v == 0:
                cls.add('reject')
            elif src is not None and src.meta.get('text') == 'G':
                ends = [e for e in ctx.events if e[0] == 'equal' and e[2] == 'endif' and e[3] == 1]
                at = idx_of(ctx, ends[-1][1]) if ends else None
                cls.add('pass' if at == 10 else 'accept')
            else:
                cls.add('odd:returns %r' % (v,))
        elif o[0] == 'resume':
            cls.add('odd:runs past the end of the file')
        else:
            cls.add('odd:%r' % (o[:2],))
    return cls


def _dispatch_class(it, res):
    """open / close / other for the dispatcher, from the transitions"""
    push = any(calls(ctx, 'push_cond_incl') for ctx, out in res)
    touches = False
    for ctx, out in res:
        if len(ctx.ci_cell.cands) == 1 if hasattr(ctx, 'ci_cell') else False:
            touches = True
        if any(e[0] == 'fstore' and e[1].tname == 'CondIncl' for e in ctx.events):
            touches = True
    if push:
        return 'open'
    if touches:
        return 'close'
    return 'other'


def _r102_guard(P, u, T, rep, universe):
    """the include-guard recogniser on one line at depth 0 inside the guarded region.  Answering NULL is always safe (the
    shortcut is not taken); what must not happen is that the scan goes on as if nothing had happened (or accepts) at a
    line that changes the nesting"""
    fn = 'detect_include_guard'
    where = '%s:%d' % (U, u.fn(fn).line)
    for d in universe:
        try:
            cls = _guard_class(P, u, T, d)
        except Unsupported as e:
            rep.undecided('R10.2', '%s:%s:scan/%s' % (U, fn, d), 'cannot interpret %s on `#%s`: %s' % (fn, d, e))
            continue
        odd = sorted(c for c in cls if c.startswith('odd:'))
        if not cls or odd:
            rep.undecided('R10.2', '%s:%s:scan/%s' % (U, fn, d), '%s at `#%s`: %s' % (fn, d, odd[0][4:] if odd else 'no path the analysis can follow'))
            continue
        if d in OPENERS:
            bad = cls & {'pass', 'accept'}
            construct = 'scan/%s' % d if not bad else ('opener-not-recognised/%s' % d if 'pass' in bad else 'opener-accepted/%s' % d)
            what = ('inside the guarded region detect_include_guard scans over `#%s` as over an ordinary line: the #endif of that nested conditional is then taken at '
                    'nesting depth 0, so the `#endif` that the recogniser accepts as the last line of the file need not be the one that closes the guard, and a file '
                    'with text after its guard is reported as guarded (its second #include is suppressed)' % d)
        elif d in CLOSERS:
            bad = cls & {'pass', 'accept'}
            construct = 'scan/%s' % d if not bad else ('depth-0-%s-%s' % (d, 'ignored' if 'pass' in bad else 'accepted'))
            what = ('a `#%s` at nesting depth 0 that is not the last line of the file %s: %s' % (
                d, 'is scanned over' if 'pass' in bad else 'is accepted as the end of the guard',
                'the guard ended there, what follows is outside the guard' if d == 'endif' else 'the text after it is processed exactly when the guard macro IS defined') +
                '; the file must not be reported as guarded (its second #include would be suppressed although textual inclusion yields text)')
        else:
            bad = cls & {'accept', 'nest'}
            construct = 'scan/%s' % d if not bad else 'not-a-conditional-directive/%s' % d
            what = 'detect_include_guard treats `#%s` as a conditional directive' % d
        rep.ob('R10.2', '%s:%s:%s' % (U, fn, construct), not bad, what, where=where, facts={'behaviours': sorted(cls)})
    for variant in ('word', 'midline', 'nextline'):
        for d in COND:
            try:
                cls = _guard_class(P, u, T, d, variant)
            except Unsupported as e:
                rep.undecided('R10.2', '%s:%s:%s/%s' % (U, fn, variant, d), 'cannot interpret %s: %s' % (fn, e))
                continue
            if not cls or any(c.startswith('odd:') for c in cls):
                rep.undecided('R10.2', '%s:%s:%s/%s' % (U, fn, variant, d), '%s: %s' % (fn, sorted(cls)))
                continue
            if variant == 'nextline':
                # a `#` alone on its line is a null directive (C11 6.10.7); the next line is ordinary text whatever its first word is.  Scanning on or
                # answering NULL is fine, counting the line as a conditional directive is not
                ok = not (cls & {'accept', 'nest'})
                what = ('detect_include_guard takes the word `%s` at the start of the line after a `#` that stands alone on its line (a null directive) for the '
                        'name of that directive (%s): the directive name must be on the same line as the `#`' % (
                            d, 'hands the following lines to the skipper of nested conditionals' if 'nest' in cls else 'accepts it as the end of the guard'))
            else:
                ok = 'accept' not in cls
                what = 'detect_include_guard accepts a word `%s` that is not a directive as the end of the guard' % d
            rep.ob('R10.2', '%s:%s:%s/%s' % (U, fn, 'non-directive-%s-not-accepted' % variant if ok else 'non-directive-%s-taken-for-directive' % variant, d), ok,
                   what, where=where, facts={'behaviours': sorted(cls)})


def r102(P, u, T, rep, dres):
    rep.rule('R10.2', 'the opener set {if, ifdef, ifndef} and the closer set {elif, else, endif} are recognised identically, on the token after `#`, '
             'by skip_cond_incl, skip_cond_incl2, detect_include_guard and the dispatcher preprocess2; no other word is treated as one', floor=FLOORS['R10.2'])
    lits = set()
    for f in ('skip_cond_incl', 'skip_cond_incl2', 'detect_include_guard', 'preprocess2'):
        lits |= string_lits_compared(u.fn(f))
    universe = list(COND) + sorted(x for x in lits if x not in COND and x != '#') + ['no_such_directive']
    want = {
        'skip_cond_incl2': lambda d: 'nest' if d in OPENERS else ('close' if d == 'endif' else 'pass'),
        'skip_cond_incl': lambda d: 'nest' if d in OPENERS else ('stop' if d in CLOSERS else 'pass'),
    }
    says = {
        'nest': 'treats it as the opener of a nested conditional', 'close': 'treats it as the end of the nested conditional',
        'stop': 'stops at it as the end of the skipped group', 'pass': 'passes over it as an ordinary line',
    }
    _r102_guard(P, u, T, rep, universe)
    for fn in ('skip_cond_incl2', 'skip_cond_incl'):
        where = '%s:%d' % (U, u.fn(fn).line)
        for d in universe:
            try:
                cls, _ = _scanner_class(P, u, T, fn, d)
            except Unsupported as e:
                rep.undecided('R10.2', '%s:%s:scan/%s' % (U, fn, d), 'cannot interpret %s on `#%s`: %s' % (fn, d, e))
                continue
            w = want[fn](d)
            if not cls:
                rep.undecided('R10.2', '%s:%s:scan/%s' % (U, fn, d), '%s has no path the analysis can follow on `#%s`' % (fn, d))
                continue
            ok = cls == {w}
            got = sorted(cls)[0] if cls else '?'
            if ok:
                construct = 'scan/%s' % d
            elif d in OPENERS:
                construct = 'opener-not-recognised/%s' % d
            elif d in CLOSERS:
                construct = 'closer-not-recognised/%s' % d
            else:
                construct = 'not-a-conditional-directive/%s' % d
            what = 'at `#%s` inside a skipped region %s %s; C11 6.10.1 requires that it %s' % (
                d, fn, says.get(got, got[4:] if got.startswith('odd:') else got), says[w])
            if d in OPENERS and not ok:
                what += ' (nested conditionals are then mis-nested: their #else/#endif are taken for those of the enclosing group)'
            rep.ob('R10.2', '%s:%s:%s' % (U, fn, construct), ok, what, where=where, facts={'behaviours': sorted(cls)})
    # after a nested conditional has been skipped, the token handed back is itself examined as a possible directive
    for fn in ('skip_cond_incl2', 'skip_cond_incl'):
        where = '%s:%d' % (U, u.fn(fn).line)
        for d in OPENERS:
            try:
                r = _after_nested(P, u, T, fn, d)
            except Unsupported as e:
                rep.undecided('R10.2', '%s:%s:after-nested/%s' % (U, fn, d), 'cannot interpret %s: %s' % (fn, e))
                continue
            if r is None:
                continue    # the opener itself is not recognised: reported above
            rep.ob('R10.2', '%s:%s:%s/%s' % (U, fn, 'after-nested-examined' if r is True else 'after-nested-not-examined', d), r is True,
                   'after skipping the conditional opened by `#%s`, %s does not examine the token it resumes at as a possible directive (%s): a conditional '
                   'that starts right after the `#endif` of the previous one is not counted and the nesting is lost' % (d, fn, r), where=where)
    # the same words where they are not directives: after a token that is not `#`, or after a `#` in the middle of a line
    vsay = {'word': 'the word `%s` after an ordinary token', 'midline': '`# %s` in the middle of a line (not a directive)',
            'nextline': 'the word `%s` at the start of the line after a `#` that stands alone on its line (a null directive, C11 6.10.7: the directive name must be '
                        'on the same line as the `#`)'}
    for fn in ('skip_cond_incl2', 'skip_cond_incl'):
        where = '%s:%d' % (U, u.fn(fn).line)
        for variant in ('word', 'midline', 'nextline'):
            for d in COND:
                try:
                    cls, _ = _scanner_class(P, u, T, fn, d, variant)
                except Unsupported as e:
                    rep.undecided('R10.2', '%s:%s:%s/%s' % (U, fn, variant, d), 'cannot interpret %s: %s' % (fn, e))
                    continue
                if not cls:
                    rep.undecided('R10.2', '%s:%s:%s/%s' % (U, fn, variant, d), '%s has no path the analysis can follow' % fn)
                    continue
                ok = cls == {'pass'}
                got = sorted(cls)[0]
                rep.ob('R10.2', '%s:%s:%s/%s' % (U, fn, 'non-directive-%s-passed' % variant if ok else 'non-directive-%s-taken-for-directive' % variant, d), ok,
                       '%s %s: %s; only `#` at the beginning of a line introduces a directive' % (
                           fn, says.get(got, got[4:] if got.startswith('odd:') else got), vsay[variant] % d), where=where, facts={'behaviours': sorted(cls)})
    # dispatcher
    fnline = u.fn('preprocess2').line
    for d in COND:
        try:
            it, res = explore_directive(P, u, T, d, variant='midline')
        except Unsupported as e:
            rep.undecided('R10.2', '%s:preprocess2:midline/%s' % (U, d), 'cannot interpret the dispatcher: %s' % e)
            continue
        c = _dispatch_class(it, res)
        errs = [o for ctx, o in res if outcome(o)[0] == 'error']
        ok = c == 'other' and not errs
        rep.ob('R10.2', '%s:preprocess2:%s/%s' % (U, 'non-directive-midline-passed' if ok else 'non-directive-midline-taken-for-directive', d), ok,
               'the dispatcher treats `# %s` in the middle of a line as a directive; only `#` at the beginning of a line introduces one' % d,
               where='%s:%d' % (U, fnline))
    _r102_null_directive(P, u, T, rep, universe)
    _r102_pragma_operand(P, u, T, rep)
    for d in universe:
        if d not in dres:
            continue
        it, res = dres[d]
        c = _dispatch_class(it, res)
        w = 'open' if d in OPENERS else ('close' if d in CLOSERS else 'other')
        line = fnline
        for ctx, out in res:
            line = _arm_line(ctx, line)
        if c == w:
            construct = 'dispatch/%s' % d
        elif d in OPENERS:
            construct = 'opener-not-recognised/%s' % d
        elif d in CLOSERS:
            construct = 'closer-not-recognised/%s' % d
        else:
            construct = 'not-a-conditional-directive/%s' % d
        names = {'open': 'opens a conditional (pushes the stack)', 'close': 'acts on the open conditional', 'other': 'leaves the conditional stack alone'}
        rep.ob('R10.2', '%s:preprocess2:%s' % (U, construct), c == w,
               'the dispatcher %s at `#%s`; it must be one that %s' % (names[c], d, names[w]), where='%s:%d' % (U, line))


# what a directive arm does; none of it may happen for the line after a null directive
DIRECTIVE_ACTIONS = ('push_cond_incl', 'eval_const_expr', 'find_macro', 'skip_cond_incl', 'read_include_filename', 'include_file', 'search_include_paths',
                     'search_include_next', 'read_macro_definition', 'read_line_marker', 'undef_macro', 'hashmap_put', 'hashmap_put2')


def _r102_null_directive(P, u, T, rep, universe, variant='nextline', rule='R10.2'):
    """`#` alone on its line is a null directive and has no effect (C11 6.10.7); a directive is `# name ... new-line`, so the first word of the NEXT line is
    never a directive name.  The dispatcher is run on `#` / `d M` / `x y` for every word d it knows (and a pp-number, the `# 33 "file"` line marker form):
    the only admissible transition is to resume at `d`, without an error, without touching the conditional stack and without any directive action."""
    fnline = u.fn('preprocess2').line
    words = [(d, 'TK_IDENT') for d in universe] + [('7', 'TK_PP_NUM')]
    for d, kind in words:
        name = d if kind == 'TK_IDENT' else 'pp-number'
        try:
            it, res = explore_directive(P, u, T, d, variant=variant, kind=kind)
        except Unsupported as e:
            rep.undecided(rule, '%s:preprocess2:%s/%s' % (U, variant, name), 'cannot interpret the dispatcher: %s' % e)
            continue
        bad = None
        good = 0
        for ctx, out in res:
            o = outcome(out)
            acts = sorted(set(e[1] for e in calls(ctx, DIRECTIVE_ACTIONS)))
            stores = [e for e in ctx.events if e[0] == 'fstore' and isinstance(e[1], Obj) and e[1].tname == 'CondIncl']
            nulld = [e for e in ctx.events if e[0] == 'nullderef']
            if o[0] == 'error':
                why = 'it ends in the diagnostic of %s()' % o[1]
            elif acts:
                why = 'it calls %s' % ', '.join(acts)
            elif stores or nulld:
                why = 'it acts on the conditional stack'
            elif o[0] == 'ret':
                why = 'it runs to the end of the token list'
            else:
                t = o[1]
                if is_resync(t) and t.meta['resync'] == 'skip_line' and idx_of(ctx, t.meta.get('from')) == 1:
                    t = t.meta['from']      # skip_line applied to a token that begins a line hands back that token (R10.1 skip_line:*)
                i = idx_of(ctx, t)
                if i == 1:
                    good += 1
                    continue
                why = 'it resumes at %s' % ('token %d of the scenario (text dropped or processed twice)' % i if i is not None else _line_start_ok(ctx, t)[1])
            bad = bad or (ctx, why)
        if bad is None and good == 0:
            rep.undecided(rule, '%s:preprocess2:%s/%s' % (U, variant, name), 'the dispatcher has no path the analysis can follow on a null directive followed by a line beginning with `%s`' % d)
            continue
        if variant == 'replaced':
            msg = ('the dispatcher takes a `#` that begins a line but is the result of macro replacement (`#define HASH #` / `HASH %s M`) for the start of the directive `#%s`: %s; '
                   'C11 6.10.3.4p3: the replaced sequence is not processed as a directive even if it resembles one (it is ordinary text)' % (d, d, bad[1] if bad else ''))
        else:
            msg = ('after a `#` that stands alone on its line (a null directive) the dispatcher takes the first word of the next line, `%s`, for the name of that directive: %s; '
                   'the directive name must be on the same line as the `#` and the next line is ordinary text' % (d, bad[1] if bad else ''))
        rep.ob(rule, '%s:preprocess2:%s/%s' % (U, 'non-directive-%s-passed' % variant if bad is None else 'non-directive-%s-taken-for-directive' % variant, name), bad is None, msg,
               where='%s:%d' % (U, _arm_line(bad[0], fnline) if bad else fnline), facts={'path': bad[0].trail if bad else None})


def _r102_pragma_operand(P, u, T, rep):
    """the operand of a directive is on the directive's line: `#pragma` at the end of a line followed by a line that begins with `once` is an (empty) pragma and
    a line of ordinary text, not `#pragma once`.  The dispatcher is run on `# pragma` / `w y` for every word w it compares the token after `pragma` with: the
    file must not be entered in a table (hashmap_put) and the stream must resume at `w`."""
    fnline = u.fn('preprocess2').line
    words = set()
    for c in u.fn('preprocess2').calls('equal'):
        a = c.args()
        if len(a) >= 2 and a[1].str_value() is not None and 'next' in a[0].src() and a[1].str_value() not in COND and a[1].str_value() != '#':
            words.add(a[1].str_value())
    words.add('once')
    for w in sorted(words):
        def mk(ctx, w=w):
            specs = T.line('a', [('#', 'TK_PUNCT'), ('pragma', 'TK_IDENT')]) + T.line('b', [(w, 'TK_IDENT'), ('y', 'TK_IDENT')]) + T.line('c', [('x', 'TK_IDENT')])
            ts = T.chain(specs)
            ctx.toks = ts
            ctx.tokidx = {id(t): i for i, t in enumerate(ts)}
            return [ts[0]]
        it = PPInterp(P, u, pp2_config(u))
        try:
            res = it.explore('preprocess2', mk, max_paths=400)
        except Unsupported as e:
            rep.undecided('R10.2', '%s:preprocess2:pragma-nextline/%s' % (U, w), 'cannot interpret the dispatcher: %s' % e)
            continue
        bad = None
        good = 0
        for ctx, out in res:
            o = outcome(out)
            puts = calls(ctx, ('hashmap_put', 'hashmap_put2'))
            if puts:
                why = 'it enters the file in a table (%s)' % puts[0][1]
            elif o[0] == 'error':
                why = 'it ends in the diagnostic of %s()' % o[1]
            elif o[0] == 'ret':
                why = 'it runs to the end of the token list'
            else:
                t = o[1]
                if is_resync(t) and t.meta['resync'] == 'skip_line' and idx_of(ctx, t.meta.get('from')) == 2:
                    t = t.meta['from']
                i = idx_of(ctx, t)
                if i == 2:
                    good += 1
                    continue
                why = 'it resumes at %s' % ('token %d of the scenario (text dropped or processed twice)' % i if i is not None else _line_start_ok(ctx, t)[1])
            bad = bad or (ctx, why)
        if bad is None and good == 0:
            rep.undecided('R10.2', '%s:preprocess2:pragma-nextline/%s' % (U, w), 'no path of the dispatcher on `#pragma` / `%s y` could be followed' % w)
            continue
        rep.ob('R10.2', '%s:preprocess2:%s/%s' % (U, 'pragma-operand-nextline-passed' if bad is None else 'pragma-operand-taken-from-next-line', w), bad is None,
               'after `#pragma` at the end of a line the dispatcher takes the first word of the NEXT line, `%s`, for the operand of the pragma: %s; a directive ends at the '
               'end of its line (`#pragma` / `once` is not `#pragma once`: the file would not be included a second time and the line `once ...` is dropped)' % (w, bad[1] if bad else ''),
               where='%s:%d' % (U, _arm_line(bad[0], fnline) if bad else fnline), facts={'path': bad[0].trail if bad else None})


# ------------------------------------------------------------------------------------------------ R10.4
class _Pin:
    """temporarily pin cells to one candidate each"""

    def __init__(self, assign):
        self.assign = assign
        self.saved = []

    def __enter__(self):
        for cell, c in self.assign:
            self.saved.append((cell, cell.cands))
            cell.cands = [c]

    def __exit__(self, *a):
        for cell, cands in self.saved:
            cell.cands = cands


def _combos(cells):
    if not cells:
        yield []
        return
    head, rest = cells[0], cells[1:]
    for c in list(head.cands):
        for r in _combos(rest):
            yield [(head, c)] + r


def _expected(d, st, E):
    """C11 6.10.1 transition for directive d in state st"""
    x = {'error': False, 'push': None, 'eval': 0, 'find': 0, 'skip': False, 'stack': 'same', 'inc_after': None, 'else_after': None}
    if d in OPENERS:
        x['stack'] = 'pushed'
        if d == 'if':
            x['eval'] = 1
            x['push'] = bool(st['val'])
        else:
            x['find'] = 1
            x['push'] = bool(st['defined']) if d == 'ifdef' else not st['defined']
        x['skip'] = not x['push']
        return x
    if st['empty']:
        x['error'] = True
        return x
    if d == 'endif':
        x['stack'] = 'popped'
        return x
    if st['ctx0'] == E['IN_ELSE']:
        x['error'] = True
        return x
    if d == 'elif':
        x['eval'] = 0 if st['inc0'] else 1
        taken = (not st['inc0']) and bool(st['val'])
        x['skip'] = not taken
        x['inc_after'] = bool(st['inc0']) or taken
        x['else_after'] = False
    elif d == 'else':
        x['skip'] = bool(st['inc0'])
        x['else_after'] = True
    return x


_ASPECTS = {
    'diagnoses-stray': 'stray-directive diagnostic',
    'pushes-once': 'one stack entry per opener',
    'taken-flag': 'taken flag of the new entry',
    'evaluates-expression': 'evaluation of the controlling expression',
    'reads-macro-name': 'macro name looked up',
    'skips-group': 'skipping of the group',
    'stack-depth': 'conditional stack depth',
    'latches-taken': 'taken flag after the directive',
    'marks-else': 'else marker',
    'expression-position': 'position the expression is read from',
}


def r104(P, u, T, rep, dres):
    rep.rule('R10.4', 'conditional stack discipline (C11 6.10.1): openers push exactly one entry whose taken flag is the truth of the condition and skip iff it is false; '
             '#elif/#else are diagnosed on an empty stack or after #else, #elif evaluates its expression only if no group was taken yet and latches the flag, '
             '#else skips iff a group was taken, #endif pops one entry after a null check; preprocess diagnoses a non-empty stack at EOF', floor=FLOORS['R10.4'])
    E = u.enums
    fnline = u.fn('preprocess2').line
    off = _expr_offset(P, u, T)
    for d in COND:
        if d not in dres:
            rep.undecided('R10.4', '%s:preprocess2:%s/arm' % (U, d), 'no analysable dispatcher arm for `#%s`' % d)
            continue
        it, res = dres[d]
        fails = {}
        covered = set()
        line = fnline
        for ctx, out in res:
            o = outcome(out)
            line = _arm_line(ctx, line)
            evals = calls(ctx, 'eval_const_expr')
            finds = calls(ctx, 'find_macro')
            nd = [e for e in ctx.events if e[0] == 'nullderef']
            if nd and d in CLOSERS:
                fails.setdefault('diagnoses-stray', ('`#%s` with no open conditional: `%s` is read through the empty (NULL) conditional stack before the stack is tested '
                                                     '(crash instead of the stray-#%s diagnostic)' % (d, nd[0][1], d), 'empty-stack', ctx.trail))
                covered.add('empty-stack')
            # an arm that never looked at the stack behaves the same in every stack state (see _states_for)
            cells = [ctx.ci_cell, ctx.ci_init['included'], ctx.ci_init['ctx']] if hasattr(ctx, 'ci_cell') else []
            vcell = evals[0][4].cell if evals else None
            mcell = finds[0][4].cell if finds else None
            extra = [c for c in (vcell, mcell) if c is not None]
            for assign in _combos(cells + extra):
                with _Pin(assign):
                    amap = {id(c): v for c, v in assign}
                    st = {'empty': (amap.get(id(ctx.ci_cell)) == 0) if hasattr(ctx, 'ci_cell') else None,
                          'inc0': amap.get(id(ctx.ci_init['included'])) if hasattr(ctx, 'ci_cell') else None,
                          'ctx0': amap.get(id(ctx.ci_init['ctx'])) if hasattr(ctx, 'ci_cell') else None,
                          'val': amap.get(id(vcell)) if vcell is not None else None,
                          'defined': (amap.get(id(mcell)) != 0) if mcell is not None else None}
                    sts = _states_for(d, st, E, hasattr(ctx, 'ci_cell'))
                    for st2 in sts:
                        covered.add(_stkey(d, st2, E))
                        _judge(it, ctx, o, d, st2, E, fails, off, evals, finds)
        need = _required_states(d, E)
        missing = sorted(need - covered)
        if missing:
            rep.undecided('R10.4', '%s:preprocess2:%s/state-coverage' % (U, d),
                          'the transitions of `#%s` in state(s) %s could not be followed' % (d, ', '.join(missing[:4])))
        aspects = ['diagnoses-stray', 'stack-depth', 'skips-group', 'evaluates-expression']
        if d in OPENERS:
            aspects += ['pushes-once', 'taken-flag']
            aspects += ['expression-position'] if d == 'if' else ['reads-macro-name']
        if d == 'elif':
            aspects += ['latches-taken', 'marks-else', 'expression-position']
        if d == 'else':
            aspects += ['marks-else']
        for a in aspects:
            f = fails.get(a)
            if f is None and ('?' + a) in fails:
                rep.undecided('R10.4', '%s:preprocess2:%s/%s' % (U, d, a), fails['?' + a][0], where='%s:%d' % (U, line))
                continue
            rep.ob('R10.4', '%s:preprocess2:%s/%s' % (U, d, a), f is None, f[0] if f else '', where='%s:%d' % (U, line),
                   facts={'state': f[1], 'path': f[2]} if f else None)
    _r104_push(P, u, rep)
    _r104_eof(P, u, rep)


def _states_for(d, st, E, has_stack):
    """complete a path's partial state: an arm that never read the stack behaves alike in all stack states"""
    if has_stack:
        return [st]
    out = []
    base = dict(st)
    for empty in (True, False):
        if empty:
            s = dict(base); s.update(empty=True, inc0=None, ctx0=None); out.append(s)
        else:
            for inc in (0, 1):
                for c in (E['IN_THEN'], E['IN_ELIF'], E['IN_ELSE']):
                    s = dict(base); s.update(empty=False, inc0=inc, ctx0=c); out.append(s)
    return out


def _stkey(d, st, E):
    names = {E['IN_THEN']: 'then', E['IN_ELIF']: 'elif', E['IN_ELSE']: 'else'}
    if d in OPENERS:
        return 'cond=%s' % ('true' if (st['val'] if d == 'if' else st['defined']) else 'false')
    if st['empty']:
        return 'empty-stack'
    k = 'in-%s/taken=%d' % (names.get(st['ctx0'], '?'), 1 if st['inc0'] else 0)
    if d == 'elif' and not st['inc0'] and st['ctx0'] != E['IN_ELSE'] and st['val'] is not None:
        k += '/expr=%s' % ('true' if st['val'] else 'false')
    return k


def _required_states(d, E):
    if d in OPENERS:
        return {'cond=true', 'cond=false'}
    need = {'empty-stack'}
    for c in ('then', 'elif', 'else'):
        for t in (0, 1):
            if d == 'elif' and c != 'else' and t == 0:
                need.add('in-%s/taken=0/expr=true' % c)
                need.add('in-%s/taken=0/expr=false' % c)
            else:
                need.add('in-%s/taken=%d' % (c, t))
    return need


def _judge(it, ctx, o, d, st, E, fails, off, evals, finds):
    x = _expected(d, st, E)
    skey = _stkey(d, st, E)

    def fail(aspect, msg, unknown=False):
        if unknown:
            fails.setdefault('?' + aspect, ('`#%s` %s: %s' % (d, _describe(d, skey), msg), skey, ctx.trail))
            return
        fails.setdefault(aspect, ('`#%s` %s: %s' % (d, _describe(d, skey), msg), skey, ctx.trail))
    is_err = o[0] == 'error'
    if x['error'] != is_err:
        if x['error']:
            fail('diagnoses-stray', 'the directive is accepted; it must be diagnosed (stray #%s)' % d)
        else:
            fail('diagnoses-stray', 'a legal directive is rejected (%s)' % o[1])
        return
    if is_err:
        return
    pushes = calls(ctx, 'push_cond_incl')
    skips = calls(ctx, 'skip_cond_incl')
    # stack
    g = ctx.globals.get('cond_incl')
    g = settle(it, g)
    if x['stack'] == 'pushed':
        if len(pushes) != 1:
            fail('pushes-once', 'push_cond_incl is called %d times; every opener must push exactly one entry, otherwise the matching #endif pops the wrong conditional' % len(pushes))
        else:
            inc = truth_in(it, ctx, pushes[0][2][1]) if len(pushes[0][2]) > 1 else None
            if inc is None:
                fail('taken-flag', 'the analysis cannot tell which taken flag the new entry gets', unknown=True)
            elif inc != x['push']:
                fail('taken-flag', 'the new entry is marked taken=%s, the condition is %s: a later #elif/#else would select the wrong group' % (inc, x['push']))
            ok = isinstance(g, Obj) and g is not getattr(ctx, 'ci', None)
            if not ok:
                fail('stack-depth', 'after the opener the top of the conditional stack is not a new entry')
    elif x['stack'] == 'same':
        if pushes:
            fail('stack-depth', 'the directive pushes a new stack entry')
        elif not (g is ctx.ci):
            fail('stack-depth', 'the directive changes the conditional stack (top becomes %r); only #endif may pop' % (g,))
    elif x['stack'] == 'popped':
        nx = settle(it, ctx.ci_init['next'])
        same = (g is nx) or (isinstance(g, View) and isinstance(nx, View) and g.cell is nx.cell) or (isinstance(g, int) and isinstance(nx, int) and g == nx)
        if pushes or not same:
            fail('stack-depth', '#endif does not pop exactly the top entry (top becomes %r)' % (g,))
    # evaluation
    if len(evals) != x['eval']:
        if x['eval'] == 0:
            fail('evaluates-expression', 'the controlling expression is evaluated although %s; a skipped #elif line must only be read up to its name '
                 '(side effects such as __COUNTER__ happen, unevaluable expressions like `1/0` or `__has_feature(x)` are diagnosed)' %
                 ('a group of this conditional was already taken' if d == 'elif' else 'this directive has none'))
        else:
            fail('evaluates-expression', 'the controlling expression is evaluated %d times instead of once' % len(evals))
    elif evals:
        a = evals[0][2]
        i = idx_of(ctx, a[1]) if len(a) > 1 else None
        if off is not None and (i is None or i + off != 2):
            fail('expression-position', 'the expression is read starting %s instead of at the token after the directive name' %
                 ('at an unknown token' if i is None else 'at token #%d of the line' % (i + off)))
    if x['find']:
        if len(finds) != 1 or idx_of(ctx, finds[0][2][0] if finds[0][2] else None) != 2:
            fail('reads-macro-name', 'the macro tested is not the token after the directive name (%r)' % ([e[2] for e in finds],))
    # skipping
    sk = len(skips) > 0
    if sk != x['skip'] or len(skips) > 1:
        if x['skip']:
            fail('skips-group', 'the group is processed although it must be skipped')
        elif len(skips) > 1:
            fail('skips-group', 'the group skipper runs %d times' % len(skips))
        else:
            fail('skips-group', 'the group is skipped although it must be processed')
    elif sk:
        a0 = skips[0][2][0] if skips[0][2] else None
        if idx_of(ctx, a0) == 0:
            fail('skips-group', 'the group skipper starts at the `#` of the directive itself')
    if x['inc_after'] is not None:
        v = truth_in(it, ctx, ctx.ci.fields.get('included'))
        if v is None:
            fail('latches-taken', 'the analysis cannot tell the taken flag after the directive', unknown=True)
        elif v != x['inc_after']:
            fail('latches-taken', 'afterwards the entry says taken=%s, it must say %s: %s' % (
                v, x['inc_after'], 'a later #elif/#else group would be processed as well' if x['inc_after'] else 'no later group could be selected'))
    if x['else_after'] is not None:
        c = settle(it, ctx.ci.fields.get('ctx'))
        is_else = (c == E['IN_ELSE']) if isinstance(c, int) else None
        if is_else is None:
            fail('marks-else', 'the analysis cannot tell the part marker after the directive', unknown=True)
        elif is_else != x['else_after']:
            fail('marks-else', ('#else does not mark the entry as being in its else part: a second #else or an #elif after #else is not diagnosed'
                                if x['else_after'] else '#elif marks the entry as being in its else part: a following #else/#elif is wrongly diagnosed'))


def _describe(d, skey):
    if skey.startswith('cond='):
        return 'whose condition is ' + skey[5:]
    if skey == 'empty-stack':
        return 'with no open conditional'
    parts = skey.split('/')
    s = 'in the %s part of a conditional' % parts[0][3:]
    s += ', a group already taken' if parts[1] == 'taken=1' else ', no group taken yet'
    if len(parts) > 2:
        s += ', expression ' + parts[2][5:]
    return s


def _expr_offset(P, u, T):
    """eval_const_expr(rest, tok) starts reading at tok + offset (today tok->next: offset 1)"""
    it = PPInterp(P, u, {'models': {'equal': m_equal}, 'cut': {'read_const_expr': cut_tok('read_const_expr', rest_arg=0, tok_arg=1),
                                                             'copy_line': cut_tok('copy_line', rest_arg=0, tok_arg=1)},
                         'lazy_field': hook, 'loop_limit': 1})
    offs = set()
    try:
        res = it.explore('eval_const_expr', lambda ctx: _eval_args(ctx, T), max_paths=100)
    except Unsupported:
        return None
    for ctx, out in res:
        c = calls(ctx, ('read_const_expr', 'copy_line'))
        if c:
            i = idx_of(ctx, c[0][2][1] if len(c[0][2]) > 1 else None)
            offs.add(i)
    if len(offs) == 1 and None not in offs:
        return offs.pop()
    return None


def _eval_args(ctx, T):
    specs = T.line('a', [('if', 'TK_IDENT'), ('M', 'TK_IDENT'), ('N', 'TK_IDENT')]) + T.line('b', [('x', 'TK_IDENT')])
    specs[0] = (specs[0][0], specs[0][1], specs[0][2], False)
    ts = T.chain(specs)
    ctx.toks = ts
    ctx.tokidx = {id(t): i for i, t in enumerate(ts)}
    ctx.rest = _ValPlace(None)
    return [_Ref(ctx.rest), ts[0]]


def _r104_push(P, u, rep):
    fn = 'push_cond_incl'
    where = '%s:%d' % (U, u.fn(fn).line)
    E = u.enums

    def g(ctx):
        ctx.old = View(Cell([0, Obj('CondIncl', lazy=True, label='top')], 'cond_incl', names={0: 'NULL'}))
        return ctx.old
    it = PPInterp(P, u, {'globals': {'cond_incl': g}, 'track_stores': True})

    def mk(ctx):
        ctx.a_tok = Obj('Token', lazy=True, label='tok')
        ctx.a_inc = View(Cell([0, 1], 'included'))
        return [ctx.a_tok, ctx.a_inc]
    n = 0
    for ctx, out in it.explore(fn, mk, max_paths=50):
        if out[0] != 'ret':
            continue
        n += 1
        top = settle(it, ctx.globals.get('cond_incl'))
        ok_new = isinstance(top, Obj) and not top.lazy
        rep.ob('R10.4', '%s:%s:installs-new-top' % (U, fn), ok_new and settle(it, out[1]) is top,
               'push_cond_incl does not make a freshly allocated entry the top of the conditional stack', where=where)
        if not ok_new:
            continue
        nx = top.fields.get('next')
        linked = isinstance(nx, View) and nx.cell is ctx.old.cell
        rep.ob('R10.4', '%s:%s:links-previous-top' % (U, fn), linked,
               'the new entry does not point to the previous top: #endif would not return to the enclosing conditional', where=where)
        inc = top.fields.get('included')
        same = isinstance(inc, View) and inc.cell is ctx.a_inc.cell and all(bool(inc.proj(c)) == bool(c) for c in (0, 1))
        rep.ob('R10.4', '%s:%s:stores-taken-flag' % (U, fn), same, 'the new entry does not record the taken flag it was given', where=where)
        rep.ob('R10.4', '%s:%s:starts-in-then-part' % (U, fn), settle(it, top.fields.get('ctx', 0)) == E['IN_THEN'],
               'a new entry does not start in its then part: #else/#elif after the opener would be diagnosed as stray', where=where)
        rep.ob('R10.4', '%s:%s:records-opening-token' % (U, fn), top.fields.get('tok') is ctx.a_tok,
               'the new entry does not record the opening directive (the unterminated-conditional diagnostic has no location)', where=where)
    if n == 0:
        rep.undecided('R10.4', '%s:%s:no-path' % (U, fn), 'push_cond_incl has no returning path')


def _r104_eof(P, u, rep):
    fn = 'preprocess'
    where = '%s:%d' % (U, u.fn(fn).line)

    def g(ctx):
        ctx.cell = Cell([0, Obj('CondIncl', lazy=True, label='top')], 'cond_incl', names={0: 'NULL'})
        return View(ctx.cell)
    it = PPInterp(P, u, {'globals': {'cond_incl': g}, 'lazy_field': hook,
                         'cut': {'preprocess2': cut_tok('preprocess2'), 'convert_pp_tokens': None, 'join_adjacent_string_literals': None}})
    seen = set()
    bad = None
    for ctx, out in it.explore(fn, lambda ctx: [Obj('Token', lazy=True, label='tok')], max_paths=100):
        o = outcome(out)
        if not hasattr(ctx, 'cell') or len(ctx.cell.cands) != 1:
            # the stack was never inspected on this path
            if o[0] != 'error':
                bad = bad or 'preprocess() finishes without looking at the conditional stack'
            continue
        empty = ctx.cell.cands[0] == 0
        seen.add(empty)
        done = bool(calls(ctx, 'preprocess2'))
        if not empty and o[0] != 'error':
            bad = bad or 'an unterminated #if/#ifdef/#ifndef is accepted silently at end of input'
        if not empty and o[0] == 'error' and not done:
            bad = bad or 'the conditional stack is tested before the input has been processed'
        if empty and o[0] == 'error':
            bad = bad or 'balanced input is rejected at end of input'
    if bad is None and seen != {True, False}:
        rep.undecided('R10.4', '%s:%s:eof-check' % (U, fn), 'could not follow preprocess() for both an empty and a non-empty conditional stack')
        return
    rep.ob('R10.4', '%s:%s:diagnoses-open-conditional-at-eof' % (U, fn), bad is None, bad or '', where=where)


# ------------------------------------------------------------------------------------------------ R10.3
def _h_map(name, result):
    """cut for hashmap_get/put: remember which table (canonical text of the first argument) and the key"""
    def h(it, ctx, n, args):
        a = n.args()
        table = a[0].src() if a else '?'
        r = result(it, ctx, n, args, table) if result else None
        ctx.emit('call', name, args, n.line, r, table)
        return r
    return h


def _nullable(label, obj=None):
    def mk(it, ctx, n, args, table):
        o = obj(ctx, table) if obj else Obj(None, lazy=False, label='%s(%s)' % (label, table))
        o.meta['table'] = table
        return View(Cell([0, o], ctx.fresh(label + ':' + table), names={0: 'NULL'}))
    return mk


def _macro_table(u):
    for c in u.fn('find_macro').calls(('hashmap_get2', 'hashmap_get')):
        if c.args():
            return c.args()[0].src()
    raise AnalysisBroken('find_macro no longer reads a hash table')


def r103(P, u, T, rep):
    rep.rule('R10.3', 're-inclusion shortcuts are transparent: include_file returns without reading the file only for a `#pragma once` file or for a file '
             'recognised as guarded whose guard macro is defined right now; the guard memo is keyed by the path it is looked up with; '
             'detect_include_guard answers only after checking `#ifndef X`, `#define X` and a final `#endif` followed by end of file', floor=FLOORS['R10.3'])
    fn = 'include_file'
    where = '%s:%d' % (U, u.fn(fn).line)
    macros = _macro_table(u)
    cfg = {'cut': {'hashmap_get': _h_map('hashmap_get', _nullable('entry')),
                   'hashmap_put': _h_map('hashmap_put', None),
                   'tokenize_file': _h_map('tokenize_file', lambda it, ctx, n, args, table: View(Cell([0, Obj('Token', lazy=True, label='file-tokens')], ctx.fresh('tokenize_file'), names={0: 'NULL'}))),
                   'detect_include_guard': _h_map('detect_include_guard', lambda it, ctx, n, args, table: View(Cell([0, Obj(None, lazy=False, label='guard-name')], ctx.fresh('guard'), names={0: 'NULL'}))),
                   'append': _h_map('append', lambda it, ctx, n, args, table: Obj('Token', lazy=True, label='appended')),
                   'strerror': None, '__errno_location': None},
           'lazy_field': hook}
    it = PPInterp(P, u, cfg)

    def mk(ctx):
        ctx.a_tok = Obj('Token', lazy=True, label='rest')
        ctx.a_path = Sym('path', 'char *')
        ctx.a_ftok = Obj('Token', lazy=True, label='filename_tok')
        return [ctx.a_tok, ctx.a_path, ctx.a_ftok]
    nshort = nfull = 0
    once_tables = _pragma_once_tables(P, u, T)
    for ctx, out in it.explore(fn, mk, max_paths=300):
        o = outcome(out)
        gets = calls(ctx, 'hashmap_get')
        reads = calls(ctx, 'tokenize_file')
        if o[0] == 'ret' and not reads:
            nshort += 1
            # justification of the shortcut
            live = {}
            for e in gets:
                live[id(e)] = truth_in(it, ctx, e[4])
            just = None
            for e in gets:
                if live[id(e)] and e[5] in once_tables and len(e[2]) > 1 and key_base(e[2][1])[1] is ctx.a_path:
                    just = 'pragma-once'
            for e in gets:
                if not live[id(e)] or len(e[2]) < 2 or key_base(e[2][1])[1] is not ctx.a_path or e[5] in once_tables or e[5] == macros:
                    continue
                g = settle(it, e[4])
                for e2 in gets:
                    if e2[5] == macros and live[id(e2)] and len(e2[2]) > 1 and settle(it, e2[2][1]) is g:
                        just = just or 'live-guard'
            rep.ob('R10.3', '%s:%s:%s' % (U, fn, 'shortcut-justified' if just else 'shortcut-without-live-guard'), just is not None,
                   'include_file can skip a file without reading it on a path where neither `#pragma once` was seen for this path nor the recorded guard macro is '
                   'known to be defined now: after `#undef GUARD` a second #include of the file must yield its text again (X-macro headers), the shortcut drops it',
                   where=where, facts={'path': ctx.trail, 'lookups': [(e[5], live[id(e)]) for e in gets]})
            wr = calls(ctx, 'hashmap_put')
            rep.ob('R10.3', '%s:%s:shortcut-records-nothing' % (U, fn), not wr,
                   'on a path that skips the file without reading it include_file writes to table %s: what is memoised there outlives the condition that justified this skip '
                   '(a guard macro that is defined now may be #undef-ed before the next #include)' % ([e[5] for e in wr],), where=where, facts={'path': ctx.trail})
            rep.ob('R10.3', '%s:%s:shortcut-keeps-rest' % (U, fn), settle(it, o[1]) is ctx.a_tok,
                   'when a file is skipped the rest of the including file is not handed back unchanged', where=where)
            continue
        if not reads:
            continue
        rd = reads[0]
        rep.ob('R10.3', '%s:%s:reads-the-resolved-path' % (U, fn), len(rd[2]) >= 1 and rd[2][0] is ctx.a_path,
               'include_file reads another file than the path it was given', where=where)
        got = truth_in(it, ctx, rd[4])
        if got is False:
            rep.ob('R10.3', '%s:%s:diagnoses-unreadable-file' % (U, fn), o[0] == 'error',
                   'a file that cannot be opened is not diagnosed', where=where, facts={'path': ctx.trail})
            continue
        if o[0] != 'ret':
            rep.ob('R10.3', '%s:%s:readable-file-accepted' % (U, fn), False, 'a readable file is rejected (%s)' % (o[1],), where=where, facts={'path': ctx.trail})
            continue
        nfull += 1
        ftoks = settle(it, rd[4])
        det = calls(ctx, 'detect_include_guard')
        puts = calls(ctx, 'hashmap_put')
        ok_det = len(det) == 1 and len(det[0][2]) >= 1 and settle(it, det[0][2][0]) is ftoks
        rep.ob('R10.3', '%s:%s:guard-detected-on-this-file' % (U, fn), ok_det,
               'the include-guard recogniser is not run exactly once on the tokens of the file just read', where=where, facts={'path': ctx.trail})
        if ok_det:
            gname = truth_in(it, ctx, det[0][4])
            # table -> key it is looked up with: the path, or the file key computed from the path
            lookup_tables = {e[5]: e[2][1] for e in gets if e[5] not in once_tables and e[5] != macros and len(e[2]) > 1 and key_base(e[2][1])[1] is ctx.a_path}
            if gname:
                g = settle(it, det[0][4])
                ok_put = len(puts) == 1 and len(puts[0][2]) >= 3 and settle(it, puts[0][2][2]) is g and puts[0][5] in lookup_tables and puts[0][2][1] is lookup_tables[puts[0][5]]
                rep.ob('R10.3', '%s:%s:memoises-guard-under-lookup-key' % (U, fn), ok_put,
                       'the recognised guard macro is not recorded in the table and under the path that the shortcut later looks up', where=where, facts={'path': ctx.trail})
            else:
                rep.ob('R10.3', '%s:%s:no-memo-without-guard' % (U, fn), not puts,
                       'a file without a recognised guard is recorded as guarded', where=where, facts={'path': ctx.trail})
        ap = calls(ctx, 'append')
        ok_ap = len(ap) == 1 and len(ap[0][2]) == 2 and settle(it, ap[0][2][0]) is ftoks and settle(it, ap[0][2][1]) is ctx.a_tok and settle(it, o[1]) is ap[0][4]
        rep.ob('R10.3', '%s:%s:file-text-before-rest' % (U, fn), ok_ap,
               'the tokens of the included file are not placed in front of the rest of the including file', where=where, facts={'path': ctx.trail})
    if nshort == 0 or nfull == 0:
        rep.undecided('R10.3', '%s:%s:paths' % (U, fn), 'include_file: %d shortcut path(s), %d reading path(s) could be followed' % (nshort, nfull))
    _r103_detect(P, u, T, rep)


def _pragma_once_tables(P, u, T):
    """tables written by the `#pragma once` arm of the dispatcher"""
    cfg = pp2_config(u)
    cfg['cut'] = dict(cfg['cut'])
    cfg['cut']['hashmap_put'] = _h_map('hashmap_put', None)

    def mk(ctx):
        specs = T.line('a', [('#', 'TK_PUNCT'), ('pragma', 'TK_IDENT'), ('once', 'TK_IDENT')]) + T.line('b', [('x', 'TK_IDENT'), ('y', 'TK_IDENT')])
        ts = T.chain(specs)
        ctx.toks = ts
        ctx.tokidx = {id(t): i for i, t in enumerate(ts)}
        return [ts[0]]
    it = PPInterp(P, u, cfg)
    tabs = set()
    for ctx, out in it.explore('preprocess2', mk, max_paths=100):
        for e in calls(ctx, 'hashmap_put'):
            tabs.add(e[5])
    return tabs


def _r103_detect(P, u, T, rep):
    fn = 'detect_include_guard'
    where = '%s:%d' % (U, u.fn(fn).line)
    E = u.enums
    it = PPInterp(P, u, {'models': {'equal': m_equal, 'strndup': m_strndup}, 'cut': {'skip_cond_incl': cut_tok('skip_cond_incl')},
                         'lazy_field': hook, 'loop_limit': 12})

    def mk(ctx):
        # six tokens of unknown spelling (the two lines every guarded file must start with), then a known tail:
        #   x y / # endif <EOF>
        ts = [Obj('Token', lazy=True, label='t%d' % i) for i in range(6)]
        tail = T.chain(T.line('p', [('x', 'TK_IDENT'), ('y', 'TK_IDENT')]) + T.line('s', [('#', 'TK_PUNCT'), ('endif', 'TK_IDENT')]) + [('eof', '', 'TK_EOF', True)])
        ts += tail
        for a, b in zip(ts, ts[1:]):
            a.fields['next'] = b
        ctx.toks = ts
        return [ts[0]]

    def eq_true(ctx, t, lit):
        for e in ctx.events:
            if e[0] == 'equal' and e[1] is t and e[2] == lit and truth_in(it, ctx, e[3]) is True:
                return True
        return False

    def eq_spelling(ctx, t, src):
        for e in ctx.events:
            if e[0] == 'equal' and e[1] is t and spelled_from(e[2]) is src and truth_in(it, ctx, e[3]) is True:
                return True
        return False

    def fld(ctx, t, f):
        v = t.fields.get(f) if isinstance(t, Obj) else None
        return settle(it, v) if v is not None else None
    n = 0
    fails = {}
    for ctx, out in it.explore(fn, mk, max_paths=3000):
        if out[0] != 'ret':
            continue
        v = settle(it, out[1])
        if isinstance(v, int) and v == 0:
            continue
        n += 1
        t = ctx.toks
        checks = {
            'first-line-is-a-directive': eq_true(ctx, t[0], '#') and fld(ctx, t[0], 'at_bol') == 1,
            'first-directive-is-ifndef': eq_true(ctx, t[1], 'ifndef'),
            'guard-is-an-identifier': fld(ctx, t[2], 'kind') == E['TK_IDENT'],
            'second-line-is-a-directive': eq_true(ctx, t[3], '#') and fld(ctx, t[3], 'at_bol') == 1,
            'second-directive-is-define': eq_true(ctx, t[4], 'define'),
            'defines-the-same-macro': eq_spelling(ctx, t[5], t[2]),
            'answers-the-tested-macro': spelled_from(v) is t[2],
        }
        # the accepting #endif: `#` at line start, `endif`, then TK_EOF
        acc = False
        ends = [e for e in ctx.events if e[0] == 'equal' and e[2] == 'endif' and truth_in(it, ctx, e[3]) is True and isinstance(e[1], Obj)]
        for e in ends[-1:]:
            if True:
                en = e[1]
                after = fld(ctx, en, 'next')
                if isinstance(after, Obj) and fld(ctx, after, 'kind') == E['TK_EOF']:
                    for e2 in ctx.events:
                        if e2[0] == 'equal' and e2[2] == '#' and truth_in(it, ctx, e2[3]) is True and isinstance(e2[1], Obj) and \
                                fld(ctx, e2[1], 'next') is en and fld(ctx, e2[1], 'at_bol') == 1:
                            acc = True
        checks['ends-with-endif-then-eof'] = acc
        for k, ok in checks.items():
            if not ok:
                fails.setdefault(k, ctx.trail)
    if n == 0:
        rep.undecided('R10.3', '%s:%s:no-accepting-path' % (U, fn), 'detect_include_guard has no path that recognises a guard')
        return
    says = {
        'first-line-is-a-directive': 'the first token of the file is `#` at the start of a line',
        'first-directive-is-ifndef': 'the first directive is #ifndef',
        'guard-is-an-identifier': 'the #ifndef operand is an identifier',
        'second-line-is-a-directive': 'the second line is a directive',
        'second-directive-is-define': 'the second directive is #define',
        'defines-the-same-macro': 'the #define defines the macro tested by the #ifndef',
        'answers-the-tested-macro': 'the name it answers is the macro tested by the #ifndef',
        'ends-with-endif-then-eof': 'the accepting `#endif` is a directive at line start and is followed by the end of the file',
    }
    for k in says:
        rep.ob('R10.3', '%s:%s:requires/%s' % (U, fn, k), k not in fails,
               'detect_include_guard can report a file as guarded without having checked that %s: a second #include of such a file is then suppressed although '
               'textual inclusion would yield text' % says[k], where=where, facts={'path': fails.get(k)})


def r105_width(P, u, rep):
    """the value of a #if / #elif expression (intmax_t arithmetic, C11 6.10.1p4) must reach the zero test unnarrowed"""
    from ..interp import int_type
    n = 0
    for fname, fd in u.functions.items():
        for c in fd.calls('eval_const_expr'):
            n += 1
            # climb through implicit casts / parens to the consumer
            node = c
            par = c.parent
            narrowed = None
            while par is not None and par.kind in ('ImplicitCastExpr', 'ParenExpr', 'CStyleCastExpr'):
                t = int_type(par.dtype or par.type)
                if t and t[0] < 64 and par.cast_kind in ('IntegralCast',):
                    narrowed = par.dtype or par.type
                node = par; par = par.parent
            dest = None
            if par is not None and par.kind == 'VarDecl':
                dest = par.dtype or par.type
            elif par is not None and par.kind == 'BinaryOperator' and par.opcode == '=' and par.inner[1] is node:
                dest = par.inner[0].dtype or par.inner[0].type
            dt = int_type(dest) if dest else None
            ok = narrowed is None and (dt is None or dt[0] >= 64 or dt[0] == 1)
            rep.ob('R10.5', '%s:%s:if-value-unnarrowed' % (U, fname), ok,
                   'the value of a #if/#elif expression is stored in / converted to `%s` before it is tested: a non-zero multiple of 2^32 selects the wrong group (C11 6.10.1p4: intmax_t)' % (narrowed or dest), where='%s:%d' % (U, c.line))
    if n == 0:
        rep.undecided('R10.5', '%s:eval_const_expr:callers' % U, 'no caller of eval_const_expr found')


# ------------------------------------------------------------------------------------------------ R10.13
S64, U64 = (8, 0), (8, 1)
# class of constant: (key, pp-number or character constant, C type the tokenizer / convert_pp_int gives it, probe spellings, what it acts as in #if)
_IF_OPERAND_CLASSES = (
    ('number-int', 'number', 'ty_int', ('1',), S64),
    ('number-long', 'number', 'ty_long', ('4294967296',), S64),
    # `unsigned int` is what 1u gets, but also what an unsuffixed 0xFFFFFFFF gets: the former acts as uintmax_t, the latter fits intmax_t and is signed
    ('number-uint-suffixed', 'number', 'ty_uint', ('1u', '2U'), U64),
    ('number-uint-unsuffixed', 'number', 'ty_uint', ('0xFFFFFFFF', '037777777777'), S64),
    ('number-ulong-suffixed', 'number', 'ty_ulong', ('1ul', '2LU'), U64),
    ('number-ulong-unsuffixed', 'number', 'ty_ulong', ('0xFFFFFFFFFFFFFFFF',), U64),
    ('charconst-int', 'charconst', 'ty_int', ("'u'", "L'a'"), S64),
    ('charconst-ushort', 'charconst', 'ty_ushort', ("u'a'",), U64),
    ('charconst-uint', 'charconst', 'ty_uint', ("U'a'",), U64),
)


def _m_memchr(it, ctx, n, args):
    s, c = args[0], args[1]
    k = args[2] if len(args) > 2 else None
    if isinstance(s, str) and isinstance(c, int) and (k is None or isinstance(k, int)):
        t = s if k is None else s[:k]
        i = t.find(chr(c & 255))
        return s[i:] if i >= 0 else 0
    raise Unsupported('%s on %r' % (n.callee(), s))


def _scalar_types(P):
    """(catalogue, {'ty_int': Type object, ...}): the scalar types of type.c as interpreter objects (values of the globals ty_*)"""
    from ..chibi import Catalogue
    cat = Catalogue(P)
    tyobj = {}
    for g, f in cat.scalars.items():
        o = Obj('Type', lazy=True, label=g)
        for k in ('kind', 'size', 'align', 'is_unsigned'):
            o.fields[k] = int(f[k]) if isinstance(f[k], (int, bool)) else f[k]
        o.fields['base'] = 0
        tyobj[g] = o
    return cat, tyobj


def r1013_if_operand_types(P, u, T, rep):
    """C11 6.10.1p4: in a controlling expression all signed integer types act as intmax_t and all unsigned ones as uintmax_t.  The evaluator behind
    eval_const_expr is the ordinary constant folder: it converts and reduces by the *types of the nodes*, and these derive from the types of the number tokens
    (every other leaf -- identifiers, `defined` -- has been rewritten to a number by then).  So the clause holds only if every number token is 64 bits wide,
    with the right signedness, at the moment const_expr is called.  eval_const_expr is run on an expanded line made of one probe constant per class (pp-numbers
    and character constants with their spelling and the C type the tokenizer gives them), convert_pp_tokens modelled (PP_NUM -> NUM of that type); the types are
    read off when const_expr is called."""
    rep.rule('R10.13', 'in a controlling expression every integer constant acts as intmax_t or uintmax_t (C11 6.10.1p4): when const_expr is called each number token '
             'has an 8-byte type; it is unsigned iff the constant is an unsigned character constant, has a `u` suffix or does not fit intmax_t', floor=FLOORS['R10.13'])
    fn = 'eval_const_expr'
    where = '%s:%d' % (U, u.fn(fn).line)
    E = u.enums
    cat, tyobj = _scalar_types(P)
    for c in _IF_OPERAND_CLASSES:
        if c[2] not in tyobj:
            raise AnalysisBroken('type.c: %s vanished' % c[2])

    def h_read(it, ctx, n, args):
        r = Obj('Token', lazy=True, label='line-with-defined-rewritten')
        r.fields['kind'] = E['TK_IDENT']
        if args:
            set_out(it, args[0], resync(ctx, 'read_const_expr', args[1] if len(args) > 1 else None))
        ctx.emit('call', 'read_const_expr', args, n.line, r, None)
        return r

    def h_pp2(it, ctx, n, args):
        ctx.ex = []
        ctx.probe = []
        for name, kcls, g, spellings, want in _IF_OPERAND_CLASSES:
            for sp in spellings:
                t = Obj('Token', lazy=True, label='`%s`' % sp)
                t.fields.update({'kind': E['TK_PP_NUM'] if kcls == 'number' else E['TK_NUM'], 'loc': sp, 'len': len(sp), 'at_bol': 0, 'has_space': 1})
                if kcls == 'charconst':
                    t.fields['ty'] = tyobj[g]
                t.meta['cty'] = g
                ctx.ex.append(t)
                ctx.probe.append((name, sp, t))
        e = Obj('Token', lazy=True, label='eof'); e.fields['kind'] = E['TK_EOF']; e.fields['next'] = 0
        ctx.ex.append(e)
        for a, b in zip(ctx.ex, ctx.ex[1:]):
            a.fields['next'] = b
        ctx.emit('call', 'preprocess2', args, n.line, ctx.ex[0], None)
        return ctx.ex[0]

    def h_conv(it, ctx, n, args):
        if len(args) != 1 or not hasattr(ctx, 'ex') or settle(it, args[0]) is not ctx.ex[0]:
            raise AnalysisBroken('convert_pp_tokens is not applied to the macro-expanded line (one argument)')
        for t in ctx.ex:
            if settle(it, t.fields.get('kind')) == E['TK_PP_NUM'] and 'cty' in t.meta:
                t.fields['kind'] = E['TK_NUM']
                t.fields['ty'] = tyobj[t.meta['cty']]
        ctx.emit('call', 'convert_pp_tokens', args, n.line, None, None)
        return None

    def h_const(it, ctx, n, args):
        ctx.snap = [(name, sp, t.fields.get('kind'), t.fields.get('ty')) for name, sp, t in getattr(ctx, 'probe', [])]
        if args and hasattr(ctx, 'ex'):
            set_out(it, args[0], ctx.ex[-1])
        v = Sym('value-of-expression', 'long')
        ctx.emit('call', 'const_expr', args, n.line, v, None)
        return v
    it = PPInterp(P, u, {'cut': {'read_const_expr': h_read, 'preprocess2': h_pp2, 'const_expr': h_const, 'convert_pp_tokens': h_conv, 'find_macro': h_find_macro},
                         'models': {'memchr': _m_memchr, 'strchr': _m_memchr}, 'lazy_field': hook, 'loop_limit': 6, 'globals': dict(tyobj)})
    res = it.explore(fn, lambda ctx: _eval_args(ctx, T), max_paths=400)
    got = {}        # (class, spelling) -> set of (size, unsigned) | ('?', text)
    nsnap = 0
    ints = [cat.enums.get(k) for k in ('TY_LONG', 'TY_INT', 'TY_SHORT', 'TY_CHAR')]
    for ctx, out in res:
        if out[0] != 'ret' or not hasattr(ctx, 'snap'):
            continue
        nsnap += 1
        for name, sp, kind, ty in ctx.snap:
            kind, fin = settle(it, kind), settle(it, ty)
            have = got.setdefault((name, sp), set())
            if kind != E['TK_NUM']:
                have.add(('?', 'the token is no number token any more'))
            elif not isinstance(fin, Obj):
                have.add(('?', 'its type is %r' % (fin,)))
            else:
                sz, us, kd = (settle(it, fin.fields.get(k)) for k in ('size', 'is_unsigned', 'kind'))
                if not isinstance(sz, int) or not isinstance(us, (int, bool)) or kd not in ints:
                    have.add(('?', 'its type is %s' % (fin.label,)))
                else:
                    have.add((sz, 1 if us else 0))
    if nsnap == 0:
        rep.undecided('R10.13', '%s:%s:if-operand/no-path' % (U, fn), 'eval_const_expr: no returning path through convert_pp_tokens and const_expr could be followed')
        return
    tn = {S64: 'long (intmax_t)', U64: 'unsigned long (uintmax_t)', (4, 0): 'int', (4, 1): 'unsigned int', (2, 1): 'unsigned short', (2, 0): 'short',
          (1, 0): 'char', (1, 1): 'unsigned char'}
    eg = {'number-int': '`#if (2147483647 + 1) > 0` is false', 'number-uint-suffixed': '`#if 1u << 32` and `#if ~0u == 0xFFFFFFFFFFFFFFFF` are false',
          'number-uint-unsuffixed': '`#if 0xFFFFFFFF + 1` and `#if -1 < 0xFFFFFFFF` are false',
          'charconst-int': "`#if ('a' << 31) > 0` is false", 'charconst-ushort': "`#if (u'a' << 32) != 0` is false", 'charconst-uint': "`#if (U'a' << 32) != 0` is false"}
    for name, kcls, g, spellings, want in _IF_OPERAND_CLASSES:
        key = '%s:%s:if-operand/%s' % (U, fn, name)
        ctype = tn.get((int(tyobj[g].fields['size']), int(tyobj[g].fields['is_unsigned'])), g[3:])
        verdict = None
        for sp in spellings:
            have = got.get((name, sp), set())
            unk = sorted(x[1] for x in have if x[0] == '?')
            if not have or unk or len(have) > 1:
                verdict = verdict or ('?', 'the type with which `%s` reaches const_expr could not be determined: %s' % (
                    sp, unk[0] if unk else ('no path' if not have else 'it depends on something the analysis does not model (%s)' % ', '.join(tn.get(x, str(x)) for x in sorted(have)))))
                continue
            h = next(iter(have))
            what = 'the %s `%s` (C type `%s`)' % ('number' if kcls == 'number' else 'character constant', sp, ctype)
            if h[0] < 8:
                verdict = ('narrow', '%s reaches the constant folder of #if/#elif as `%s`: the usual arithmetic conversions and the reduction to the node type are then carried '
                           'out in %d bits, but in a controlling expression every integer type acts as intmax_t/uintmax_t (C11 6.10.1p4)%s' % (
                               what, tn.get(h, h), h[0] * 8, ': ' + eg[name] if name in eg else ''))
                break
            if h != want:
                why = {'number-uint-unsuffixed': ': it has no `u` suffix and fits intmax_t, so it is signed (`#if -1 < 0xFFFFFFFF` is true)',
                       'number-uint-suffixed': ': its `u` suffix makes it unsigned (`#if -1 < 1u` is false)'}.get(name, '')
                verdict = ('signedness', '%s acts as `%s` in a controlling expression; C11 6.10.1p4 makes it `%s`%s' % (what, tn.get(h, h), tn[want], why))
                break
        if verdict is None:
            rep.ob('R10.13', key, True, '', where=where)
        elif verdict[0] == '?':
            rep.undecided('R10.13', key, verdict[1], where=where)
        else:
            rep.ob('R10.13', '%s/%s' % (key, verdict[0]), False, verdict[1], where=where)


# ------------------------------------------------------------------------------------------------ R10.5
def r105(P, u, T, rep):
    rep.rule('R10.5', '#if operand preparation order in eval_const_expr: `defined` rewriting, then macro expansion, then remaining identifiers to 0, '
             'then pp-number conversion, then const_expr, then the trailing-token diagnostic; `defined X`/`defined(X)` becomes 1 iff X is a macro', floor=FLOORS['R10.5'])
    fn = 'eval_const_expr'
    where = '%s:%d' % (U, u.fn(fn).line)
    E = u.enums
    kinds = [E[k] for k in ('TK_IDENT', 'TK_PUNCT', 'TK_KEYWORD', 'TK_STR', 'TK_NUM', 'TK_PP_NUM', 'TK_EOF') if k in E]
    knames = {E[k]: k for k in E if k.startswith('TK_')}

    def h_read(it, ctx, n, args):
        r = Obj('Token', lazy=True, label='line-with-defined-rewritten')
        r.fields['kind'] = E['TK_IDENT']
        if args:
            set_out(it, args[0], resync(ctx, 'read_const_expr', args[1] if len(args) > 1 else None))
        ctx.emit('call', 'read_const_expr', args, n.line, r, None)
        return r

    def h_pp2(it, ctx, n, args):
        # the expanded list: two tokens of unknown kind, then EOF
        e2 = Obj('Token', lazy=True, label='e2'); e2.fields['kind'] = E['TK_EOF']
        e1 = Obj('Token', lazy=True, label='e1'); e1.fields['next'] = e2
        e0 = Obj('Token', lazy=True, label='e0'); e0.fields['next'] = e1
        ctx.ex = [e0, e1, e2]
        ctx.kcell = []
        for e in (e0, e1):
            c = Cell(list(kinds), e.label + '.kind', names=knames)
            e.fields['kind'] = View(c)
            ctx.kcell.append(c)
            if 'ty_long' in tyobj:
                e.fields['ty'] = tyobj['ty_long']     # which type a number has is R10.13's subject; here: one that needs no adjustment
        ctx.emit('call', 'preprocess2', args, n.line, e0, None)
        return e0

    def h_num(it, ctx, n, args):
        r = Obj('Token', lazy=False, label=ctx.fresh('num'))
        r.fields['kind'] = E['TK_PP_NUM']
        r.meta['num'] = args[0] if args else None
        ctx.emit('call', 'new_num_token', args, n.line, r, None)
        return r

    def h_const(it, ctx, n, args):
        r = Obj('Token', lazy=True, label='after-expression')
        c = Cell(list(kinds), 'after-expression.kind', names=knames)
        r.fields['kind'] = View(c)
        ctx.after = c
        if args:
            set_out(it, args[0], r)
        v = Sym('value-of-expression', 'long')
        ctx.emit('call', 'const_expr', args, n.line, v, None)
        return v
    # the macro table is unknown here: whether a name is (still) defined is a fact about the program text, not about this function.  A token that is
    # an identifier after macro replacement may well name a macro (`#define X X`: the hide set stops the expansion; a function-like macro name
    # without `(`), C11 6.10.1p4 makes no exception for it
    lookups = ('find_macro',) + TABLE_LOOKUPS       # the latter are cut by PPInterp itself
    try:
        tyobj = _scalar_types(P)[1]
    except (AnalysisBroken, Unsupported):
        tyobj = {}
    it = PPInterp(P, u, {'cut': {'read_const_expr': h_read, 'preprocess2': h_pp2, 'new_num_token': h_num, 'const_expr': h_const,
                                 'convert_pp_tokens': None, 'find_macro': h_find_macro},
                         'lazy_field': hook, 'loop_limit': 4, 'globals': dict(tyobj)})
    want = ['read_const_expr', 'preprocess2', 'convert_pp_tokens', 'const_expr']
    nret = 0
    fails = {}
    seen_ident = False
    seen_trailing_err = False
    seen_empty_err = False

    def fail(k, msg, ctx):
        fails.setdefault(k, (msg, ctx.trail))
    res = it.explore(fn, lambda ctx: _eval_args(ctx, T), max_paths=2000)
    for ctx, out in res:
        o = outcome(out)
        cs = calls(ctx)
        names = [e[1] for e in cs]
        if o[0] == 'error':
            if hasattr(ctx, 'after') and TKEOF(E) not in ctx.after.cands:
                seen_trailing_err = True
            if hasattr(ctx, 'ex') and 'const_expr' not in names and ctx.kcell[0].cands == [E['TK_EOF']]:
                seen_empty_err = True
            continue
        if o[0] != 'ret':
            continue
        nret += 1
        core = [x for x in names if x in want]
        if core != want:
            for a, b in zip(want, want[1:]):
                ia = names.index(a) if a in names else None
                ib = names.index(b) if b in names else None
                if ia is None or ib is None or not ia < ib or names.count(a) != 1 or names.count(b) != 1:
                    fail('order/%s-before-%s' % (a, b), 'the steps run as %s; %s must run (once) before %s' % (' -> '.join(core) or 'none', a, b), ctx)
        byname = {e[1]: e for e in cs if e[1] in want}
        if all(k in byname for k in want):
            rd, pp, cv, ce = (byname[k] for k in want)
            if not (len(pp[2]) >= 1 and pp[2][0] is rd[4]):
                fail('expands-the-rewritten-line', 'macro expansion is not applied to the line in which `defined` has been rewritten '
                     '(`defined(X)` would be macro-expanded first)', ctx)
            if not (len(cv[2]) >= 1 and cv[2][0] is pp[4] and len(ce[2]) >= 2 and ce[2][1] is pp[4]):
                fail('evaluates-the-expanded-line', 'pp-number conversion / const_expr are not applied to the macro-expanded line', ctx)
            if o[1] is not ce[4]:
                fail('returns-the-value', 'eval_const_expr does not return the value computed by const_expr', ctx)
            # identifiers -> 0, between expansion and conversion
            nums = [e for e in cs if e[1] == 'new_num_token']
            i_pp, i_cv = cs.index(pp), cs.index(cv)
            for k, e in enumerate(ctx.ex[:2]):
                was_ident = ctx.kcell[k].cands == [E['TK_IDENT']]
                may_ident = E['TK_IDENT'] in ctx.kcell[k].cands
                mine = [x for x in nums if len(x[2]) > 1 and x[2][1] is e]
                if was_ident:
                    seen_ident = True
                    ok = len(mine) == 1 and mine[0][2][0] == 0 and i_pp < cs.index(mine[0]) < i_cv and \
                        settle(it, e.fields.get('kind')) == E['TK_PP_NUM'] and settle(it, e.fields.get('next')) is ctx.ex[k + 1]
                    hits = [x for x in cs if x[1] in lookups and truth_in(it, ctx, x[4]) is True]
                    if not ok and hits:
                        fail('macro-names-become-0', 'an identifier that is left after macro expansion but names a macro (%s answers non-NULL: a self-referential macro such as '
                             '`#define X X` whose re-expansion the hide set stops, or a function-like macro name not followed by `(`) is not replaced by the number 0: it reaches the '
                             'expression parser as an identifier and the valid `#if X` is rejected instead of reading as `#if 0` (C11 6.10.1p4 replaces all remaining identifiers)'
                             % hits[0][1], ctx)
                    elif not ok:
                        fail('identifiers-become-0', 'an identifier that is left after macro expansion is not replaced in place by the number 0 (keeping its successor) '
                             'before the expression is parsed: `#if UNDEFINED_NAME` would not read as `#if 0`', ctx)
                elif may_ident and not mine:
                    fail('identifiers-become-0', 'a token that may be an identifier reaches the expression parser unchanged', ctx)
                elif not may_ident and mine:
                    fail('identifiers-become-0', 'a token that is not an identifier is replaced by 0', ctx)
            if hasattr(ctx, 'after') and ctx.after.cands != [E['TK_EOF']]:
                fail('rejects-trailing-tokens', 'tokens left over after the constant expression are accepted silently', ctx)
    if nret == 0 or (not seen_ident and not fails):
        rep.undecided('R10.5', '%s:%s:no-path' % (U, fn), 'eval_const_expr: no returning path with an identifier in the expanded line could be followed')
        return
    if not seen_trailing_err:
        fails.setdefault('rejects-trailing-tokens', ('no diagnostic is issued when tokens are left over after the constant expression', None))
    if not seen_empty_err:
        fails.setdefault('rejects-empty-expression', ('an empty controlling expression is not diagnosed before it is parsed', None))
    keys = ['order/%s-before-%s' % (a, b) for a, b in zip(want, want[1:])] + ['expands-the-rewritten-line', 'evaluates-the-expanded-line',
            'returns-the-value', 'identifiers-become-0', 'macro-names-become-0', 'rejects-trailing-tokens', 'rejects-empty-expression']
    for k in keys:
        f = fails.get(k)
        rep.ob('R10.5', '%s:%s:%s' % (U, fn, k), f is None, f[0] if f else '', where=where, facts={'path': f[1]} if f else None)
    _r105_defined(P, u, T, rep)


def TKEOF(E):
    return E['TK_EOF']


def _r105_defined(P, u, T, rep):
    fn = 'read_const_expr'
    where = '%s:%d' % (U, u.fn(fn).line)
    E = u.enums
    for form, words in (('defined(X)', [('defined', 'TK_IDENT'), ('(', 'TK_PUNCT'), ('M', 'TK_IDENT'), (')', 'TK_PUNCT'), ('y', 'TK_IDENT')]),
                        ('defined X', [('defined', 'TK_IDENT'), ('M', 'TK_IDENT'), ('y', 'TK_IDENT')])):
        def h_copy(it, ctx, n, args, words=words):
            specs = T.line('d', words, first_bol=False) + [('eof', '', 'TK_EOF', True)]
            ts = T.chain(specs)
            ctx.toks = ts
            ctx.tokidx = {id(t): i for i, t in enumerate(ts)}
            if args:
                set_out(it, args[0], resync(ctx, 'copy_line', None))
            ctx.emit('call', 'copy_line', args, n.line, ts[0], None)
            return ts[0]

        def h_num(it, ctx, n, args):
            r = Obj('Token', lazy=False, label=ctx.fresh('num'))
            r.fields['kind'] = E['TK_PP_NUM']
            ctx.emit('call', 'new_num_token', args, n.line, r, None)
            return r
        it = PPInterp(P, u, {'models': {'equal': m_equal}, 'cut': {'copy_line': h_copy, 'new_num_token': h_num, 'find_macro': h_find_macro},
                             'lazy_field': hook, 'loop_limit': 8})
        bad = None
        seen = set()
        for ctx, out in it.explore(fn, lambda ctx: [_Ref(_ValPlace(None)), Obj('Token', lazy=True, label='line')], max_paths=200):
            o = outcome(out)
            if o[0] != 'ret':
                bad = bad or 'the well-formed operand `%s` is rejected (%s)' % (form, o[1])
                continue
            finds = calls(ctx, 'find_macro')
            nums = calls(ctx, 'new_num_token')
            mi = [i for i, t in enumerate(ctx.toks) if t.meta.get('text') == 'M'][0]
            if len(finds) != 1 or idx_of(ctx, finds[0][2][0] if finds[0][2] else None) != mi:
                bad = bad or 'the macro looked up for `%s` is not the operand of defined' % form
                continue
            d = truth_in(it, ctx, finds[0][4])
            seen.add(d)
            if len(nums) != 1 or not isinstance(nums[0][2][0], int) or bool(nums[0][2][0]) != d:
                bad = bad or '`%s` with X %s is rewritten to %r' % (form, 'defined' if d else 'not defined', [e[2][0] for e in nums])
                continue
            # result list: the number, then `y`, then EOF; none of defined ( M )
            lst = []
            t = settle(it, o[1])
            while isinstance(t, Obj) and len(lst) < 8:
                lst.append(t)
                if t.fields.get('kind') == E['TK_EOF']:
                    break
                t = settle(it, t.fields.get('next'))
            yi = [i for i, t in enumerate(ctx.toks) if t.meta.get('text') == 'y'][0]
            ok = len(lst) == 3 and lst[0] is nums[0][4] and lst[1] is ctx.toks[yi] and lst[2] is ctx.toks[-1]
            if not ok:
                bad = bad or 'after rewriting `%s y` the operand list is %r instead of [0-or-1, y, EOF]' % (form, lst)
        if seen != {True, False} and bad is None:
            rep.undecided('R10.5', '%s:%s:%s' % (U, fn, form.replace(' ', '-')), 'could not follow read_const_expr on `%s` for both a defined and an undefined macro' % form)
            continue
        rep.ob('R10.5', '%s:%s:%s' % (U, fn, form.replace(' ', '-')), bad is None, bad or '', where=where)


# ------------------------------------------------------------------------------------------------ R10.7
def r107(P, u, rep):
    rep.rule('R10.7', 'include search keeps its side effects: a memoised lookup (function with a static cache) writes on a cache hit every global it writes when it '
             'computes the answer; a directory search that finds the file at index i leaves the #include_next cursor at i + 1', floor=FLOORS['R10.7'])
    scal = {}
    for name, d in u.globals.items():
        t = (d.dtype or d.type or '').strip()
        if t.endswith(']') or t.replace('struct ', '') in u.records or 'HashMap' in t:
            continue
        scal[name] = t

    def ginit(name, t):
        def mk(ctx):
            v = Sym('g:' + name, t)
            if not hasattr(ctx, 'g0'):
                ctx.g0 = {}
            ctx.g0[name] = v
            return v
        return mk
    gl = {n: ginit(n, t) for n, t in scal.items()}
    gl['include_paths'] = lambda ctx: Obj('StringArray', lazy=True, label='include_paths')
    cands = [f for f, fd in u.functions.items() if any(v.kind == 'VarDecl' and v.d.get('storageClass') == 'static' and 'HashMap' in (v.type or '') for v in fd.walk())]
    if 'search_include_paths' not in cands:
        # not memoised (any more): every lookup computes its answer, nothing can be skipped
        rep.ob('R10.7', '%s:search_include_paths:not-memoised' % U, True, '', where='%s:%d' % (U, u.fn('search_include_paths').line))
    for fn in cands:
        where = '%s:%d' % (U, u.fn(fn).line)
        cfg = {'cut': {'hashmap_get': _h_map('hashmap_get', _nullable('entry')), 'hashmap_put': _h_map('hashmap_put', None),
                       'file_exists': None, 'tokenize_file': _h_map('tokenize_file', lambda it, ctx, n, args, table: View(Cell([0, Obj('Token', lazy=True, label='file-tokens')], ctx.fresh('tokenize_file')))),
                       'detect_include_guard': None, 'append': None, 'strerror': None, '__errno_location': None},
               'globals': gl, 'lazy_field': hook, 'loop_limit': 2}
        it = PPInterp(P, u, cfg)
        params = u.params(fn)

        def mk(ctx, params=params):
            return [Obj('Token', lazy=True, label=p.name) if (p.type or '').startswith('Token') else Sym(p.name, p.type) for p in params]
        try:
            res = it.explore(fn, mk, max_paths=500)
        except Unsupported as e:
            rep.undecided('R10.7', '%s:%s:memo' % (U, fn), 'cannot interpret %s: %s' % (fn, e))
            continue
        statics = set(v.name for v in u.fn(fn).walk() if v.kind == 'VarDecl' and v.d.get('storageClass') == 'static' and 'HashMap' in (v.type or ''))
        w_compute, w_hit = None, None
        nhit = ncomp = 0
        for ctx, out in res:
            if out[0] != 'ret':
                continue
            gets = [e for e in calls(ctx, 'hashmap_get') if e[5].lstrip('&') in statics]
            puts = [e for e in calls(ctx, 'hashmap_put') if e[5].lstrip('&') in statics]
            written = set(n for n, v0 in getattr(ctx, 'g0', {}).items() if ctx.globals.get(n) is not v0)
            if puts:
                ncomp += 1
                w_compute = written if w_compute is None else (w_compute | written)
            elif gets and any(truth_in(it, ctx, e[4]) for e in gets) and not calls(ctx, ('file_exists', 'tokenize_file')):
                nhit += 1
                w_hit = written if w_hit is None else (w_hit & written)
        if not ncomp or not nhit:
            if fn == 'search_include_paths':
                rep.undecided('R10.7', '%s:%s:memo' % (U, fn), '%s: %d computing and %d cache-hit path(s) found' % (fn, ncomp, nhit))
            continue
        miss = sorted((w_compute or set()) - (w_hit or set()))
        if not miss:
            rep.ob('R10.7', '%s:%s:cache-hit-keeps-side-effects' % (U, fn), True, '', where=where)
        for g in miss:
            rep.ob('R10.7', '%s:%s:%s-not-updated-on-cache-hit' % (U, fn, g), False,
                   '%s sets the global `%s` when it computes its answer but not when it answers from its static cache: the state left behind depends on whether the '
                   'same name was looked up before (a second `#include <x.h>` leaves the #include_next cursor of the previously included header)' % (fn, g), where=where)
    _r107_cursor(P, u, rep, gl)


def _r107_cursor(P, u, rep, gl):
    for fn in ('search_include_paths', 'search_include_next'):
        where = '%s:%d' % (U, u.fn(fn).line)
        cfg = {'cut': {'hashmap_get': _h_map('hashmap_get', lambda it, ctx, n, args, table: 0), 'hashmap_put': _h_map('hashmap_put', None), 'file_exists': None},
               'globals': gl, 'lazy_field': hook, 'loop_limit': 3}
        it = PPInterp(P, u, cfg)
        n = 0
        nfree = 0
        bad = None
        unsearched = None
        psyms = [Sym('p:' + p.name, p.type) for p in u.params(fn)] or [Sym('filename', 'char *')]
        for ctx, out in it.explore(fn, lambda ctx: list(psyms), max_paths=500):
            if out[0] != 'ret':
                continue
            fe = calls(ctx, 'file_exists')
            if not fe or not truth_in(it, ctx, fe[-1][4]):
                # an answer given without a successful directory probe (and, the cache being empty here, not from the cache)
                r = settle(it, out[1]) if isinstance(out[1], View) else out[1]
                if not (isinstance(r, int) and r == 0):
                    nfree += 1
                    cur = ctx.globals.get('include_next_idx')
                    cur = settle(it, cur) if isinstance(cur, View) else cur
                    if not (isinstance(cur, int) and not isinstance(cur, bool) and cur == 0):
                        stale = cur is getattr(ctx, 'g0', {}).get('include_next_idx')
                        unsearched = unsearched or ((stale, cur), ctx.trail)
                continue
            # the directory probed last: format("%s/%s", include_paths.data[i], filename)
            p = fe[-1][2][0] if fe[-1][2] else None
            idx = _dir_index(p)
            if idx is None:
                continue
            n += 1
            cur = ctx.globals.get('include_next_idx')
            d = _lin_diff(cur, idx)
            if d != 1:
                bad = bad or ('when the file is found in directory number i the #include_next cursor is left at %s: a following `#include_next` %s' % (
                    'i' if d == 0 else ('i%+d' % d if isinstance(d, int) else repr(cur)),
                    'searches that same directory again and finds the including file itself (endless self-inclusion)' if d == 0 else 'starts at the wrong directory'), ctx.trail)
            # probing order: 0,1,2.. / cursor, cursor+1, ..
            idxs = [_dir_index(e[2][0]) for e in fe]
            steps = [_lin_diff(b, a) for a, b in zip(idxs, idxs[1:])]
            if any(s != 1 for s in steps):
                bad = bad or ('the include directories are not probed in ascending order one by one', ctx.trail)
            if fn == 'search_include_paths' and idxs and idxs[0] != 0:
                bad = bad or ('the search does not start at the first include directory', ctx.trail)
            # (where that starting point comes from -- the global cursor or a parameter -- and what the caller puts there: r107_per_file)
            if fn == 'search_include_next' and idxs and _lin_diff(idxs[0], getattr(ctx, 'g0', {}).get('include_next_idx')) != 0 and \
                    not any(_lin_diff(idxs[0], ps) == 0 for ps in psyms[1:]):
                bad = bad or ('#include_next does not start at the cursor left by the previous search', ctx.trail)
        if n == 0:
            rep.undecided('R10.7', '%s:%s:cursor' % (U, fn), 'no path of %s on which a directory probe succeeds could be followed' % fn)
            continue
        key = 'cursor-after-found-directory' if not bad or 'cursor' in bad[0] else 'probing-order'
        rep.ob('R10.7', '%s:%s:%s' % (U, fn, key if bad else 'cursor-and-probing-order'), bad is None, bad[0] if bad else '', where=where,
               facts={'path': bad[1]} if bad else None)
        # a name the function answers without searching (an absolute name) has no position in the include path: like a file found next to its includer
        # (call-site rule: 0) its #include_next searches the whole path.  The callers record the cursor after every successful call, so a path that answers
        # non-NULL and leaves the cursor alone hands them the cursor of an unrelated earlier lookup.
        if 'include_next_idx' in u.globals and (nfree or fn == 'search_include_paths'):
            if unsearched:
                (stale, cur), trail = unsearched
                rep.ob('R10.7', '%s:%s:%s' % (U, fn, 'cursor-stale-for-unsearched-name' if stale else 'cursor-not-reset-for-unsearched-name'), False,
                       '%s answers a name without finding it in a directory of the include path (an absolute name is returned as it is) and leaves the #include_next cursor %s: '
                       'its callers record the cursor after every successful lookup in the File of the included tokens, so `#include_next` in a header included by absolute '
                       'name resumes behind the directory of whatever was looked up before (a.h: cannot open file, or a header is skipped); such a file has no position in '
                       'the include path, its #include_next searches all of it (cursor 0, as gcc does)' % (
                           fn, 'as the previous lookup left it' if stale else 'at %r' % (cur,)), where=where, facts={'path': trail})
            else:
                rep.ob('R10.7', '%s:%s:cursor-reset-for-unsearched-name' % (U, fn), True, '', where=where)


def r107_per_file(P, u, T, rep):
    """`#include_next` resumes the search behind the directory in which the file that contains the directive was found (gcc manual).  Included files are
    only tokenised by include_file and processed later, interleaved with whatever they include themselves: every lookup in between moves a global cursor, so
    the starting point must be a fact recorded per file.  (1) where does search_include_next start?  (a global or a parameter; found by running it.)
    (2) in the `include_next` arm of the dispatcher that starting point, at the moment of the call, must be a value read from the File of the directive's own
    tokens, whatever the global held before; (3) include_file stores a cursor into the File of the tokens it returns."""
    fn = 'search_include_next'
    where = '%s:%d' % (U, u.fn(fn).line)
    params = u.params(fn)
    psyms = [Sym('p:' + p.name, p.type) for p in params]
    gsyms = {}

    def ginit(name, t):
        def mk(ctx):
            return gsyms.setdefault(name, Sym('g:' + name, t))
        return mk
    gl = {}
    for name, d in u.globals.items():
        t = (d.dtype or d.type or '').strip()
        if t in ('int', 'long', 'unsigned int', 'unsigned long', 'size_t'):
            gl[name] = ginit(name, t)
    gl['include_paths'] = lambda ctx: Obj('StringArray', lazy=True, label='include_paths')
    it = PPInterp(P, u, {'cut': {'file_exists': None}, 'globals': gl, 'lazy_field': hook, 'loop_limit': 2})
    src = set()
    for ctx, out in it.explore(fn, lambda ctx: list(psyms), max_paths=200):
        fe = calls(ctx, 'file_exists')
        if not fe:
            continue
        i0 = _dir_index(fe[0][2][0] if fe[0][2] else None)
        hit = [('global', g) for g, sy in gsyms.items() if _lin_diff(i0, sy) == 0] + [('param', k) for k, sy in enumerate(psyms) if _lin_diff(i0, sy) == 0]
        src.add(hit[0] if hit else ('?', repr(i0)))
    if len(src) != 1 or next(iter(src))[0] == '?':
        rep.undecided('R10.7', '%s:%s:start' % (U, fn), 'where search_include_next starts probing could not be determined (%s)' % sorted(src), where=where)
        return
    kind, which = next(iter(src))
    # (2) the include_next arm
    cfg = pp2_config(u)
    cfg['globals'] = dict(cfg['globals'])
    stale = Sym('cursor-left-by-the-last-lookup', 'int')
    if kind == 'global':
        cfg['globals'][which] = stale
    cfg['cut'] = dict(cfg['cut'])

    def h_next(it2, ctx, n, args):
        v = it2.read_global(which) if kind == 'global' else None
        if kind == 'param':
            v = args[which] if which < len(args) else None
        ctx.start_at = v
        t = n.dtype or n.type
        r = it2.lazy_value(t, ctx.fresh('search_include_next'))
        ctx.emit('call', 'search_include_next', args, n.line, r)
        return r
    cfg['cut']['search_include_next'] = h_next
    it2 = PPInterp(P, u, cfg)
    res = it2.explore('preprocess2', directive_scenario(T, 'include_next'), max_paths=400)
    verdicts = set()
    line = u.fn('preprocess2').line
    for ctx, out in res:
        if not calls(ctx, 'search_include_next'):
            continue
        line = _arm_line(ctx, line)
        v = settle(it2, getattr(ctx, 'start_at', None))
        if v is stale:
            verdicts.add('stale')
        elif isinstance(v, Sym) and '.file.' in v.name and v.name.split('.file.')[0] in ('a0:#', 'a1:include_next', 'a2:M'):
            verdicts.add('file:' + v.name.split('.file.')[1])
        else:
            verdicts.add('?%r' % (v,))
    arm = '%s:%d' % (U, line)
    if not verdicts or any(x.startswith('?') for x in verdicts):
        rep.undecided('R10.7', '%s:preprocess2:include_next/starts-behind-its-own-file' % U,
                      'the starting point of the #include_next search could not be followed: %s' % (sorted(verdicts) or 'no path reaches search_include_next'), where=arm)
        return
    ok = 'stale' not in verdicts
    rep.ob('R10.7', '%s:preprocess2:include_next/%s' % (U, 'starts-behind-its-own-file' if ok else 'starts-at-the-global-cursor'), ok,
           '`#include_next` starts its search at the value some earlier lookup left in the %s `%s`, not at a position recorded for the file the directive stands in: '
           'included files are processed after include_file has returned, so any `#include <...>` between the inclusion of a header and its `#include_next` (d1/a.h: '
           '`#include <b.h>` / `#include_next <a.h>`, b.h found in a later directory) makes the search resume behind the wrong directory (a.h: cannot open file, or a '
           'header is skipped)' % ('global' if kind == 'global' else 'argument', which if kind == 'global' else params[which].name), where=arm)
    if not ok:
        return
    # (3) include_file records the position in the File of the tokens it includes
    field = sorted(x[5:] for x in verdicts)[0]
    fn3 = 'include_file'
    where3 = '%s:%d' % (U, u.fn(fn3).line)
    newfile = {}

    def h_tokfile(it3, ctx, n, args):
        f = Obj('File', lazy=True, label='included-file')
        t = Obj('Token', lazy=True, label='file-tokens')
        t.fields['file'] = f
        ctx.newfile = f
        ctx.emit('call', 'tokenize_file', args, n.line, t, None)
        return t
    p3 = u.params(fn3)
    a3 = [Obj('Token', lazy=True, label=p.name) if (p.type or '').startswith('Token') else Sym('p:' + p.name, p.type) for p in p3]
    gl3 = dict(gl)
    it3 = PPInterp(P, u, {'cut': {'hashmap_get': _h_map('hashmap_get', lambda it, ctx, n, args, table: 0), 'hashmap_put': _h_map('hashmap_put', None),
                                  'tokenize_file': h_tokfile, 'detect_include_guard': None, 'append': None, 'strerror': None, '__errno_location': None},
                          'globals': gl3, 'lazy_field': hook, 'loop_limit': 2})
    rec = set()
    gsrc = {}
    for ctx, out in it3.explore(fn3, lambda ctx: list(a3), max_paths=200):
        if out[0] != 'ret' or not hasattr(ctx, 'newfile'):
            continue
        v = ctx.newfile.fields.get(field)
        v = settle(it3, v)
        if v is None:
            rec.add(('unset', None))
        elif any(v is a for a in a3):
            rec.add(('param', [k for k, a in enumerate(a3) if v is a][0]))
        elif any(v is sy for sy in gsyms.values()):
            rec.add(('global', [g for g, sy in gsyms.items() if v is sy][0]))
        elif isinstance(v, int) and not isinstance(v, bool):
            rec.add(('const', v))
        else:
            rec.add(('?', repr(v)))
    if not rec or any(x[0] == '?' for x in rec):
        rep.undecided('R10.7', '%s:%s:records-%s' % (U, fn3, field), 'what include_file stores in File.%s of the included file could not be followed: %s' % (field, sorted(rec, key=repr)), where=where3)
        return
    ok3 = all(x[0] in ('param', 'global') for x in rec)
    const = sorted(x[1] for x in rec if x[0] == 'const')
    rep.ob('R10.7', '%s:%s:%s-%s' % (U, fn3, 'records' if ok3 else 'does-not-record', field), ok3,
           'include_file hands back the tokens of a freshly read file %s File.%s, which `#include_next` in that file starts from' % (
               'with the constant %s in' % const[0] if const else 'without storing the search position in', field), where=where3)
    if not ok3:
        return
    if len(rec) != 1:
        rep.undecided('R10.7', '%s:preprocess2:include-arms/recorded-cursor' % U, 'include_file stores different things in File.%s on different paths (%s)' % (field, sorted(rec, key=repr)), where=where3)
        return
    G = which if kind == 'global' else ('include_next_idx' if 'include_next_idx' in u.globals else None)
    rep._c10_cursor = {'field': field, 'global': G}
    _r107_call_sites(P, u, T, rep, field, next(iter(rec)), G, p3)


def _r107_call_sites(P, u, T, rep, field, source, G, p3):
    """(4) what does include_file record for each of its call sites?  include_file stores `source` (one of its parameters, or a global as it stands at the moment
    of the call) in the File of the included tokens.  Expected (gcc, cpp manual "Wrapper Headers"): a file found by searching the include path resumes behind the
    directory that search found it in, i.e. at the cursor that very search left (that the cursor is i + 1: _r107_cursor); a file that was not found through the
    include path (a quoted #include found next to the including file) has no such directory: its #include_next searches the whole path, from directory 0.  The
    dispatcher is run on `#include M` / `#include_next M` with the global cursor holding an unrelated earlier value; each search, when it is called, replaces it
    by a value of its own."""
    kind, which = source
    stale = {}
    cfg = pp2_config(u)
    cfg['globals'] = dict(cfg['globals'])
    for g in set(x for x in (G, which if kind == 'global' else None) if x):
        stale[g] = Sym('cursor-left-by-an-earlier-lookup:' + g, 'int')
        cfg['globals'][g] = stale[g]
    cfg['cut'] = dict(cfg['cut'])

    def h_search(name):
        def h(it2, ctx, n, args):
            t = n.dtype or n.type
            r = it2.lazy_value(t, ctx.fresh(name))
            ctx.emit('call', name, args, n.line, r)
            ev = ctx.events[-1]
            if G is not None:
                c = Sym(ctx.fresh('cursor-after-' + name), 'int')
                ctx.globals[G] = c
                if not hasattr(ctx, 'cursors'):
                    ctx.cursors = []
                ctx.cursors.append((ev, c))
            return r
        return h
    inner = cut_tok('include_file')

    def h_inc(it2, ctx, n, args):
        if not hasattr(ctx, 'inc_sites'):
            ctx.inc_sites = []
        if kind == 'param':
            v = args[which] if which < len(args) else None
            given = len(args) > which
        else:
            v = it2.read_global(which)
            given = True
        ctx.inc_sites.append((v, given, len(ctx.events), n.line))
        return inner(it2, ctx, n, args)
    cfg['cut']['search_include_paths'] = h_search('search_include_paths')
    cfg['cut']['search_include_next'] = h_search('search_include_next')
    cfg['cut']['include_file'] = h_inc
    what = ('its parameter `%s`' % p3[which].name) if kind == 'param' and which < len(p3) else 'the global `%s` as it stands when include_file is called' % which
    SIT = {('include', 'local'): ('include/file-next-to-includer', 'a quoted #include found in the directory of the including file'),
           ('include', 'searched'): ('include/file-from-include-path', 'an #include found by search_include_paths'),
           ('include_next', 'searched'): ('include_next/file-from-include-path', 'an #include_next found by search_include_next')}
    verdicts = {}
    lines = {}
    for d in ('include', 'include_next'):
        it2 = PPInterp(P, u, cfg)
        for ctx, out in it2.explore('preprocess2', directive_scenario(T, d), max_paths=400):
            sites = getattr(ctx, 'inc_sites', [])
            if not sites:
                continue
            if len(sites) != 1:
                verdicts.setdefault((d, 'searched'), set()).add(('?', 'include_file is called %d times for one directive' % len(sites)))
                continue
            v, given, at, ln = sites[0]
            v = settle(it2, v)
            before = [e for e in ctx.events[:at] if e[0] == 'call' and e[1] in ('search_include_paths', 'search_include_next')]
            if before:
                found = truth_in(it2, ctx, before[-1][4])
                if found is not True:
                    continue        # not found: the name is handed on as given for the diagnostic
                sit = (d, 'searched')
                want = [c for e, c in getattr(ctx, 'cursors', []) if e is before[-1]]
                want = want[0] if want else None
            else:
                probes = [e for e in calls(ctx, 'file_exists') if ctx.events.index(e) < at]
                if not probes or truth_in(it2, ctx, probes[-1][4]) is not True:
                    verdicts.setdefault((d, 'local'), set()).add(('?', 'include_file is reached without a search of the include path and without a successful probe'))
                    continue
                sit = (d, 'local')
                want = 0
            lines[sit] = ln
            vs = verdicts.setdefault(sit, set())
            if not given:
                vs.add(('?', 'the call does not pass the parameter'))
            elif any(v is s for s in stale.values()):
                vs.add(('stale', None))
            elif want is None:
                vs.add(('?', 'the cursor the search leaves is not a global the analysis knows'))
            elif (isinstance(want, int) and isinstance(v, int) and not isinstance(v, bool) and v == want) or v is want or (not isinstance(want, int) and _lin_diff(v, want) == 0):
                vs.add(('ok', None))
            elif isinstance(v, int) and not isinstance(v, bool):
                vs.add(('const', v))
            elif any(v is c for e, c in getattr(ctx, 'cursors', [])):
                vs.add(('other-search', None))
            elif sit[1] == 'searched' and isinstance(v, Sym) and v.name.endswith('.file.' + field) and v.name.split('.file.')[0] in ('a0:#', 'a1:' + d, 'a2:M'):
                vs.add(('includer', None))
            else:
                vs.add(('?', 'records %r' % (v,)))
    for sit in (('include', 'local'), ('include', 'searched'), ('include_next', 'searched')):
        key, descr = SIT[sit]
        vs = verdicts.get(sit, set())
        where = '%s:%d' % (U, lines.get(sit, u.fn('preprocess2').line))
        bad = sorted((x for x in vs if x[0] in ('stale', 'const', 'other-search', 'includer')), key=repr)
        if not vs or (not bad and any(x[0] == '?' for x in vs)):
            rep.undecided('R10.7', '%s:preprocess2:%s-records-its-search-position' % (U, key),
                          'what include_file records for %s could not be followed: %s' % (descr, sorted(x[1] for x in vs if x[0] == '?') or 'no such path'), where=where)
            continue
        if not bad:
            rep.ob('R10.7', '%s:preprocess2:%s-records-its-search-position' % (U, key), True, '', where=where)
            continue
        b = bad[0]
        if b[0] == 'stale':
            rep.ob('R10.7', '%s:preprocess2:%s-inherits-stale-cursor' % (U, key), False,
                   'for %s include_file records %s in File.%s, and at this call site that is the value some unrelated earlier lookup left behind%s: `#include_next` in that file '
                   'starts at a directory that has nothing to do with where the file was found (a local wrapper header doing `#include_next <x.h>` after any `#include <...>` '
                   'that was found in a later directory skips the first -I directories)' % (
                       descr, what, field, ' (expected: 0, the whole include path)' if sit[1] == 'local' else ' (expected: the cursor of the search that found it)'), where=where)
        elif b[0] == 'const':
            rep.ob('R10.7', '%s:preprocess2:%s-records-constant-%s' % (U, key, b[1]), False,
                   'for %s include_file records the constant %s in File.%s%s' % (
                       descr, b[1], field, ': `#include_next` in a header found in directory i searches from directory %s again instead of from i + 1 (it finds itself, or a copy '
                       'that should have been shadowed)' % b[1] if sit[1] == 'searched' else ': `#include_next` in a file that was not found through the include path must search the whole path (from 0)'),
                   where=where)
        elif b[0] == 'includer':
            rep.ob('R10.7', '%s:preprocess2:%s-records-position-of-the-including-file' % (U, key), False,
                   'for %s include_file records in File.%s the search position of the file the directive stands in (where the search started), not the cursor the search '
                   'left behind the directory in which it found the file: the found file lies at or behind that position, so its own `#include_next` finds it again (or a copy '
                   'that should have been passed)' % (descr, field), where=where)
        else:
            rep.ob('R10.7', '%s:preprocess2:%s-records-cursor-of-another-search' % (U, key), False,
                   'for %s include_file records in File.%s the cursor of a different search than the one that found the file' % (descr, field), where=where)


def r107_probe_predicate(P, rep):
    """the include search takes the first directory in which the name denotes a *file that can be included*: the predicate it probes with must be able to answer
    "no" for a name that exists (stat succeeds) but is a directory -- otherwise `#include <foo>` with a directory d1/foo and a header d2/foo stops at d1.  Decided by
    running the predicate with stat() answering 0: its result must depend on what stat reported (both answers reachable)."""
    mu = P.unit('main.c')
    fn = 'file_exists'
    if fn not in mu.functions:
        rep.undecided('R10.7', 'main.c:file_exists:vanished', 'the predicate of the include search (file_exists) vanished')
        return
    where = 'main.c:%d' % mu.fn(fn).line

    def h_stat(it, ctx, n, args):
        v = View(Cell([0, -1], ctx.fresh('stat'), names={0: 'found', -1: 'ENOENT'}))
        ctx.stat = v
        ctx.emit('call', 'stat', args, n.line, v, None)
        return v
    from ..interp import Interp
    it = Interp(P, mu, {'cut': {'stat': h_stat, 'lstat': h_stat, 'fstatat': h_stat, 'access': h_stat}, 'loop_limit': 2})
    found = set()
    missing = set()
    for ctx, out in it.explore(fn, lambda ctx: [Sym('path', 'char *')], max_paths=100):
        if out[0] != 'ret' or not hasattr(ctx, 'stat'):
            continue
        st = settle(it, ctx.stat)
        if isinstance(st, View) and isinstance(out[1], View) and out[1].cell is st.cell:
            for c in st.cell.cands:
                (found if c == 0 else missing).add(truth_in(it, ctx, out[1].proj(c)))
            continue
        (found if st == 0 else missing).add(truth_in(it, ctx, out[1]))
    if not found or None in found:
        rep.undecided('R10.7', 'main.c:%s:answer' % fn, 'what file_exists answers when stat() succeeds could not be followed (%s)' % sorted(found, key=repr), where=where)
        return
    ok = found == {True, False}
    rep.ob('R10.7', 'main.c:%s:%s' % (fn, 'tells-files-from-directories' if ok else 'directory-satisfies-the-search'), ok,
           'file_exists answers %s whenever stat() succeeds, whatever kind of object the name denotes: a DIRECTORY named like the header satisfies the include search '
           '(d1/foo/ a directory, d2/foo the header: `#include <foo>` stops at d1 and includes nothing, without a diagnostic; gcc skips d1)' % ('yes' if True in found else 'no'),
           where=where)
    if ok:
        _r107_probe_kinds(P, mu, rep, fn, where)


# file type bits of st_mode (POSIX <sys/stat.h>, Linux values: S_IFMT 0170000)
FILE_KINDS = (('regular-file', 0o100000), ('character-device', 0o020000), ('fifo', 0o010000), ('block-device', 0o060000), ('socket', 0o140000))
DIR_KIND = ('directory', 0o040000)
LINK_KIND = ('symbolic-link', 0o120000)


def _r107_probe_kinds(P, mu, rep, fn, where):
    """search order (C11 6.10.2 + gcc manual): the search ends at the FIRST directory in which the name exists and is not a directory -- whatever else it is.  gcc
    reads a header that is a character device (the usual stub: a symbolic link to /dev/null), a FIFO or a /dev/fd entry, and stops with a diagnostic at anything
    else it cannot read; it never goes on to a later directory.  So the probe must answer true for stat() == 0 with every file type except S_IFDIR, whatever the
    permission bits and the other fields of the stat record are, false for S_IFDIR, and false when stat() fails.  Decided by running the predicate once per file
    type with stat() filling in a record whose st_mode is concrete (type | permission bits) and whose other fields are unknown: the set of answers over all paths
    must be exactly the expected one."""
    from ..interp import Interp
    seen_calls = set(c.callee() for c in mu.fn(fn).calls() if c.callee())
    nofollow = bool(seen_calls & {'lstat', 'lstat64'}) and not (seen_calls & {'stat', 'stat64', 'fstat', 'fstatat', 'open', 'realpath'})
    if nofollow:
        rep.ob('R10.7', 'main.c:%s:probe-does-not-follow-symbolic-links' % fn, False,
               'file_exists asks lstat(), which reports a symbolic link itself: a link to a header and a link to a directory get the same answer, so either a linked header '
               'does not satisfy the search (it goes on to a later directory) or a linked directory does (nothing is included)', where=where)
        return

    def run(mode, rc):
        state = {}

        def h_stat(it, ctx, n, args):
            buf = [a for a in args if isinstance(a, _Ref)]
            if rc == 0:
                if not buf:
                    raise Unsupported('stat() is not handed the address of a local record')
                o = Obj('stat', lazy=True, label='statbuf')
                o.fields['st_mode'] = mode
                buf[-1].place.set(it, o)
            state['called'] = True
            ctx.emit('call', 'stat', args, n.line, rc, None)
            return rc
        it = Interp(P, mu, {'cut': {'stat': h_stat, 'lstat': h_stat, 'stat64': h_stat, 'fstatat': h_stat}, 'loop_limit': 2})
        ans = set()
        for ctx, out in it.explore(fn, lambda ctx: [Sym('path', 'char *')], max_paths=200):
            if out[0] != 'ret':
                ans.add(('noreturn', out[1] if len(out) > 1 else None))
                continue
            ans.add(truth_in(it, ctx, out[1]))
        return ans, state.get('called', False)

    def verdict(kind, mode, rc, want):
        answers = set()
        for perm in (0o644, 0o000, 0o7777):
            try:
                a, called = run(mode | perm, rc)
            except (Unsupported, Infeasible, AnalysisBroken) as e:
                return None, 'not interpretable: %s' % e
            if not called:
                return None, 'the predicate does not call stat()'
            answers |= a
            if rc != 0:
                break
        if None in answers or any(isinstance(x, tuple) for x in answers):
            return None, 'answers %s' % sorted(answers, key=repr)
        return answers == {want}, answers
    for kind, mode in FILE_KINDS:
        ok, a = verdict(kind, mode, 0, True)
        if ok is None:
            rep.undecided('R10.7', 'main.c:%s:answer/%s' % (fn, kind), 'what file_exists answers for a name that denotes a %s could not be followed (%s)' % (kind, a), where=where)
            continue
        rep.ob('R10.7', 'main.c:%s:%s/%s' % (fn, 'found' if ok else 'not-found', kind), ok,
               'file_exists answers %s for a name for which stat() succeeds and reports a %s: the include search does not end at the first directory in which the name exists '
               'as something other than a directory, it silently goes on to a LATER directory and includes another file of that name (a header stubbed out as a symbolic '
               'link to /dev/null, a FIFO, a /dev/fd entry; or an existing header the answer makes depend on permission bits / size / owner: gcc ends the search there, '
               'reading the file or diagnosing it)' % ('"no"' if a == {False} else 'yes or no depending on something other than the file type', kind), where=where,
               facts={'answers': sorted(a, key=repr)})
    ok, a = verdict(DIR_KIND[0], DIR_KIND[1], 0, False)
    if ok is None:
        rep.undecided('R10.7', 'main.c:%s:answer/directory' % fn, 'what file_exists answers for a directory could not be followed (%s)' % (a,), where=where)
    else:
        rep.ob('R10.7', 'main.c:%s:%s/directory' % (fn, 'not-found' if ok else 'found'), ok,
               'file_exists answers yes for (some) directories: a directory named like the header ends the include search and nothing is included', where=where,
               facts={'answers': sorted(a, key=repr)})
    ok, a = verdict('missing', 0, -1, False)
    if ok is False and False in a:
        ok = True       # the answer depends on why stat() failed (errno): gcc, too, ends the search at a name it may not look at
    if ok is None:
        rep.undecided('R10.7', 'main.c:%s:answer/missing' % fn, 'what file_exists answers when stat() fails could not be followed (%s)' % (a,), where=where)
    else:
        rep.ob('R10.7', 'main.c:%s:%s/missing' % (fn, 'not-found' if ok else 'found'), ok,
               'file_exists answers yes although stat() failed (the stat record is indeterminate then): a name that does not exist in a directory ends the include search there',
               where=where, facts={'answers': sorted(a, key=repr)})


def _r107_search_sites(P, u, rep):
    """the same clause decided where it matters, whatever helper the probe is made with: each directory search of the preprocessor is run with its probe predicate
    inlined and stat() answering "exists, file type K" for the first name probed (and "regular file" for every later one).  For K other than directory the search
    must answer that first name and probe no further; for K = directory it must not answer it."""
    gl = {'include_paths': lambda ctx: Obj('StringArray', lazy=True, label='include_paths'), 'include_next_idx': lambda ctx: Sym('g:include_next_idx', 'int')}
    for fn in ('search_include_paths', 'search_include_next'):
        where = '%s:%d' % (U, u.fn(fn).line)
        params = u.params(fn)
        for kind, mode in FILE_KINDS + (DIR_KIND,):
            def h_stat(it, ctx, n, args, mode=mode):
                k = getattr(ctx, 'nstat', 0)
                ctx.nstat = k + 1
                buf = [a for a in args if isinstance(a, _Ref)]
                if not buf:
                    raise Unsupported('stat() is not handed the address of a local record')
                o = Obj('stat', lazy=True, label='statbuf')
                o.fields['st_mode'] = (mode if k == 0 else 0o100000) | 0o644
                buf[-1].place.set(it, o)
                ctx.emit('call', 'stat', args, n.line, 0, None)
                return 0
            it = PPInterp(P, u, {'cut': {'stat': h_stat, 'stat64': h_stat, 'hashmap_get': _h_map('hashmap_get', lambda it, ctx, n, args, table: 0),
                                         'hashmap_put': _h_map('hashmap_put', None)}, 'globals': gl, 'lazy_field': hook, 'loop_limit': 3})
            try:
                res = it.explore(fn, lambda ctx: [Sym('p:' + p.name, p.type) for p in params], max_paths=300)
            except (Unsupported, Infeasible, AnalysisBroken) as e:
                rep.undecided('R10.7', '%s:%s:first-match/%s' % (U, fn, kind), 'the search could not be followed with its probe inlined: %s' % e, where=where)
                continue
            seen = 0
            bad = None
            for ctx, out in res:
                st = calls(ctx, 'stat')
                if out[0] != 'ret' or not st:
                    continue
                seen += 1
                first = st[0][2][0] if st[0][2] else None
                r = settle(it, out[1]) if isinstance(out[1], View) else out[1]
                same = r is first or (not isinstance(r, int) and repr(r) == repr(first))
                if kind == 'directory':
                    if same:
                        bad = bad or ('answers the name of a directory', ctx.trail)
                elif not same or len(st) != 1:
                    bad = bad or ('passes it over and %s' % ('probes the next directory' if len(st) > 1 else 'answers %r' % (r,)), ctx.trail)
            if not seen:
                rep.undecided('R10.7', '%s:%s:first-match/%s' % (U, fn, kind), 'no path of %s that asks stat() about a name could be followed' % fn, where=where)
                continue
            rep.ob('R10.7', '%s:%s:%s/%s' % (U, fn, 'first-match' if not bad else ('answers-a' if kind == 'directory' else 'passes-over-a'), kind), bad is None,
                   '%s, probing a directory of the include path in which the name exists as a %s, %s: the first directory in which the name denotes something other than a '
                   'directory must end the search (gcc reads it or diagnoses it; a header stubbed out as a link to /dev/null must not be replaced by the header of '
                   'the same name from a later directory)' % (fn, kind, bad[0] if bad else ''), where=where, facts={'path': bad[1]} if bad else None)


def _r107_quoted_site(P, u, T, rep):
    """the first station of a quoted #include -- the directory of the including file -- under the same clause: the dispatcher arm is run on `#include M` with its
    probe inlined and stat() answering "exists, file type K"."""
    fn = 'preprocess2'
    for kind, mode in FILE_KINDS + (DIR_KIND,):
        def h_stat(it, ctx, n, args, mode=mode):
            buf = [a for a in args if isinstance(a, _Ref)]
            if not buf:
                raise Unsupported('stat() is not handed the address of a local record')
            o = Obj('stat', lazy=True, label='statbuf')
            o.fields['st_mode'] = mode | 0o644
            buf[-1].place.set(it, o)
            ctx.emit('call', 'stat', args, n.line, 0, None)
            return 0
        cfg = pp2_config(u)
        cfg['cut'] = dict(cfg['cut'])
        cfg['cut'].pop('file_exists', None)
        cfg['cut']['stat'] = h_stat
        cfg['cut']['stat64'] = h_stat
        it = PPInterp(P, u, cfg)
        key = '%s:%s:include/includer-directory' % (U, fn)
        line = u.fn(fn).line
        try:
            res = it.explore(fn, directive_scenario(T, 'include'), max_paths=400)
        except (Unsupported, Infeasible, AnalysisBroken) as e:
            rep.undecided('R10.7', '%s/first-match/%s' % (key, kind), 'the #include arm could not be followed with its probe inlined: %s' % e)
            continue
        seen = 0
        bad = None
        for ctx, out in res:
            st = calls(ctx, 'stat')
            inc = calls(ctx, 'include_file')
            if not st or not inc:
                continue
            seen += 1
            line = _arm_line(ctx, line)
            first = st[0][2][0] if st[0][2] else None
            got = inc[0][2][1] if len(inc[0][2]) > 1 else None
            got = settle(it, got) if isinstance(got, View) else got
            same = got is first or (not isinstance(got, int) and repr(got) == repr(first))
            searched = bool(calls(ctx, ('search_include_paths', 'search_include_next')))
            if kind == 'directory':
                if same or not searched:
                    bad = bad or ('includes the directory (or does not go on to the include path)', ctx.trail)
            elif not same or searched or len(st) != 1:
                bad = bad or ('passes it over and goes on to the include path', ctx.trail)
        where = '%s:%d' % (U, line)
        if not seen:
            rep.undecided('R10.7', '%s/first-match/%s' % (key, kind), 'no path of the #include arm that asks stat() about a name and includes a file could be followed', where=where)
            continue
        rep.ob('R10.7', '%s/%s/%s' % (key, 'first-match' if not bad else ('answers-a' if kind == 'directory' else 'passes-over-a'), kind), bad is None,
               'a quoted #include whose name exists in the directory of the including file as a %s %s: the including file\'s directory is the first station of the search '
               'and anything there that is not a directory ends it (gcc reads it or diagnoses it; a local stub that is a link to /dev/null must not lose against a header of '
               'that name from -I)' % (kind, bad[0] if bad else ''), where=where, facts={'path': bad[1]} if bad else None)


def _dir_index(p):
    """index i in format("%s/%s", include_paths.data[i], filename)"""
    if isinstance(p, Term) and p.op == 'format' and len(p.args) >= 2:
        d = p.args[1]
        if isinstance(d, Term) and d.op == 'idx' and len(d.args) == 2:
            return d.args[1]
    return None


def _lin_diff(a, b):
    la, lb = Lin.of(a), Lin.of(b)
    if la is None or lb is None:
        return None
    if not isinstance(la, Lin):
        la = Lin(la)
    if not isinstance(lb, Lin):
        lb = Lin(lb)
    d = la.add(lb, -1)
    return d if isinstance(d, int) else None


# ------------------------------------------------------------------------------------------------ R10.8
def _ev_result(ctx, v):
    """the call event that produced value v"""
    for e in ctx.events:
        if e[0] == 'call' and len(e) > 4 and e[4] is v:
            return e
    return None


def _rif_interface(u):
    """None while read_include_filename has the interface the rules model (returns the name, reports the form through a bool *), else the reason"""
    from ..build import require_signature
    try:
        require_signature(u, 'read_include_filename', ['Token **', 'Token *', 'bool *'], 'char *')
    except AnalysisBroken as e:
        return str(e)
    return None


def r108(P, u, T, rep, dres):
    rep.rule('R10.8', 'a quoted #include probes the directory of the including file before the include path, an angle-bracket one does not; #include_next continues the '
             'previous search; `#pragma once` is keyed by the path string include_file is later called with; -include files are tokenised in option order in '
             'front of the main file, each taken as given (working directory) if it exists there, else from the include path, else diagnosed; '
             '-D/-U act in command-line order', floor=FLOORS['R10.8'])
    fnline = u.fn('preprocess2').line
    # who decides the form: whether an #include is the quoted or the angle form is known only after its operand has been macro-expanded, i.e. inside the
    # filename reader; a comparison of a token with `<` anywhere else in the preprocessor decides it from the directive's own (unexpanded) token
    early = []
    for f_, fd_ in sorted(u.functions.items()):
        if f_ == 'read_include_filename':
            continue
        for c_ in fd_.calls('equal'):
            a_ = c_.args()
            if len(a_) > 1 and a_[1].str_value() == '<':
                early.append((f_, c_.line))
    if 'read_include_filename' in u.functions:
        rep.ob('R10.8', '%s:include-form:decided-by-the-filename-reader-only' % U, not early,
               '%s compares a token with `<` (line %s): the form of an #include is then decided from the unexpanded operand, so `#define H <stdio.h>` / `#include H` is '
               'searched like a quoted include (next to the including file first) and a macro that expands to "file" like an angle one' % (
                   ', '.join(sorted({e[0] for e in early})) + '()', ', '.join(str(e[1]) for e in early)), where='%s:%d' % (U, early[0][1] if early else fnline))
    sig_why = _rif_interface(u)
    if sig_why:
        # the arms are judged through the contract of read_include_filename (name returned, form through the flag parameter)
        rep.undecided('R10.8', '%s:preprocess2:include-arms' % U, sig_why)
    elif 'include' not in dres or 'include_next' not in dres:
        rep.undecided('R10.8', '%s:preprocess2:include-arms' % U, 'the #include / #include_next arms of the dispatcher could not be followed')
    else:
        it, res = dres['include']
        fails = {}
        seen = set()
        line = fnline
        for ctx, out in res:
            o = outcome(out)
            line = _arm_line(ctx, line)
            if o[0] != 'resume':
                continue
            rd = calls(ctx, 'read_include_filename')
            inc = calls(ctx, 'include_file')
            if len(rd) != 1 or len(inc) != 1 or not hasattr(ctx, 'dquote'):
                fails.setdefault('reads-one-filename', ('the #include arm does not read one file name and include one file', ctx.trail))
                continue
            fname = rd[0][4]
            dq = ctx.dquote.cands
            probes = calls(ctx, 'file_exists')
            search = calls(ctx, 'search_include_paths')
            path = settle(it, inc[0][2][1]) if len(inc[0][2]) > 1 else None
            # is the probed path built from the including file's directory?
            local = None
            for pr in probes:
                pth = pr[2][0] if pr[2] else None
                fa = _format_args(ctx, pth)
                if fa is not None and len(fa) == 3 and fa[0] == '%s/%s' and fa[2] is fname:
                    dn = _ev_result(ctx, fa[1])
                    src = _ev_result(ctx, dn[2][0]) if dn and dn[1] == 'dirname' and dn[2] else None
                    arg = src[2][0] if src and src[1] == 'strdup' and src[2] else (dn[2][0] if dn and dn[2] else None)
                    if isinstance(arg, Sym) and arg.name.endswith('.file.name') and arg.name.startswith('a'):
                        local = pr
            if local is not None and truth_in(it, ctx, local[2][0]) is False:
                continue        # the path assumes that the string built by format() is NULL
            absolute = any("filename[0] != 47" in t and t.startswith('!') for t in ctx.trail) or any("filename[0] == 47" in t and not t.startswith('!') for t in ctx.trail)
            if dq == [0, 1] and not absolute:
                # the arm does not distinguish the two forms: judge it as both
                seen.update(('quoted', 'angle'))
                if local is None:
                    fails.setdefault('quoted-probes-includer-directory', ('a quoted #include of a relative name does not first look in the directory of the including file', ctx.trail))
                else:
                    fails.setdefault('angle-skips-includer-directory', ('an angle-bracket #include looks in the directory of the including file first '
                                                                        '(`#include <stdio.h>` next to a local stdio.h picks the local file)', ctx.trail))
            elif dq == [1] and not absolute:
                seen.add('quoted')
                if local is None:
                    early = [pr for pr in probes if not search or ctx.events.index(pr) < ctx.events.index(search[0])]
                    if early:
                        fails.setdefault('?quoted-probes-includer-directory', ('a quoted #include probes a path the analysis cannot relate to the directory of the including file', ctx.trail))
                    else:
                        fails.setdefault('quoted-probes-includer-directory', ('a quoted #include of a relative name does not first look in the directory of the including file', ctx.trail))
                    continue
                if search and ctx.events.index(search[0]) < ctx.events.index(local):
                    fails.setdefault('quoted-probes-includer-directory', ('the include path is searched before the directory of the including file', ctx.trail))
                found = truth_in(it, ctx, local[4])
                if found:
                    if search or path is not local[2][0]:
                        fails.setdefault('quoted-prefers-includer-directory', ('a file found next to the including file is not the one that is included', ctx.trail))
                else:
                    _check_fallback(it, ctx, fails, search, fname, path, 'search_include_paths')
            elif dq == [0] or (absolute and dq in ([0], [1], [0, 1])):
                seen.add('angle' if dq == [0] else 'absolute')
                if local is not None and dq == [0]:
                    fails.setdefault('angle-skips-includer-directory', ('an angle-bracket #include looks in the directory of the including file', ctx.trail))
                _check_fallback(it, ctx, fails, search, fname, path, 'search_include_paths')
            tokarg = inc[0][2][0] if inc[0][2] else None
            if tokarg is not rd[0][5]:
                fails.setdefault('rest-follows-the-file', ('include_file is not given the rest of the line after the file name as the continuation', ctx.trail))
        if not {'quoted', 'angle'} <= seen:
            rep.undecided('R10.8', '%s:preprocess2:include/forms' % U, 'could not follow both the quoted and the angle-bracket form of #include (%s)' % sorted(seen))
        for k in ('reads-one-filename', 'quoted-probes-includer-directory', 'quoted-prefers-includer-directory', 'angle-skips-includer-directory',
                  'falls-back-to-include-path', 'rest-follows-the-file'):
            f = fails.get(k)
            if f is None and ('?' + k) in fails:
                rep.undecided('R10.8', '%s:preprocess2:include/%s' % (U, k), fails['?' + k][0], where='%s:%d' % (U, line))
                continue
            rep.ob('R10.8', '%s:preprocess2:include/%s' % (U, k), f is None, f[0] if f else '', where='%s:%d' % (U, line), facts={'path': f[1]} if f else None)
        # include_next
        it, res = dres['include_next']
        fails = {}
        n = 0
        for ctx, out in res:
            o = outcome(out)
            line = _arm_line(ctx, line)
            if o[0] != 'resume':
                continue
            rd = calls(ctx, 'read_include_filename')
            inc = calls(ctx, 'include_file')
            if len(rd) != 1 or len(inc) != 1:
                fails.setdefault('falls-back-to-include-path', ('the #include_next arm does not read one file name and include one file', ctx.trail))
                continue
            n += 1
            if calls(ctx, ('search_include_paths', 'file_exists')):
                fails.setdefault('falls-back-to-include-path', ('#include_next restarts the search instead of continuing after the directory of the current file', ctx.trail))
            _check_fallback(it, ctx, fails, calls(ctx, 'search_include_next'), rd[0][4], settle(it, inc[0][2][1]) if len(inc[0][2]) > 1 else None, 'search_include_next')
        if n == 0:
            rep.undecided('R10.8', '%s:preprocess2:include_next/arm' % U, 'the #include_next arm could not be followed')
        else:
            f = fails.get('falls-back-to-include-path')
            rep.ob('R10.8', '%s:preprocess2:include_next/continues-the-search' % U, f is None, f[0] if f else '', where='%s:%d' % (U, line), facts={'path': f[1]} if f else None)
    _r108_once(P, u, T, rep)
    _r108_filename(P, u, T, rep)
    return _r108_cc1(P, rep)


def _r1016_computed_include(P, u, T, rep):
    """`#include MACRO` (C11 6.10.2p4): the tokens after `include` are macro-replaced and the result must match one of the two forms.  All tokens of the
    expansion belong to the line of the directive, however they were made: a token made by ##, by # or by a dynamic handler (__LINE__, __COUNTER__ ...)
    comes out of a fresh tokenize() and claims to begin a line, the first one inherits the flag of the macro name.  read_include_filename is run on an
    identifier; the expansion handed back by preprocess2 is a well-formed `< a / b . h >` (or `"foo.h"`) list ended by the TK_EOF copy_line appended,
    with at_bol of every token of the expansion after the first UNKNOWN (the first inherits the flag of the macro name: not set).  No setting of the flags may make it reject the name, cut it short or report the other form."""
    fn = 'read_include_filename'
    rep.rule('R10.16', 'a computed #include (`#include MACRO`) resolves to the name its complete macro expansion spells: read_include_filename expands the copy of '
             'the directive\'s own line and then accepts `<...>` / `"..."` whatever the line-start flags of the tokens of the expansion are (tokens made by '
             'pasting, stringizing or a dynamic macro claim to begin a line) - the scan for `>` ends only at the end of the expanded line', floor=2)
    if fn not in u.functions:
        rep.undecided('R10.16', '%s:%s:vanished' % (U, fn), 'read_include_filename vanished')
        return
    if _rif_interface(u):
        rep.undecided('R10.16', '%s:%s:interface' % (U, fn), _rif_interface(u))
        return
    where = '%s:%d' % (U, u.fn(fn).line)
    forms = {
        'angle': [('<', 'TK_PUNCT'), ('a', 'TK_IDENT'), ('/', 'TK_PUNCT'), ('7', 'TK_PP_NUM'), ('.', 'TK_PUNCT'), ('h', 'TK_IDENT'), ('>', 'TK_PUNCT')],
        'quoted': [('"foo.h"', 'TK_STR')],
    }
    for form, words in forms.items():
        def h_pp2(it, ctx, n, args, words=words):
            specs = T.line('e', words, first_bol=False) + [('e:eof', '', 'TK_EOF', True)]
            ts = T.chain(specs, tail=0)
            for k, t in enumerate(ts[:-1]):
                if k:
                    del t.fields['at_bol']      # unknown: decided by how the token was made (the first one inherits the flag of the macro name, which follows `include`)
                t.fields['origin'] = Obj('Token', lazy=True, label='macro-name')
            ctx.exp = ts
            for i, t in enumerate(ts):
                ctx.tokidx[id(t)] = 100 + i
            ctx.emit('call', 'preprocess2', args, n.line, ts[0], ts[0])
            return ts[0]
        it = PPInterp(P, u, {'models': {'equal': m_equal}, 'cut': {'skip_line': cut_tok('skip_line'), 'join_tokens': None, 'strndup': None,
                                                                   'preprocess2': h_pp2, 'copy_line': cut_tok('copy_line', rest_arg=0, tok_arg=1)},
                             'lazy_field': hook, 'loop_limit': 12})

        def mk(ctx):
            specs = T.line('f', [('FOO', 'TK_IDENT')], first_bol=False) + T.line('b', [('x', 'TK_IDENT'), ('y', 'TK_IDENT')])
            ts = T.chain(specs)
            ctx.toks = ts
            ctx.tokidx = {id(t): i for i, t in enumerate(ts)}
            ctx.rest = _ValPlace(None)
            ctx.dq = _ValPlace(None)
            return [_Ref(ctx.rest), ts[0], _Ref(ctx.dq)]
        bad = {}
        n = 0
        try:
            res = it.explore(fn, mk, max_paths=600)
        except Unsupported as e:
            rep.undecided('R10.16', '%s:%s:computed-%s-form' % (U, fn, form), 'cannot interpret read_include_filename on an identifier: %s' % e, where=where)
            continue
        for ctx, out in res:
            o = outcome(out)
            pp = calls(ctx, 'preprocess2')
            cl = calls(ctx, 'copy_line')
            if not pp:
                if o[0] == 'error':
                    bad.setdefault('not-expanded', ('an identifier after #include is rejected without being macro-expanded (%s)' % (o[1],), ctx.trail))
                else:
                    bad.setdefault('not-expanded', ('an identifier after #include is not macro-expanded', ctx.trail))
                continue
            a = pp[0][2][0] if pp[0][2] else None
            if not (len(cl) == 1 and is_resync(a) and a.meta['resync'] == 'copy_line' and idx_of(ctx, a.meta.get('from')) == 0):
                bad.setdefault('expands-other-than-own-line', ('what is macro-expanded is not the copy of the directive\'s own line starting at the identifier', ctx.trail))
                continue
            flags = ', '.join('`%s` %s' % (t.meta.get('text'), 'begins a line' if truth_in(it, ctx, t.fields['at_bol']) else 'does not')
                              for t in ctx.exp[:-1] if 'at_bol' in t.fields and truth_in(it, ctx, t.fields['at_bol']) is not None
                              and not any(e[0] == 'fstore' and e[1] is t and e[2] == 'at_bol' for e in ctx.events))
            if o[0] != 'ret':
                bad.setdefault('rejected', ('the well-formed expansion %s of a computed include is rejected by %s() when the tokens of the expansion carry these line-start flags: %s '
                                            '(a token made by ##, # or a dynamic macro such as __COUNTER__ comes out of tokenize() with the flag set: `#define H <d/__COUNTER__.h>` / `#include H` fails)'
                                            % (' '.join(w for w, _ in words), o[1], flags or 'as left by the expansion'), ctx.trail))
                continue
            n += 1
            dq = truth_in(it, ctx, ctx.dq.v) if ctx.dq.v is not None else None
            if dq is None or dq != (form == 'quoted'):
                bad.setdefault('wrong-form', ('the %s form produced by macro expansion is reported as %s' % (form, 'quoted' if dq else ('not quoted' if dq is False else 'undetermined')), ctx.trail))
            r = settle(it, ctx.rest.v)
            if not (is_resync(r) and r.meta['resync'] == 'copy_line'):
                bad.setdefault('rest', ('after a computed include the dispatcher is not handed the line start copy_line found (the next line is lost or the directive line is processed as text)', ctx.trail))
            if form == 'angle':
                j = calls(ctx, 'join_tokens')
                if len(j) != 1 or len(j[0][2]) != 2 or idx_of(ctx, j[0][2][0]) != 101 or idx_of(ctx, j[0][2][1]) != 100 + len(words) - 1 or o[1] is not j[0][4]:
                    bad.setdefault('name-cut', ('the name of a computed angle-bracket include is not the spelling of all tokens between `<` and `>` of the expansion (flags: %s)' % flags, ctx.trail))
            else:
                sd = calls(ctx, 'strndup')
                ok = len(sd) == 1 and len(sd[0][2]) == 2 and o[1] is sd[0][4]
                if ok:
                    t0 = ctx.exp[0]
                    ok = _lin_diff(sd[0][2][0], t0.fields.get('loc')) == 1 and _lin_diff(sd[0][2][1], t0.fields.get('len')) == -2
                if not ok:
                    bad.setdefault('name-cut', ('the name of a computed quoted include is not the spelling of the string token of the expansion without its quotes', ctx.trail))
        if n == 0 and not bad:
            rep.undecided('R10.16', '%s:%s:computed-%s-form' % (U, fn, form), 'no returning path of read_include_filename for an identifier expanding to the %s form' % form, where=where)
            continue
        if not bad:
            rep.ob('R10.16', '%s:%s:computed-%s-form' % (U, fn, form), True, '', where=where)
        for k, (msg, trail) in sorted(bad.items()):
            rep.ob('R10.16', '%s:%s:computed-%s-form/%s' % (U, fn, form, k), False, msg, where=where, facts={'path': trail})


def _format_args(ctx, v):
    if isinstance(v, Term) and v.op == 'format':
        return list(v.args)
    e = _ev_result(ctx, v)
    if e is not None and e[1] == 'format':
        return list(e[2])
    return None


def _check_fallback(it, ctx, fails, search, fname, path, callee):
    if len(search) != 1 or not search[0][2] or search[0][2][0] is not fname:
        fails.setdefault('falls-back-to-include-path', ('the file name read from the directive is not looked up (once) with %s' % callee, ctx.trail))
        return
    found = truth_in(it, ctx, search[0][4])
    if found is True and path is not settle(it, search[0][4]):
        fails.setdefault('falls-back-to-include-path', ('the path found by %s is not the file that is included' % callee, ctx.trail))
    if found is False and path is not fname:
        fails.setdefault('falls-back-to-include-path', ('a name that is not found on the include path is not handed on as given (for the diagnostic)', ctx.trail))


def _r108_filename(P, u, T, rep):
    """read_include_filename: `"name"` is the quoted form, `<name>` is not; the rest of the line follows the closing delimiter"""
    fn = 'read_include_filename'
    if fn not in u.functions:
        rep.undecided('R10.8', '%s:%s:vanished' % (U, fn), 'read_include_filename vanished')
        return
    if _rif_interface(u):
        rep.undecided('R10.8', '%s:%s:interface' % (U, fn), _rif_interface(u))
        return
    where = '%s:%d' % (U, u.fn(fn).line)
    forms = {
        'quoted': ([('"foo.h"', 'TK_STR')], 1),
        'angle': ([('<', 'TK_PUNCT'), ('foo', 'TK_IDENT'), ('.', 'TK_PUNCT'), ('h', 'TK_IDENT'), ('>', 'TK_PUNCT')], 5),
    }
    for form, (words, after) in forms.items():
        it = PPInterp(P, u, {'models': {'equal': m_equal}, 'cut': {'skip_line': cut_tok('skip_line'), 'join_tokens': None, 'strndup': None,
                                                                   'preprocess2': cut_tok('preprocess2'), 'copy_line': cut_tok('copy_line', rest_arg=0, tok_arg=1)},
                             'lazy_field': hook, 'loop_limit': 8})

        def mk(ctx, words=words):
            specs = T.line('f', words, first_bol=False) + T.line('b', [('x', 'TK_IDENT'), ('y', 'TK_IDENT')])
            ts = T.chain(specs)
            ctx.toks = ts
            ctx.tokidx = {id(t): i for i, t in enumerate(ts)}
            ctx.rest = _ValPlace(None)
            ctx.dq = _ValPlace(None)
            return [_Ref(ctx.rest), ts[0], _Ref(ctx.dq)]
        bad = None
        n = 0
        for ctx, out in it.explore(fn, mk, max_paths=200):
            o = outcome(out)
            if o[0] != 'ret':
                bad = bad or ('the well-formed %s form is rejected (%s)' % (form, o[1]), ctx.trail)
                continue
            n += 1
            dq = truth_in(it, ctx, ctx.dq.v) if ctx.dq.v is not None else None
            if dq is None or dq != (form == 'quoted'):
                bad = bad or ('the %s form is reported as %s: %s' % (form, 'quoted' if dq else ('not quoted' if dq is False else 'undetermined'),
                              'a quoted #include would not look next to the including file' if form == 'quoted' else 'an angle-bracket #include would look next to the including file'), ctx.trail)
            sk = calls(ctx, 'skip_line')
            r = settle(it, ctx.rest.v)
            if len(sk) != 1 or idx_of(ctx, sk[0][2][0] if sk[0][2] else None) != after or r is not sk[0][4]:
                bad = bad or ('the rest of the line is not taken from the token after the closing delimiter (extra tokens would be kept or the next line lost)', ctx.trail)
            if form == 'angle':
                j = calls(ctx, 'join_tokens')
                if len(j) != 1 or len(j[0][2]) != 2 or idx_of(ctx, j[0][2][0]) != 1 or idx_of(ctx, j[0][2][1]) != 4 or o[1] is not j[0][4]:
                    bad = bad or ('the name of an angle-bracket include is not the spelling of the tokens between `<` and `>`', ctx.trail)
            else:
                sd = calls(ctx, 'strndup')
                ok = len(sd) == 1 and len(sd[0][2]) == 2 and o[1] is sd[0][4]
                if ok:
                    t0 = ctx.toks[0]
                    ok = _lin_diff(sd[0][2][0], t0.fields.get('loc')) == 1 and _lin_diff(sd[0][2][1], t0.fields.get('len')) == -2
                if not ok:
                    bad = bad or ('the name of a quoted include is not the spelling of the string token without its two quotes', ctx.trail)
        if n == 0 and bad is None:
            rep.undecided('R10.8', '%s:%s:%s-form' % (U, fn, form), 'no returning path of read_include_filename for the %s form' % form)
            continue
        rep.ob('R10.8', '%s:%s:%s-form' % (U, fn, form), bad is None, bad[0] if bad else '', where=where, facts={'path': bad[1]} if bad else None)


def _r108_once(P, u, T, rep):
    """#pragma once: key written = <token of the file>->file->name; include_file looks `path` up in the same table and
    tokenize_file(path) -> new_file(path, ..) makes path the file->name of every token of that file"""
    where = '%s:%d' % (U, u.fn('include_file').line)
    cfg = pp2_config(u)
    cfg['cut'] = dict(cfg['cut'])
    cfg['cut']['hashmap_put'] = _h_map('hashmap_put', None)

    def mk(ctx):
        specs = T.line('a', [('#', 'TK_PUNCT'), ('pragma', 'TK_IDENT'), ('once', 'TK_IDENT')]) + T.line('b', [('x', 'TK_IDENT'), ('y', 'TK_IDENT')])
        ts = T.chain(specs)
        ctx.toks = ts
        ctx.tokidx = {id(t): i for i, t in enumerate(ts)}
        return [ts[0]]
    it = PPInterp(P, u, cfg)
    keys = []
    tabs = set()
    for ctx, out in it.explore('preprocess2', mk, max_paths=100):
        for e in calls(ctx, 'hashmap_put'):
            tabs.add(e[5])
            keys.append(e[2][1] if len(e[2]) > 1 else None)
    if not keys:
        rep.undecided('R10.8', '%s:preprocess2:pragma-once/arm' % U, 'the `#pragma once` arm records nothing the analysis can see')
        return
    kfs = set(key_base(k)[0] for k in keys)
    ok_key = all(isinstance(key_base(k)[1], Sym) and key_base(k)[1].name.endswith('.file.name') and key_base(k)[1].name[0] == 'a' for k in keys) and len(kfs) == 1
    rep.ob('R10.8', '%s:preprocess2:pragma-once/keyed-by-file-name' % U, ok_key,
           '`#pragma once` is not recorded under the name of the file the directive stands in (recorded: %r)' % (keys,), where='%s:%d' % (U, u.fn('preprocess2').line))
    # include_file: lookup in that table with the key of `path` -- the path itself or the same file-key function of it that the directive records
    p3 = u.params('include_file')
    a3 = [Obj('Token', lazy=True, label=p.name) if (p.type or '').startswith('Token') else Sym('p:' + p.name, p.type) for p in p3]
    it3 = PPInterp(P, u, {'cut': {'hashmap_put': _h_map('hashmap_put', None), 'tokenize_file': None, 'detect_include_guard': None, 'append': None,
                                  'strerror': None, '__errno_location': None}, 'lazy_field': hook, 'loop_limit': 2})
    lk = set()
    for ctx, out in it3.explore('include_file', lambda ctx: list(a3), max_paths=200):
        for e in calls(ctx, TABLE_LOOKUPS):
            if len(e) > 5 and e[5] in tabs and len(e[2]) > 1:
                kf, base = key_base(e[2][1])
                lk.add((kf, 'path' if len(a3) > 1 and base is a3[1] else 'other'))
    looked = bool(lk) and all(x[1] == 'path' for x in lk)
    rep.ob('R10.8', '%s:include_file:pragma-once/looked-up-by-path' % U, looked,
           'include_file does not look its path argument up in the `#pragma once` table', where=where)
    if looked and ok_key:
        same = set(x[0] for x in lk) == kfs
        rep.ob('R10.8', '%s:include_file:pragma-once/%s' % (U, 'lookup-key-is-recorded-key' if same else 'lookup-key-differs-from-recorded-key'), same,
               'the `#pragma once` arm records the file under %s, include_file looks it up under %s: the entry is never found and the file is included again' % (
                   ' / '.join('%s(file name)' % k if k else 'its name' for k in sorted(kfs, key=repr)), ' / '.join('%s(path)' % k if k else 'the path' for k in sorted((x[0] for x in lk), key=repr))), where=where)
        # one FILE, one key: the compiler itself spells a file in several ways (cc1 reads a -include file under the name given on the command line, `a.h`; the
        # dispatcher builds dirname(includer) + "/" + name, `./a.h`; a search yields dir + "/" + name; `d/../a.h` ...).  A table keyed by the spelling misses.
        ident = same and None not in kfs
        rep.ob('R10.8', '%s:include_file:pragma-once/%s' % (U, 'keyed-by-file-identity' if ident else 'keyed-by-spelling'), ident,
               'the `#pragma once` table is keyed by the path string as spelled by whichever lookup produced it, not by the file it denotes: the same file reached under two '
               'spellings is included twice although it says `#pragma once` (`-include a.h` records `a.h`, `#include "a.h"` in main.c looks up `./a.h`; likewise `sub/../a.h`); '
               'gcc identifies the file. Expected: the key is computed from the path by a function that asks the file system (stat identity / realpath), both where '
               'it is recorded and where it is looked up', where=where)
    # tokenize_file(path) names the file `path`
    tu, tf = P.find_function('tokenize_file')
    nu, nf = P.find_function('new_file')
    if tf is None or nf is None:
        rep.undecided('R10.8', 'tokenize.c:tokenize_file:file-name', 'tokenize_file / new_file vanished')
        return
    ok = False
    tparams = [c for c in tf.inner if c.kind == 'ParmVarDecl']
    for c in tf.calls('new_file'):
        a = c.args()
        if a and a[0].strip().kind == 'DeclRefExpr' and tparams and a[0].strip().ref_id == tparams[0].id:
            ok = True
    rep.ob('R10.8', '%s:tokenize_file:file-named-by-path' % tu.name, ok,
           'tokenize_file does not name the File after the path it was asked to read: `#pragma once` and include_file would use different keys',
           where='%s:%d' % (tu.name, tf.line))
    from ..interp import Interp
    it2 = Interp(P, nu, {})
    okn = False
    for ctx, out in it2.explore('new_file', lambda ctx: [Sym('name', 'char *'), Sym('no', 'int'), Sym('contents', 'char *')]):
        if out[0] == 'ret' and isinstance(out[1], Obj):
            nm = out[1].fields.get('name')
            okn = isinstance(nm, Sym) and nm.name == 'name'
    rep.ob('R10.8', '%s:new_file:records-name' % nu.name, okn, 'new_file does not store the given name as File.name', where='%s:%d' % (nu.name, nf.line))


def _same_value(a, b):
    if a is b:
        return True
    if isinstance(a, (Sym, Term, Lin)) and isinstance(b, (Sym, Term, Lin)):
        return a.key() == b.key()
    return False


def _r108_cc1_lookup(it, res, rep, where):
    """which file a `-include NAME` option reads (gcc: as `#include "NAME"` at the top of the main file, except that the
    first place looked at is the working directory, i.e. NAME as given; then the include path; else a diagnostic).
    Decided per path of cc1 and per option from what the path knows about file_exists(NAME) and
    search_include_paths(NAME) and from the value handed to the tokeniser -- not from the order of the calls."""
    K = 'main.c:cc1:include-option/'
    fails = {}
    seen = {'as-given': 0, 'from-include-path': 0, 'diagnosed': 0}

    def is_name(v):
        return isinstance(v, Term) and v.op == 'idx' and len(v.args) == 2 and 'opt_include' in repr(v.args[0])

    for ctx, out in res:
        o = outcome(out)
        if o[0] == 'ret':
            continue
        names = []      # [name, [probe truths], [search events], tokenised-as]

        def slot(nm):
            for s in names:
                if _same_value(s[0], nm):
                    return s
            names.append([nm, [], [], None])
            return names[-1]
        for e in calls(ctx, ('file_exists', 'search_include_paths', 'must_tokenize_file')):
            a = settle(it, e[2][0]) if e[2] else None
            if e[1] == 'file_exists' and is_name(a):
                slot(a)[1].append(truth_in(it, ctx, e[4]))
            elif e[1] == 'search_include_paths' and is_name(a):
                slot(a)[2].append(e)
            elif e[1] == 'must_tokenize_file':
                if is_name(a):
                    slot(a)[3] = 'as-given'
                else:
                    sr = _ev_result(ctx, a)
                    if sr is not None and sr[1] == 'search_include_paths' and sr[2] and is_name(settle(it, sr[2][0])):
                        slot(settle(it, sr[2][0]))[3] = ('from-include-path', sr)
        if any(truth_in(it, ctx, s[0]) is False for s in names):
            continue        # the path assumes that an option value is NULL: parse_args stores argv words only
        for nm, probes, srch, how in names:
            exists = True if True in probes else (False if probes and all(p is False for p in probes) else None)
            founds = [truth_in(it, ctx, e[4]) for e in srch]
            found = True if True in founds else (False if founds and all(f is False for f in founds) else None)
            if how == 'as-given':
                seen['as-given'] += 1 if exists is True else 0
                if exists is False and found is False:
                    seen['diagnosed'] += 1      # by must_tokenize_file
                if exists is not True and (not srch or found is True):
                    fails.setdefault('falls-back-to-include-path', (
                        'a `-include NAME` whose NAME %s is read as given%s: a file that is only in an -I/system/-idirafter directory is not found '
                        '(textual `#include "NAME"` finds it)' % ('does not exist as given' if exists is False else 'was not looked for as given',
                                                                 ' although the include path has it' if srch else ' and the include path is never searched'), ctx.trail))
            elif how is not None:
                sr = how[1]
                used_found = truth_in(it, ctx, sr[4])
                if exists is False and used_found is True:
                    seen['from-include-path'] += 1
                if exists is not False:
                    fails.setdefault('working-directory-first', (
                        '`-include NAME` reads the copy of NAME found on the include path %s: with a file of that name in the working directory and another in an '
                        '-I/system/-idirafter directory the wrong one is taken, and the token stream differs from textual inclusion at the top of the main file '
                        '(gcc and `#include "NAME"` in a main file of that directory take the local one)' % (
                            'although NAME exists as given' if exists is True else 'without having established that NAME does not exist as given (relative to the working directory)'), ctx.trail))
                if used_found is not True:
                    fails.setdefault('missing-file-diagnosed', (
                        '`-include NAME`: the result of search_include_paths is handed to the tokeniser %s (NULL when NAME is nowhere: crash instead of a diagnostic)' % (
                            'although the search failed' if used_found is False else 'without having been tested'), ctx.trail))
            elif o[0] == 'error':
                if exists is not True and not srch:
                    fails.setdefault('falls-back-to-include-path', (
                        '`-include NAME` is rejected (%s) when NAME does not exist as given, without the include path having been searched: a file that is only in an '
                        '-I/system/-idirafter directory is not found (textual `#include "NAME"` finds it)' % o[1], ctx.trail))
                elif exists is True or found is True:
                    fails.setdefault('missing-file-diagnosed', ('`-include NAME` is rejected (%s) although NAME %s' % (
                        o[1], 'exists as given' if exists is True else 'is found on the include path'), ctx.trail))
                elif exists is False and found is False:
                    seen['diagnosed'] += 1
    if not seen['as-given'] or not seen['from-include-path']:
        if not fails:
            rep.undecided('R10.8', K + 'lookup', 'could not follow a -include file being taken as given and one being taken from the include path '
                          '(%s)' % ', '.join('%s: %d' % kv for kv in sorted(seen.items())))
            return
    for k in ('working-directory-first', 'falls-back-to-include-path', 'missing-file-diagnosed'):
        f = fails.get(k)
        if f is None and k == 'missing-file-diagnosed' and not seen['diagnosed'] and not fails:
            rep.undecided('R10.8', K + k, 'no path of cc1 on which a -include file that is neither there as given nor on the include path is diagnosed could be followed')
            continue
        rep.ob('R10.8', K + k, f is None, f[0] if f else '', where=where, facts={'path': f[1]} if f else None)


def _r107_cc1_cursor(P, it, res, rep, where, info):
    """a -include file that cc1 takes from the include path was found by a directory search like any #include <...>: `#include_next` in it must resume
    behind the directory it was found in, so the File of its tokens must carry the cursor that search left (what include_file does for the dispatcher,
    r107_per_file); one that is taken as given was not found through the include path: 0."""
    if not info or not info.get('field'):
        return      # the per-file cursor design itself is not established (reported by r107_per_file)
    field = info['field']
    K = 'main.c:cc1:include-option/'
    verd = {'searched': set(), 'as-given': set()}
    for ctx, out in res:
        o = outcome(out)
        if o[0] != 'resume':
            continue
        cursors = getattr(ctx, 'cursors', [])
        for e in calls(ctx, 'must_tokenize_file'):
            a = settle(it, e[2][0]) if e[2] else None
            if isinstance(a, Sym) and a.name == 'base_file':
                continue
            f = e[4].fields.get('file') if isinstance(e[4], Obj) else None
            f = settle(it, f)
            v = settle(it, f.fields.get(field)) if isinstance(f, Obj) else None
            sr = _ev_result(ctx, a)
            if sr is not None and sr[1] == 'search_include_paths':
                want = [c for ev, c in cursors if ev is sr]
                vs = verd['searched']
                if v is None:
                    vs.add('unset')
                elif want and (v is want[0] or _lin_diff(v, want[0]) == 0):
                    vs.add('ok')
                elif isinstance(v, int) and not isinstance(v, bool):
                    vs.add('const:%d' % v)
                elif v is info.get('stale'):
                    vs.add('stale')
                elif any(v is c for ev, c in cursors):
                    vs.add('other-search')
                else:
                    vs.add('?%r' % (v,))
            else:
                vs = verd['as-given']
                if v is None or (isinstance(v, int) and not isinstance(v, bool) and v == 0):
                    vs.add('ok')        # File objects are calloc-ed: 0
                elif v is info.get('stale'):
                    vs.add('stale')
                else:
                    vs.add('?%r' % (v,))
    vs = verd['searched']
    if not vs or (any(x.startswith('?') for x in vs) and not (vs & {'unset', 'stale', 'other-search'}) and not any(x.startswith('const') for x in vs)):
        rep.undecided('R10.7', K + 'file-from-include-path-records-its-search-position',
                      'what cc1 records in File.%s of a -include file found on the include path could not be followed (%s)' % (field, sorted(vs) or 'no such path'), where=where)
    else:
        ok = vs == {'ok'}
        badk = 'ok' if ok else ([x for x in ('unset', 'stale', 'other-search') if x in vs] + sorted(x for x in vs if x.startswith('const')) + sorted(x for x in vs if x != 'ok'))[0]
        rep.ob('R10.7', K + ('file-from-include-path-records-its-search-position' if ok else
                             'file-from-include-path-' + ('does-not-record-its-search-position' if badk == 'unset' else 'inherits-stale-cursor' if badk == 'stale' else
                                                          'records-cursor-of-another-search' if badk == 'other-search' else 'records-constant' if badk.startswith('const') else 'records-something-else')), ok,
               'a -include file that cc1 finds with search_include_paths is tokenised %s File.%s: `#include_next` in that file does not resume behind the directory it was '
               'found in (`-Id1 -Id2 -include w.h`, d1/w.h: `#include_next <w.h>` searches from directory 0 and includes d1/w.h itself a second time; gcc continues with d2/w.h). '
               'Expected: the cursor left by that search, as include_file records it for #include' % (
                   'without storing anything in' if badk == 'unset' else 'with %s in' % {'stale': 'the cursor an unrelated earlier lookup left', 'other-search': 'the cursor of a different search'}.get(badk, badk), field), where=where)
    va = verd['as-given']
    if va and va != {'ok'}:
        if 'stale' in va:
            rep.ob('R10.7', K + 'file-as-given-inherits-stale-cursor', False,
                   'a -include file taken as given (not found through the include path) gets the cursor some earlier search left in File.%s: its #include_next must search the whole include path' % field, where=where)
        else:
            rep.undecided('R10.7', K + 'file-as-given-searches-whole-path', 'what cc1 records in File.%s of a -include file taken as given could not be followed (%s)' % (field, sorted(va)), where=where)
    elif va:
        rep.ob('R10.7', K + 'file-as-given-searches-whole-path', True, '', where=where)


def _r108_cc1(P, rep):
    mu = P.unit('main.c')
    if 'cc1' not in mu.functions:
        raise AnalysisBroken('anchor cc1 vanished from main.c')
    where = 'main.c:%d' % mu.fn('cc1').line

    def seq_of(v):
        """the files whose token lists make up list value v, front to back: [must_tokenize_file event]; None = not a list the analysis built"""
        if isinstance(v, View):
            return None
        if isinstance(v, int) and v == 0:
            return []
        if isinstance(v, Obj) and 'seq' in v.meta:
            return v.meta['seq']
        return None

    def h_tok(it, ctx, n, args):
        r = Obj('Token', lazy=True, label=ctx.fresh('tokens'))
        f = Obj('File', lazy=True, label=ctx.fresh('file'))
        r.fields['file'] = f
        ctx.emit('call', 'must_tokenize_file', args, n.line, r, None)
        r.meta['seq'] = [ctx.events[-1]]
        return r

    def h_app(it, ctx, n, args):
        # append_tokens(a, b) is the list a followed by the list b (that it is: R10.10); a is consumed (its last token is relinked)
        r = Obj('Token', lazy=True, label=ctx.fresh('joined'))
        a = [settle(it, x) for x in args[:2]]
        sq = [seq_of(x) for x in a]
        used = getattr(ctx, 'consumed', None)
        if used is None:
            used = ctx.consumed = []
        if len(sq) == 2 and None not in sq and not any(x is y for x in a for y in used if isinstance(x, Obj)) and not (isinstance(a[0], Obj) and a[0] is a[1]):
            r.meta['seq'] = sq[0] + sq[1]
        used.extend(x for x in a if isinstance(x, Obj))
        ctx.emit('call', 'append_tokens', args, n.line, r, None)
        return r

    def h_pp(it, ctx, n, args):
        ctx.emit('call', 'preprocess', args, n.line, None, None)
        raise NoReturn(RESUME, [args[0] if args else None], n.line)
    gl = {'opt_include': lambda ctx: Obj('StringArray', lazy=True, label='opt_include'), 'base_file': lambda ctx: Sym('base_file', 'char *')}
    info = dict(getattr(rep, '_c10_cursor', None) or {})
    G = info.get('global')
    if G:
        info['stale'] = Sym('cursor-left-by-an-earlier-lookup:' + G, 'int')
        gl[G] = info['stale']

    def h_search(it, ctx, n, args):
        # like the generic cut, and: a search leaves its cursor in the global (that it is i + 1: _r107_cursor)
        t = n.dtype or n.type
        r = it.lazy_value(t, ctx.fresh('search_include_paths'))
        ctx.emit('call', 'search_include_paths', args, n.line, r)
        if G:
            if not hasattr(ctx, 'cursors'):
                ctx.cursors = []
            c = Sym(ctx.fresh('cursor-after-search_include_paths'), 'int')
            ctx.cursors.append((ctx.events[-1], c))
            ctx.globals[G] = c
        return r
    it = PPInterp(P, mu, {'cut': {'must_tokenize_file': h_tok, 'append_tokens': h_app, 'preprocess': h_pp, 'file_exists': None, 'search_include_paths': h_search,
                                  'strerror': None, '__errno_location': None}, 'globals': gl, 'loop_limit': 2})
    bad = None
    bad_order = None
    unknown = None
    nmax = 0
    count = {}
    res = it.explore('cc1', lambda ctx: [], max_paths=300)
    _r108_cc1_lookup(it, res, rep, where)
    _r107_cc1_cursor(P, it, res, rep, where, info)
    for ctx, out in res:
        o = outcome(out)
        if o[0] != 'resume':
            continue
        toks = calls(ctx, 'must_tokenize_file')
        if not toks:
            bad = bad or 'the input is preprocessed without having been tokenised'
            continue

        def is_base(e):
            return bool(e[2]) and isinstance(e[2][0], Sym) and e[2][0].name == 'base_file'

        def opt_index(e):
            # -include files: opt_include.data[i], as given or as found by search_include_paths
            a = settle(it, e[2][0]) if e[2] else None
            src = a
            sr = _ev_result(ctx, a)
            if sr is not None and sr[1] == 'search_include_paths' and sr[2]:
                src = sr[2][0]
            return src.args[1] if isinstance(src, Term) and src.op == 'idx' and len(src.args) == 2 and 'opt_include' in repr(src.args[0]) else None
        incs = [e for e in toks if not is_base(e)]
        nmax = max(nmax, len(incs))
        # what is preprocessed: the files in the order in which their tokens stand in the list handed to preprocess() -- whatever the order in which
        # they were read and joined
        final = seq_of(settle(it, o[1]))
        if final is None:
            unknown = unknown or 'the token list handed to preprocess() is not one the analysis saw being built from must_tokenize_file/append_tokens results'
            continue
        if any(not any(e is f for f in final) for e in toks):
            bad = bad or ('a file that was tokenised (%s) is not part of the token list that is preprocessed' % ', '.join(
                'the main file' if is_base(e) else 'a -include file' for e in toks if not any(e is f for f in final)))
            continue
        if len(final) != len(toks):
            bad = bad or 'the token list that is preprocessed contains the tokens of a file more than once'
            continue
        nb = [k for k, e in enumerate(final) if is_base(e)]
        if len(nb) != 1:
            bad = bad or 'the main file is not tokenised exactly once'
            continue
        if nb[0] != len(final) - 1:
            bad = bad or ('the tokens of the main file do not stand behind those of every -include file in the list that is preprocessed (position %d of %d): '
                          '-include files must come in front of it' % (nb[0] + 1, len(final)))
            continue
        idxs = [opt_index(e) for e in final[:-1]]
        if any(i is None or not isinstance(i, int) for i in idxs):
            unknown = unknown or 'which -include option a tokenised file belongs to could not be told (%r)' % (idxs,)
            continue
        if idxs != list(range(len(idxs))):
            bad_order = bad_order or ('with %d -include options the token list that is preprocessed holds the files of options number %s in that order, then the main file: '
                                      'the text is not that of `#include "a.h"` / `#include "b.h"` at the top of the main file (a later file that tests or redefines '
                                      'what an earlier one defines sees the wrong state)' % (len(idxs), ', '.join(str(i + 1) for i in idxs)), ctx.trail)
        # all of them: on a path that read k files the option list cannot be longer than k
        g = ctx.globals.get('opt_include')
        ln = g.fields.get('len') if isinstance(g, Obj) else None
        if ln is None:
            count['unknown'] = count.get('unknown') or 'the number of -include options is not read from opt_include.len'
        else:
            saved = it.ctx
            it.ctx = ctx
            try:
                more = it.cmp('>', ln, len(incs))
            except Exception as e:
                more = None
            finally:
                it.ctx = saved
            t = truth_in(it, ctx, more) if more is not None else None
            hi = ctx.bounds.get(ln.key(), [None, None])[1] if isinstance(ln, Sym) else None
            if t is False:
                count['ok'] = count.get('ok', 0) + 1
            elif t is True or (hi is not None and hi > len(incs)):
                count['bad'] = count.get('bad') or ('on a command line with %s -include options cc1 reads only %d of them before the main file: the text of the others is missing from the '
                                                    'translation unit' % (hi if hi is not None and hi < 1000 else 'more', len(incs)), ctx.trail)
            else:
                count['unknown'] = count.get('unknown') or 'whether the loop over the -include options ends at the last one could not be told on a path reading %d file(s)' % len(incs)
    if nmax == 0 and bad is None:
        rep.undecided('R10.8', 'main.c:cc1:include-option', 'no path of cc1 with a -include file could be followed')
        return
    if bad is None and unknown is not None:
        rep.undecided('R10.8', 'main.c:cc1:include-files-before-main-file', unknown, where=where)
    else:
        rep.ob('R10.8', 'main.c:cc1:include-files-before-main-file', bad is None, bad or '', where=where)
    if bad_order is not None:
        rep.ob('R10.8', 'main.c:cc1:include-files-out-of-option-order', False, bad_order[0], where=where, facts={'path': bad_order[1]})
    elif nmax < 2 or unknown is not None or bad is not None:
        if bad is None:
            rep.undecided('R10.8', 'main.c:cc1:include-files-in-option-order', unknown or 'no path of cc1 with two -include files could be followed', where=where)
    else:
        rep.ob('R10.8', 'main.c:cc1:include-files-in-option-order', True, '', where=where)
    if count.get('bad'):
        rep.ob('R10.8', 'main.c:cc1:include-option-dropped', False, count['bad'][0], where=where, facts={'path': count['bad'][1]})
    elif count.get('unknown') or not count.get('ok'):
        if bad is None:
            rep.undecided('R10.8', 'main.c:cc1:every-include-option-read', count.get('unknown') or 'no path of cc1 reaches the preprocessor', where=where)
    else:
        rep.ob('R10.8', 'main.c:cc1:every-include-option-read', True, '', where=where)
    # does the fold start from "no list yet" (NULL)?  Then the joiner must accept that as well
    starts_null = any(isinstance(settle(it, e[2][0]), int) and settle(it, e[2][0]) == 0
                      for ctx, out in res for e in calls(ctx, 'append_tokens')[:1] if e[2])
    return starts_null


# ------------------------------------------------------------------------------------------------ R10.11
def _printf_pieces(fmt):
    """a format string whose only conversions are plain %s (and %%): list of literal strings and None (one per %s); None if anything else occurs"""
    out, lit, i = [], '', 0
    while i < len(fmt):
        c = fmt[i]
        if c != '%':
            lit += c
            i += 1
            continue
        nx = fmt[i + 1:i + 2]
        if nx == '%':
            lit += '%'
        elif nx == 's':
            if lit:
                out.append(lit)
            lit = ''
            out.append(None)
        else:
            return None
        i += 2
    if lit:
        out.append(lit)
    return out


def r1011_define_option(P, rep):
    """`-D name`, `-D name=body`, `-U name` select text exactly like `#define name 1`, `#define name body`, `#undef name` in front of the first line (gcc
    manual; with `-D name=` the body is empty, as in `#define name`; the name is lexed as in the directive, so `-D'F(x)=x+1'` defines the function-like
    macro F).  The path from the option word to the macro table has three links:
    (1) the option loop hands the word to define()/undef_macro() -- R17.9 of C17 decides that on symbolic command lines -- (2) define() splits it at the
    first `=` -- likewise -- (3) define_macro(name, body) builds the line `name body` in a private string, decodes it like the text of a file, tokenises it and
    hands the tokens to read_macro_definition(), the reader of `#define` (cut by contract: what it makes of a line is R09.6/R10.x's subject).
    (1) and (2) are re-issued from C17 (they state which text -D selects, which is this property); (3) is decided here."""
    rep.rule('R10.11', 'command-line macro options select the text their textual counterparts select: -Dname is `#define name 1`, -Dname=body is `#define name body` with '
             'body the whole text after the first `=` (possibly empty), -Uname is `#undef name`; define_macro hands the reader of #define, once, the tokens of a '
             'private line that is the given name, white space, the given body and a line end, decoded like the text of a file, and enters nothing else into '
             'the macro table', floor=FLOORS['R10.11'])
    from ..report import Report, reissue
    from . import c17
    sub = Report('C17')
    try:
        c17.r179(P, sub)
    except (AnalysisBroken, Unsupported) as e:
        rep.undecided('R10.11', 'R17.9/analysis', 'the -D/-U plumbing could not be followed: %s' % e)
    else:
        n = reissue(rep, 'R10.11', sub, 'the option then selects other text than the textual #define/#undef it stands for: ', keep=lambda o: o['key'].startswith('R17.9:'))
        if n == 0:
            rep.undecided('R10.11', 'R17.9/none', 'C17 issued no obligation about the -D/-U options')
    # (3) define_macro
    pu = P.unit(U)
    fn = 'define_macro'
    if fn not in pu.functions:
        rep.undecided('R10.11', '%s:%s:vanished' % (U, fn), 'define_macro vanished')
        return
    where = '%s:%d' % (U, pu.fn(fn).line)
    # the reader of `#define`: cut by contract (it reads one definition from the line that starts at its token argument and stores the first token of the
    # next line through its first argument).  That it is the reader of the directive is checked: the dispatcher calls it.
    READER = 'read_macro_definition'
    if READER not in pu.functions or not pu.fn('preprocess2').calls(READER):
        rep.undecided('R10.11', '%s:%s:installs' % (U, fn), '%s() is no longer the function the dispatcher reads a #define with: the contract cut of the '
                      'definition reader does not apply' % READER, where=where)
        return
    if len(pu.params(READER)) != 2:
        rep.undecided('R10.11', '%s:%s:installs' % (U, fn), '%s() no longer takes (Token **rest, Token *tok): its contract cut does not apply' % READER, where=where)
        return

    def rec(name, mkres):
        def h(it, ctx, n, args):
            r = mkres(ctx)
            ctx.emit('call', name, args, n.line, r, None)
            return r
        return h
    # The line is text-processed before it is tokenised (\u/\U escapes are decoded in place, on a private string).  Contract cuts: strdup(s) is a fresh
    # writable string with the text of s; format(f, ...) a fresh writable string with the text printf would print; convert_universal_chars(p) rewrites *p
    # in place and is the identity on text without a backslash (its loop copies every byte that does not start a \u/\U escape), so for the clauses below the
    # text of its argument stays the text it had.
    DECODER = 'convert_universal_chars'
    rep.assumptions += ['R10.11: strdup(s) yields a private string with the text of s, format(f, ...) a private string with the text printf prints for (f, ...); '
                        '%s(p) rewrites *p in place and leaves text without a backslash unchanged (contract cut; that the line of a -D option passes through it, '
                        'as the text of a file does in tokenize_file, is an obligation); %s(&t, tok) reads the definition `#define` would read from the line that '
                        'starts at tok (contract cut: it is the function the dispatcher calls for the directive)' % (DECODER, READER)]
    du, dec = P.find_function(DECODER)
    if dec is not None and ((dec.type or '').split('(')[0].strip() != 'void' or len([c for c in dec.inner if c.kind == 'ParmVarDecl']) != 1):
        rep.undecided('R10.11', '%s:%s:installs' % (U, fn), '%s is no longer an in-place pass over one string: its contract cut does not apply' % DECODER, where=where)
        return

    def fresh_string(name):
        def h(it, ctx, n, args):
            r = Sym(ctx.fresh(name), 'char *')
            ctx.emit('call', name, args, n.line, r, None)
            return r
        return h
    COPIERS = ('strdup', 'format')
    it = PPInterp(P, pu, {'cut': {'new_file': rec('new_file', lambda ctx: Obj('File', lazy=True, label='file')),
                                  'tokenize': rec('tokenize', lambda ctx: Obj('Token', lazy=True, label='line-tokens')),
                                  'strdup': fresh_string('strdup'), 'format': fresh_string('format'), DECODER: rec(DECODER, lambda ctx: None),
                                  READER: cut_tok(READER, rest_arg=0, tok_arg=1, ret=None),
                                  'add_macro': rec('add_macro', lambda ctx: Obj('Macro', lazy=True, label='macro')),
                                  'hashmap_put': rec('hashmap_put', lambda ctx: None), 'hashmap_put2': rec('hashmap_put2', lambda ctx: None)},
                          'lazy_field': hook, 'loop_limit': 2})
    a_name, a_buf = Sym('name', 'char *'), Sym('buf', 'char *')
    try:
        res = it.explore(fn, lambda ctx: [a_name, a_buf], max_paths=100)
    except Unsupported as e:
        rep.undecided('R10.11', '%s:%s:installs' % (U, fn), 'cannot interpret define_macro: %s' % e, where=where)
        return
    # reference: the text of a file is decoded by tokenize_file() before new_file() takes it; callers of define_macro that pass string literals
    file_text_decoded = None
    fu, tf = P.find_function('tokenize_file')
    if tf is not None and dec is not None:
        file_text_decoded = bool(tf.calls(DECODER))
        if not file_text_decoded:
            file_text_decoded = None
    literal_args = None
    for un in (U, 'main.c'):
        if un not in P.unit_names:
            continue
        for fname, fd in sorted(P.unit(un).functions.items()):
            k = 0
            for c in fd.calls(fn):
                if any(x.strip_all().kind == 'StringLiteral' for x in c.args()[:2]):
                    k += 1
            if k and (literal_args is None or k > literal_args[1]):
                literal_args = ('%s()' % fname, k)
    KEYS = ('accepts-every-body', 'one-macro', 'only-the-define-reader-installs', 'reader-gets-the-tokenised-line', 'under-the-given-name',
            'name-and-body-separated', 'body-is-the-tokenised-text', 'line-ends-after-the-body', 'name-ucn-decoded-like-file-text',
            'body-ucn-decoded-like-file-text', 'body-decoded-in-a-private-copy')
    fails = {}
    unknown = {}
    nret = 0
    for ctx, out in res:
        if out[0] != 'ret':
            fails.setdefault('accepts-every-body', 'define_macro can end in %s() itself, without handing the line to the reader of #define' % out[1])
            continue
        nret += 1
        nf, tk, rd = calls(ctx, 'new_file'), calls(ctx, 'tokenize'), calls(ctx, READER)
        direct = sorted(set(e[1] for e in calls(ctx, ('add_macro', 'hashmap_put', 'hashmap_put2'))))
        if direct:
            fails.setdefault('only-the-define-reader-installs', 'define_macro enters a macro into the table itself (%s): the name given is then not lexed like the name of a '
                             '#define (-D\'F(x)=x+1\' defines a macro no identifier can name)' % ', '.join(direct))
        if len(rd) != 1 or len(rd[0][2]) < 2:
            fails.setdefault('one-macro', 'define_macro does not read exactly one definition with %s (%d calls)' % (READER, len(rd)))
            continue
        line = settle(it, rd[0][2][1])
        src = [e for e in tk if e[4] is line]
        if len(tk) != 1 or not src:
            fails.setdefault('reader-gets-the-tokenised-line', 'the tokens handed to %s (%r) are not the result of tokenising the line (once, from its first token): '
                             '-Dname=body then defines other text than `#define name body`' % (READER, line))
            continue
        f = settle(it, src[0][2][0]) if src[0][2] else None
        mk = [e for e in nf if e[4] is f]
        text = mk[0][2][2] if mk and len(mk[0][2]) >= 3 else None
        if text is None:
            unknown.setdefault('installs', 'the File that is tokenised is not made by new_file() on this path: which text it holds is not known')
            continue
        pos = {id(e): i for i, e in enumerate(ctx.events)}
        # derivation of the tokenised text: pieces = literal strings and the two arguments, in order; strings = [(string, index of the event up to which a
        # pass over that string still reaches the tokenised text, arguments whose text it holds)]: the tokenize call for the tokenised string itself, the
        # copying strdup/format for the strings copied
        strings = []

        def derive(v, limit, depth=0):
            v = settle(it, v)
            if v is a_name or v is a_buf:
                strings.append((v, limit, frozenset([id(v)])))
                return [v]
            if isinstance(v, str):
                return [v]
            if depth > 8:
                return None
            cp = [e for e in calls(ctx, COPIERS) if e[4] is v and e[2]]
            if not cp:
                return None
            e = cp[0]
            if e[1] == 'strdup':
                parts = [None]
                operands = [e[2][0]]
            else:
                fmt = settle(it, e[2][0])
                parts = _printf_pieces(fmt) if isinstance(fmt, str) else None
                operands = list(e[2][1:])
                if parts is None or parts.count(None) != len(operands):
                    return None
            out_ = []
            for q in parts:
                if q is not None:
                    out_.append(q)
                    continue
                sub_ = derive(operands.pop(0), pos[id(e)], depth + 1)
                if sub_ is None:
                    return None
                out_ += sub_
            strings.append((v, limit, frozenset(id(x) for x in out_ if not isinstance(x, str))))
            return out_
        pieces = derive(text, pos[id(src[0])])
        if pieces is None:
            unknown.setdefault('installs', 'the text that is tokenised is not built from the arguments of define_macro by strdup()/format("..%s..") alone: '
                               'what text it is is not known')
            continue
        merged = []
        for q in pieces:
            if isinstance(q, str) and merged and isinstance(merged[-1], str):
                merged[-1] += q
            elif q != '':
                merged.append(q)
        blank = lambda t: all(c in ' \t' for c in t)
        lead = merged[0] if merged and isinstance(merged[0], str) else ''
        body_ = merged[1:] if lead else merged
        i_name = [i for i, q in enumerate(body_) if q is a_name]
        i_buf = [i for i, q in enumerate(body_) if q is a_buf]
        if not (blank(lead) and i_name == [0]):
            fails.setdefault('under-the-given-name', 'the line read as a definition does not begin with the name given (once): the macro is then defined under another name')
        if len(i_buf) != 1 or not i_name or i_buf[0] < i_name[0]:
            fails.setdefault('body-is-the-tokenised-text', 'the line read as a definition does not hold the body text given to define_macro (once) after the name: -Dname=body '
                             'then expands to other tokens than `#define name body`')
            continue
        between = body_[i_name[0] + 1:i_buf[0]]
        sep = between[0] if len(between) == 1 and isinstance(between[0], str) else ('' if not between else None)
        if sep is None or sep == '' or not sep.isspace() or '\n' in sep:
            fails.setdefault('name-and-body-separated', 'name and body are not separated by white space in the line read as a definition (%r between them): -DA=1 then does not '
                             'read as `#define A 1`, and a body that starts with `(` reads as a parameter list' % (sep if sep is not None else between,))
        elif not blank(sep):
            unknown.setdefault('name-and-body-separated', 'name and body are separated by %r: whether the tokenizer passes over that like over a blank is not known here' % sep)
        tail = body_[i_buf[0] + 1:]
        end = tail[0] if len(tail) == 1 and isinstance(tail[0], str) else ('' if not tail else None)
        if end is None or not (end.endswith('\n') and blank(end[:-1])):
            fails.setdefault('line-ends-after-the-body', 'the line read as a definition does not end with a line end right after the body (%r follows it): the reader of '
                             '#define takes the tokens up to the first one at the beginning of a line' % (end if end is not None else tail,))
        # every pass over those strings before the text is tokenised: only the decoder (the identity on text without a backslash, by contract) is known
        touched = [(e, s, has) for e in ctx.events if e[0] == 'call' and e[1] not in COPIERS + ('new_file',) for s, lim, has in strings
                   if pos[id(e)] < lim and any(a is s for a in e[2])]
        other = sorted(set(e[1] for e, s, has in touched if e[1] != DECODER))
        if other:
            unknown.setdefault('installs', 'the text of the line is handed to %s() before it is tokenised: what text remains is not known' % ', '.join(other))
            continue
        decoded = set()
        for e, s, has in touched:
            decoded |= has
        for arg, k, what, ex in ((a_name, 'name-ucn-decoded-like-file-text', 'name', '-D\'\\u00e9=1\' then defines another name than `#define \\u00e9 1`'),
                                 (a_buf, 'body-ucn-decoded-like-file-text', 'body', '-DM="\\u00e9" then defines another string than `#define M "\\u00e9"`')):
            if file_text_decoded is None:
                unknown.setdefault(k, 'tokenize_file() does not hand the text of a file to %s(): where a file gets its \\u/\\U decoding, '
                                   'and so what the line of a -D option must get, was not found' % DECODER)
            elif id(arg) not in decoded:
                fails.setdefault(k, 'the %s is tokenised without the \\u/\\U decoding: %s in a file, whose text tokenize_file() decodes with %s()' % (what, ex, DECODER))
        inplace = [('name' if s is a_name else 'buf') for e, s, has in touched if s is a_name or s is a_buf]
        if inplace and literal_args:
            fails.setdefault('body-decoded-in-a-private-copy', '%s() rewrites the string given to define_macro (%s) in place, and %s passes string literals (%d calls)'
                             % (DECODER, ', '.join(sorted(set(inplace))), literal_args[0], literal_args[1]))
    if nret == 0 and not fails:
        rep.undecided('R10.11', '%s:%s:installs' % (U, fn), 'define_macro has no returning path', where=where)
        return
    if 'installs' in unknown:
        rep.undecided('R10.11', '%s:%s:installs' % (U, fn), unknown['installs'], where=where)
        return
    for k in KEYS:
        if k in unknown and k not in fails:
            rep.undecided('R10.11', '%s:%s:%s' % (U, fn, k), unknown[k], where=where)
        else:
            rep.ob('R10.11', '%s:%s:%s' % (U, fn, k), k not in fails, fails.get(k, ''), where=where)


# ------------------------------------------------------------------------------------------------ R10.12
# rules of C07 that state what value an integer constant expression has; `#if`/`#elif` select their group by that value
IF_VALUE_RULES = ('R07.1', 'R07.2', 'R07.3', 'R07.4', 'R07.8', 'R07.9')


def r1012_if_arithmetic(P, rep, tier):
    """Which group `#if E` / `#elif E` selects is decided by the value of E, and E is evaluated by the parser's constant folder: eval_const_expr hands the
    prepared tokens to const_expr(), i.e. to eval()/eval2().  A folder arm that computes another value than C11 prescribes (a comparison, division or shift
    carried out with the wrong signedness, a result not reduced to its type, an operand of a decided && || ?: evaluated, a zero divisor not diagnosed) selects
    the wrong text.  The folder is C07's subject; its integer-side obligations and the width of the path from the folder to the `#if` test are re-issued
    here.  Left to C07 alone: floating arms (eval_double; no floating operand reaches `#if` unconverted), address constants and relocations, is_const_expr."""
    rep.rule('R10.12', 'the value that selects the group of #if/#elif is the C11 value of the controlling expression: every integer arm of the constant folder behind '
             'eval_const_expr applies the operator its node kind denotes, with the signedness of the converted operands, reduces the result to the node type, '
             'diagnoses zero divisors and evaluates only the operands C evaluates; nothing between the folder and the test narrows the value (same obligations as C07)',
             floor=FLOORS['R10.12'])
    from ..report import Report, reissue
    from . import c07
    pu = P.unit(U)
    # the link: the controlling expression is evaluated by const_expr (if this ever changes the re-issued obligations speak about the wrong evaluator)
    fn = pu.fn('eval_const_expr')
    used = [c for c in fn.calls('const_expr')]
    rep.ob('R10.12', '%s:eval_const_expr:%s' % (U, 'evaluates-with-const_expr' if used else 'evaluator-unknown'), bool(used),
           'eval_const_expr does not call const_expr any more: the analysis does not know which evaluator computes the value of the controlling expression',
           where='%s:%d' % (U, fn.line))
    if not used:
        rep.undecided('R10.12', '%s:eval_const_expr:evaluator' % U, 'the evaluator of #if expressions is not const_expr: its arithmetic is not covered')
        return
    sub = Report('C07')
    try:
        c07.run(P, sub, tier)
    except (AnalysisBroken, Unsupported) as e:
        rep.undecided('R10.12', 'R07/analysis', 'the constant folder could not be analysed: %s' % e)
        return

    def keep(o):
        k = o['key']
        r = k.split(':', 1)[0]
        if r in IF_VALUE_RULES:
            return ':eval_double:' not in k
        if r == 'R07.7':
            return ':preprocess.c:' in k or ':const_expr:' in k
        return False
    n = reissue(rep, 'R10.12', sub, '#if / #elif would select another group than C11 prescribes: ', keep=keep)
    if n == 0:
        rep.undecided('R10.12', 'R07/none', 'C07 issued no obligation about the integer arms of the constant folder')


# ------------------------------------------------------------------------------------------------ R10.10
def _joiner_scenarios(null_first):
    sc = [('empty-first-list', 0, 1), ('first-list-of-1-token', 1, 1), ('first-list-of-2-tokens', 2, 1), ('first-list-of-3-tokens', 3, 1),
          ('empty-second-list', 1, 0), ('both-lists-empty', 0, 0)]
    if null_first:
        sc.insert(0, ('no-first-list-yet', None, 1))
    return sc


def r1010_joiners(P, rep, null_first):
    """`-include f` and `#include "f"` put the tokens of f in front of what follows (C11 6.10.2p3: the directive is replaced by the entire contents of
    the file).  The two functions that do it -- append_tokens (main.c, -include files and the main file) and append (preprocess.c, #include and macro
    bodies) -- are run on concrete token lists `t1 .. tn EOF` + `u1 .. um EOF` for n = 0..3, m = 0..1 (and, for the fold of cc1 that starts
    from NULL, no first list at all); the successor of a list's TK_EOF token is NULL, as the tokenizer leaves it.  The answer must be the list
    t1 .. tn u1 .. um EOF (the tokens themselves or copy_token copies of them), whatever n is: a file that tokenises to nothing (empty, or comments only)
    is a valid -include / #include."""
    rep.rule('R10.10', 'joining token lists is textual concatenation: append_tokens (used for -include files in front of the main file) and append (used for #include) '
             'hand back the tokens of the first list, in order, without its end marker, followed by the second list -- for every length of the first list including 0 '
             '(a file of comments only) and for the initial NULL of the fold in cc1', floor=FLOORS['R10.10'])
    for un, fn in (('main.c', 'append_tokens'), ('preprocess.c', 'append')):
        uu = P.unit(un)
        if fn not in uu.functions:
            rep.undecided('R10.10', '%s:%s:vanished' % (un, fn), 'the token list joiner %s vanished from %s' % (fn, un))
            continue
        register_nested_enums(uu)
        T = Toks(uu)
        E = uu.enums
        where = '%s:%d' % (un, uu.fn(fn).line)
        for tag, n, m in _joiner_scenarios(null_first and un == 'main.c'):
            crash = []

            def h_copy(it, ctx, nd, args):
                src = settle(it, args[0]) if args else None
                if not isinstance(src, Obj):
                    raise Unsupported('copy_token of %r' % (src,))
                o = Obj('Token', lazy=False, label='copy(%s)' % src.label)
                o.fields.update(src.fields)
                o.fields['next'] = 0
                o.meta['copy_of'] = src.meta.get('copy_of', src)
                return o
            it = PPInterp(P, uu, {'cut': {'copy_token': h_copy}, 'on_null_deref': lambda it_, nd: crash.append((nd.src(), nd.line)), 'loop_limit': 1})

            def mk(ctx, n=n, m=m):
                def lst(prefix, k):
                    ts = T.chain([('%s%d' % (prefix, i + 1), '%s%d' % (prefix, i + 1), 'TK_IDENT', i == 0) for i in range(k)] + [(prefix + '-eof', '', 'TK_EOF', True)])
                    ts[-1].fields['next'] = 0
                    return ts
                ctx.l1 = lst('t', n) if n is not None else None
                ctx.l2 = lst('u', m)
                return [ctx.l1[0] if ctx.l1 else 0, ctx.l2[0]]
            key = '%s:%s:' % (un, fn)
            try:
                res = it.explore(fn, mk, max_paths=50)
            except Unsupported as e:
                rep.undecided('R10.10', key + tag, 'cannot interpret %s: %s' % (fn, e), where=where)
                continue
            rets = [(c, o) for c, o in res if o[0] == 'ret']
            said = {'no-first-list-yet': 'nothing (NULL: no -include file so far)', 'empty-first-list': 'a file that tokenises to nothing (only its end marker)',
                    'empty-second-list': 'one token, followed by an empty second list', 'both-lists-empty': 'two empty lists'}.get(tag, '%s token(s)' % n)
            if not rets:
                if crash:
                    rep.ob('R10.10', key + tag + '/crashes', False,
                           '%s given %s as its first list evaluates `%s` through a NULL pointer (the successor of the TK_EOF token that ends a list is NULL): the compiler '
                           'crashes where textual inclusion of the same file yields its (possibly empty) text' % (fn, said, crash[0][0]), where='%s:%d' % (un, crash[0][1]))
                elif res:
                    rep.ob('R10.10', key + tag + '/rejected', False, '%s given %s as its first list ends in %s instead of handing back the joined list' % (fn, said, res[0][1][1]), where=where)
                else:
                    rep.undecided('R10.10', key + tag, '%s has no path the analysis can follow on this input' % fn, where=where)
                continue
            bad = None
            for ctx, out in rets:
                want = (ctx.l1[:-1] if ctx.l1 else []) + ctx.l2
                got = []
                t = settle(it, out[1])
                while isinstance(t, Obj) and len(got) < len(want) + 3:
                    got.append(t)
                    t = settle(it, t.fields.get('next', 0))
                orig = [g.meta.get('copy_of', g) for g in got]
                if len(orig) != len(want) or any(a is not b for a, b in zip(orig, want)):
                    bad = bad or ('%s given %s as its first list hands back [%s] instead of [%s]: the token stream differs from textual inclusion' % (
                        fn, said, ' '.join(g.label or '?' for g in orig) or 'nothing', ' '.join(w.label for w in want)))
                elif any(g is not w for g, w in zip(got[len(want) - len(ctx.l2):], ctx.l2)):
                    bad = bad or '%s does not hand back the second list itself as the tail of the result' % fn
            rep.ob('R10.10', key + tag + ('' if bad is None else '/wrong-list'), bad is None, bad or '', where=where)


# ------------------------------------------------------------------------------------------------ R10.6
def _m_push(it, ctx, n, args):
    arr = args[0]
    if not isinstance(arr, Obj):
        raise Unsupported('strarray_push on %r' % (arr,))
    d = arr.fields.get('data')
    if not isinstance(d, Arr):
        d = Arr([], label='data')
        arr.fields['data'] = d
    d.elems.append(args[1])
    arr.fields['len'] = len(d.elems)
    fd = n.enclosing('FunctionDecl')
    ctx.emit('push', n.args()[0].src(), args[1], n.line, fd.name if fd else None, arr)
    return None


def _zero_globals(mu):
    g = {}
    for name, d in mu.globals.items():
        t = (d.dtype or d.type or '').strip()
        if 'init' in d.d or t.endswith(']') or t.replace('struct ', '') in mu.records:
            continue
        g[name] = 0
    return g


def _main_cfg(extra_cut=None, mu=None):
    cut = {'define': None, 'undef_macro': None, 'define_macro': None, 'quote_makefile': None, 'hashmap_test': None, 'init_macros': None,
           'atexit': None, 'strdup': None, 'dirname': None}
    if mu is not None:
        # helpers of main.c are inlined, but their calls are recorded so that a value handed to one is seen
        for f in mu.functions:
            if f not in cut and f not in ('parse_args', 'take_arg', 'main', 'add_default_include_paths', 'usage'):
                cut[f] = _passthrough(f)
    cut.update(extra_cut or {})
    return {'models': {'strarray_push': _m_push}, 'cut': cut,
            'globals': _zero_globals(mu) if mu is not None else {},
            'noreturn': ['error', 'error_at', 'error_tok', 'exit', '_exit', 'abort', '__assert_fail', 'usage'], 'loop_limit': 1}


def _passthrough(name):
    def h(it, ctx, n, args):
        ctx.emit('call', name, args, n.line, None, None)
        uu, fn = it.find_def(name)
        if fn is None:
            raise Unsupported('no definition of %s' % name)
        return it.call_fn(uu, fn, args)
    return h


def _argv(words):
    return [len(words), Arr(list(words) + [0], label='argv')]


def r106(P, rep):
    rep.rule('R10.6', 'search order and option plumbing: include_paths is filled -I (argv order), then the system directories (own headers first, then the fixed '
             'directories in gcc\'s order), then -idirafter; every option in '
             'take_arg\'s table has a handler that takes the next argument as its value, and every handler that takes the next argument is in the table', floor=FLOORS['R10.6'])
    mu = P.unit('main.c')
    for f in ('parse_args', 'take_arg', 'main', 'add_default_include_paths'):
        if f not in mu.functions:
            raise AnalysisBroken('anchor function %s vanished from main.c' % f)
    pa = mu.fn('parse_args')
    where = 'main.c:%d' % pa.line
    # options with an exact-match handler, and the table
    exact = []
    for c in pa.calls('strcmp'):
        a = c.args()
        if len(a) == 2 and a[1].str_value() is not None and a[1].str_value().startswith('-'):
            if a[1].str_value() not in exact:
                exact.append(a[1].str_value())
    table = []
    for n in mu.fn('take_arg').walk():
        if n.kind == 'StringLiteral' and n.str_value() and n.str_value().startswith('-') and n.str_value() not in table:
            table.append(n.str_value())
    if len(exact) < 10 or len(table) < 3:
        rep.undecided('R10.6', 'main.c:parse_args:options', 'only %d exact-match options and %d table entries recognised' % (len(exact), len(table)))
        return
    VAL = 'c'
    for o in sorted(set(exact) | set(table)):
        # is o in the table? (take_arg evaluated on o)
        it = PPInterp(P, mu, _main_cfg(mu=mu))
        tr = [out for ctx, out in it.explore('take_arg', lambda ctx: [o]) if out[0] == 'ret']
        if len(tr) != 1 or not isinstance(settle(it, tr[0][1]), int):
            rep.undecided('R10.6', 'main.c:take_arg:table/%s' % o, 'take_arg(%r) could not be evaluated' % o)
            continue
        in_table = bool(settle(it, tr[0][1]))
        it = PPInterp(P, mu, _main_cfg(mu=mu))
        try:
            res = it.explore('parse_args', lambda ctx: _argv(['chibicc', o, VAL, 'in.c']), max_paths=50)
        except Unsupported as e:
            rep.undecided('R10.6', 'main.c:parse_args:option/%s' % o, 'the handler of %s uses a construct the interpreter does not model: %s' % (o, e))
            continue
        if len(res) != 1:
            rep.undecided('R10.6', 'main.c:parse_args:option/%s' % o, 'parse_args on `%s %s in.c` is not deterministic for the analysis (%d paths)' % (o, VAL, len(res)))
            continue
        ctx, out = res[0]
        if out[0] != 'ret':
            # the option ends the run (--help, -hashmap-test) or rejects: not a value-taking option in this scenario
            if in_table:
                rep.undecided('R10.6', 'main.c:parse_args:option/%s' % o,
                              '`%s %s in.c`: the option is in take_arg\'s table but this command line is rejected (%s); cannot tell whether the value is consumed' % (o, VAL, out[1]))
            continue
        pushes = [e for e in ctx.events if e[0] == 'push']
        inputs = [e[2] for e in pushes if e[1] == '&input_paths']
        # the value counts as taken for an input file when it is appended to input_paths by the statement that appends plain input files (the one that
        # appends `in.c`); a handler that consumes the value and files it among the inputs itself, to keep its position for the linker (-Xlinker, like -l), has consumed it
        plain = set((e[3], e[4]) for e in pushes if e[1] == '&input_paths' and e[2] == 'in.c')
        if plain:
            consumed = not any(e[1] == '&input_paths' and e[2] == VAL and (e[3], e[4]) in plain for e in pushes)
        else:
            consumed = VAL not in inputs
        line = where
        if consumed and not in_table:
            rep.ob('R10.6', 'main.c:take_arg:missing-from-table/%s' % o, False,
                   'the handler of `%s` takes the next argument as its value but `%s` is not in take_arg\'s table: the pre-scan that guarantees the argument exists '
                   'skips it, so a trailing `%s` hands NULL to the handler (crash), and a value that looks like an option in the table shifts the pre-scan' % (o, o, o),
                   where='main.c:%d' % mu.fn('take_arg').line)
        elif in_table and not consumed:
            rep.ob('R10.6', 'main.c:parse_args:separate-argument-not-consumed/%s' % o, False,
                   '`%s` is in take_arg\'s table (so `%s %s` reserves the next argument) but no handler consumes it: `%s` is taken as an input file and the option gets an empty value' % (o, o, VAL, VAL),
                   where=where)
        else:
            rep.ob('R10.6', 'main.c:parse_args:table-agrees/%s' % o, True, '', where=where)
        if consumed:
            # the value must be the next argument, not the option's own name
            vals = [e[2] for e in pushes] + [a for e in calls(ctx) for a in e[2]] + [v for k, v in ctx.globals.items() if isinstance(v, str)]
            strs = [v for v in vals if isinstance(v, str)]
            good = VAL in strs
            selfv = (not good) and o in strs
            rep.ob('R10.6', 'main.c:parse_args:%s/%s' % ('value-is-next-argument' if good else 'value-not-next-argument', o), good,
                   '`%s %s`: the handler %s' % (o, VAL, ('stores the option\'s own name as its value and drops `%s`' % VAL) if selfv else 'does not use the next argument as the value'),
                   where=where, facts={'values seen': strs})
    _r106_order(P, mu, rep)


# relative order of the fixed system directories as gcc on this target searches them (`gcc -v`: its own header directory,
# /usr/local/include, the multiarch directory, /usr/include): the more specific directory shadows the general one
SYSTEM_DIR_ORDER = ('/usr/local/include', '/usr/include/x86_64-linux-gnu', '/usr/include')


def _derives_from(ctx, v, word, depth=0):
    """is value v computed (through recorded calls / format terms) from the command-line word `word`?"""
    if isinstance(v, str):
        return v == word
    if depth > 6:
        return False
    if isinstance(v, Term):
        return any(_derives_from(ctx, a, word, depth + 1) for a in v.args)
    e = _ev_result(ctx, v)
    if e is not None:
        return any(_derives_from(ctx, a, word, depth + 1) for a in e[2])
    return False


def _r106_system_order(ctx, seq, cls, words, rep, where, shown):
    """inside the block of system directories: the compiler's own header directory (derived from argv[0]) comes first,
    the fixed directories follow in gcc's order"""
    sysd = [v for v, c in zip(seq, cls) if c == 'system']
    own = [i for i, v in enumerate(sysd) if not isinstance(v, str) and _derives_from(ctx, v, words[0])]
    fixed = [v for v in sysd if isinstance(v, str)]
    known = [v for v in fixed if v in SYSTEM_DIR_ORDER]
    if not own or len(known) < 2:
        rep.undecided('R10.6', 'main.c:main:search-order/system-dirs', 'could not recognise the compiler\'s own header directory and two of the fixed system directories '
                      'in the search list: %r' % (shown,))
        return
    first_fixed = min(i for i, v in enumerate(sysd) if isinstance(v, str))
    ok = max(own) < first_fixed
    rep.ob('R10.6', 'main.c:main:search-order/%s' % ('own-headers-before-system-dirs' if ok else 'own-headers-after-system-dir'), ok,
           'the compiler\'s own header directory (<dir of argv[0]>/include: stddef.h, stdarg.h, stdatomic.h, float.h ... written for this compiler) is searched after the '
           'system directory %r: a header of the same name there (e.g. another compiler\'s stdarg.h in /usr/local/include) shadows it' % (sysd[first_fixed],),
           where=where, facts={'include_paths': shown})
    inv = [(a, b) for a, b in zip(known, known[1:]) if SYSTEM_DIR_ORDER.index(a) > SYSTEM_DIR_ORDER.index(b)]
    ok = not inv and len(set(known)) == len(known)
    rep.ob('R10.6', 'main.c:main:search-order/%s' % ('system-dirs-in-order' if ok else ('system-dir-repeated' if not inv else 'system-dir-out-of-order%s' % inv[0][1])), ok,
           'the fixed system directories are searched in the order %r; gcc searches %r: %s' % (
               known, list(SYSTEM_DIR_ORDER), ('%r is searched before %r, so a header present in both (or an #include_next chain through them) resolves to the other file'
                                               % inv[0]) if inv else 'a directory is listed twice (an #include_next chain visits the same file again)'),
           where=where, facts={'include_paths': shown})


def _r106_order(P, mu, rep):
    where = 'main.c:%d' % mu.fn('main').line

    def h_cc1(it, ctx, n, args):
        raise NoReturn(RESUME, [None], n.line)
    words = ['chibicc', '-cc1', '-IA', '-idirafter', 'B', '-IC', 'x.c']
    it = PPInterp(P, mu, _main_cfg({'cc1': h_cc1}, mu=mu))
    try:
        res = it.explore('main', lambda ctx: _argv(words), max_paths=50)
    except Unsupported as e:
        rep.undecided('R10.6', 'main.c:main:search-order', 'main() uses a construct the interpreter does not model: %s' % e)
        return
    res = [(c, o) for c, o in res if outcome(o)[0] == 'resume']
    if len(res) != 1:
        rep.undecided('R10.6', 'main.c:main:search-order', 'the -cc1 path of main() could not be followed to cc1() (%d paths)' % len(res))
        return
    ctx, out = res[0]
    g = ctx.globals.get('include_paths')
    d = g.fields.get('data') if isinstance(g, Obj) else None
    if not isinstance(d, Arr) or not d.elems:
        rep.undecided('R10.6', 'main.c:main:search-order', 'include_paths is empty when cc1() starts')
        return
    seq = d.elems
    cls = []
    for v in seq:
        if v in ('A', 'C'):
            cls.append('I')
        elif v in ('B', '-idirafter'):
            cls.append('after')
        elif isinstance(v, str) and v in words:
            cls.append('argv')
        else:
            cls.append('system')
    shown = [v if isinstance(v, str) else '<%r>' % (v,) for v in seq]
    if 'system' not in cls or 'I' not in cls:
        rep.undecided('R10.6', 'main.c:main:search-order', 'could not recognise -I and system directories in include_paths: %r' % (shown,))
        return
    ivals = [v for v, c in zip(seq, cls) if c == 'I']
    first_sys = cls.index('system')
    last_sys = len(cls) - 1 - cls[::-1].index('system')
    ok_i = ivals == ['A', 'C'] and all(c == 'I' for c in cls[:2])
    rep.ob('R10.6', 'main.c:main:search-order/-I-before-system-dirs', ok_i and first_sys >= 2,
           'with `-IA ... -IC` the search list handed to cc1 starts %r: -I directories must come first, in command-line order' % (shown[:4],), where=where, facts={'include_paths': shown})
    afters = [i for i, c in enumerate(cls) if c == 'after']
    if not afters:
        rep.ob('R10.6', 'main.c:main:search-order/idirafter-missing', False,
               'with `-idirafter B` the search list handed to cc1 contains no entry for it: %r' % (shown,), where=where, facts={'include_paths': shown})
    else:
        ok = min(afters) > last_sys
        rep.ob('R10.6', 'main.c:main:search-order/%s' % ('idirafter-after-system-dirs' if ok else 'idirafter-before-system-dirs'), ok,
               'the -idirafter entry is placed at position %d, in front of the system directories (positions %d..%d): a header in an -idirafter directory shadows the '
               'system header of the same name instead of being a fallback (%r)' % (min(afters), first_sys, last_sys, shown), where=where, facts={'include_paths': shown})
    stray = [v for v, c in zip(seq, cls) if c == 'argv']
    rep.ob('R10.6', 'main.c:main:search-order/only-directories', not stray, 'command-line words that are not include directories end up in the search list: %r' % (stray,), where=where)
    _r106_system_order(ctx, seq, cls, words, rep, where, shown)
    # -D / -U in argv order
    it = PPInterp(P, mu, _main_cfg(mu=mu))
    res = it.explore('parse_args', lambda ctx: _argv(['chibicc', '-DX', '-UX', '-D', 'X=2', '-U', 'Y', 'x.c']), max_paths=50)
    seqs = [[(e[1], e[2][0] if e[2] else None) for e in calls(c, ('define', 'undef_macro', 'define_macro'))] for c, o in res if o[0] == 'ret']
    want = [('define', 'X'), ('undef_macro', 'X'), ('define', 'X=2'), ('undef_macro', 'Y')]
    if len(seqs) != 1:
        rep.undecided('R10.6', 'main.c:parse_args:D-U-order', 'parse_args on a -D/-U command line could not be followed')
        return
    norm = [(a if a != 'define_macro' else 'define', b) for a, b in seqs[0]]
    rep.ob('R10.6', 'main.c:parse_args:D-U-in-argv-order', norm == want,
           '`-DX -UX -D X=2 -U Y` is applied as %r: definitions and undefinitions must act in command-line order' % (seqs[0],), where='main.c:%d' % mu.fn('parse_args').line)


# ------------------------------------------------------------------------------------------------ R10.14
def r1014_tables(P, rep):
    """`#ifdef X`, `#ifndef X`, `defined(X)` and the expansion decision select text by asking the macro table; the re-inclusion shortcuts (R10.3) ask the
    `#pragma once` table and the guard memo; search_include_paths answers from its cache.  All of them are instances of the one open-addressing table of
    hashmap.c, and the selected text is right only if that table is a dictionary: a lookup answers the value of the most recent put of exactly that key that
    no delete followed, for every history of puts and deletes.  `defined(X)` is true exactly when X is defined <=> after `#define A`, `#define B`, `#undef A`,
    `#define B`, `#undef B` (A and B in one probe sequence) no copy of B is left.  The premises of the textbook correctness argument for open addressing
    with tombstones are what C17 decides on hashmap.c (claim a slot only after the probe has proven the key absent, lookups pass tombstones and end only at a
    NULL slot, delete writes the sentinel, `used` accounting and rehash, put/get store and return the value) together with who may write the macro table;
    they are clauses of this property too and are re-issued here."""
    rep.rule('R10.14', 'defined(X) / #ifdef X is true exactly when X is defined, and a re-inclusion shortcut is taken exactly for a recorded file: the hash table behind the macro '
             'table, the #pragma once table, the guard memo and the include cache is a dictionary for every history of insertions and deletions (C17 R17.1-R17.8 '
             're-issued: a slot is claimed only after the key is proven absent, lookups pass tombstones, delete leaves a tombstone, used/rehash accounting, '
             'put/get carry the value; the macro table is written by #define/#undef/-D/-U alone and read by find_macro alone)', floor=FLOORS['R10.14'])
    from ..report import Report, reissue
    from . import c17
    hu = P.unit(c17.U)
    why = ('the table no longer answers "the most recent definition of exactly this name, none after #undef": #ifdef / defined() / an #include shortcut selects other text '
           'than the directives executed so far prescribe: ')
    total = 0
    for name, args in (('r171', (P, hu)), ('r172', (P, hu)), ('r173', (P, hu)), ('r175', (P, hu)), ('r176', (P, hu)), ('r177', (P,))):
        f = getattr(c17, name, None)
        if f is None:
            rep.undecided('R10.14', 'R17/%s/vanished' % name, 'the C17 rule function %s is gone' % name)
            continue
        sub = Report('C17')
        try:
            f(*(args + (sub,)))
        except (AnalysisBroken, Unsupported, Infeasible) as e:
            rep.undecided('R10.14', 'R17/%s/analysis' % name, 'the table analysis %s could not proceed: %s' % (name, e))
            continue
        total += reissue(rep, 'R10.14', sub, why)
    if total == 0:
        rep.undecided('R10.14', 'R17/none', 'C17 issued no obligation about the hash table')


# ------------------------------------------------------------------------------------------------ R10.15
def r1015_directive_source(P, u, T, rep):
    """The text selected is what the directives of the SOURCE select.  A `#` that is the result of macro replacement never starts a directive, even when it lands
    first on a line (C11 6.10.3.4p3): `#define HASH #` / `HASH define FLAG 1`, `HASH include "x.h"`, `HASH else` are ordinary text.  (1) C09's directive-source
    rule on the dispatcher (every path of preprocess2 that takes a `#` out of the stream has found a member expand_macro sets on every replacement token null)
    is a clause of this property too and is re-issued.  (2) Each of the four scanners that decide where directives are (the dispatcher, both group skippers, the
    include-guard recogniser) is run on `# d M` whose `#` begins a line and carries the mark of a replacement token: it must behave as on an ordinary line."""
    rep.rule('R10.15', 'the text selected is what the directives of the source select: a `#` produced by macro replacement is never the start of a directive, even first on a '
             'line (C11 6.10.3.4p3) - the dispatcher (C09 R09.16 re-issued, and per directive word), skip_cond_incl, skip_cond_incl2 and detect_include_guard treat '
             '`# d M` with a replaced `#` as an ordinary line', floor=20)
    from ..report import Report, reissue
    from . import c09
    sub = Report('C09')
    try:
        eit, epaths = c09.explore_expand(P, u, with_empty=True)
        c09.r_directive_source(P, u, sub, eit, epaths)
        n = reissue(rep, 'R10.15', sub, 'text produced by macro replacement is executed as a directive (#define/#include take effect, #else/#endif end a group), so other groups are '
                                       'selected and other files included than the directives of the source select: ')
    except (AnalysisBroken, Unsupported, Infeasible) as e:
        rep.undecided('R10.15', 'R09.16/analysis', 'the directive-source analysis of C09 could not proceed: %s' % e)
        n = 1
    if n == 0:
        rep.undecided('R10.15', 'R09.16/none', 'C09 issued no obligation about the source of directives')
    # the scenario tokens carry the mark of a replacement token in `origin`: that this is the member expand_macro sets on every token of a replacement is
    # what the re-issued rule establishes (it names the members); without it the scenarios below say nothing
    fields = [f for f, _, _ in (u.records.get('Token') or [])]
    sets_origin = any(n.kind == 'BinaryOperator' and n.opcode == '=' and n.inner and n.inner[0].strip().kind == 'MemberExpr' and n.inner[0].strip().name == 'origin'
                      for f in u.functions.values() for n in f.walk())
    if 'origin' not in fields or not sets_origin:
        rep.undecided('R10.15', '%s:Token:replacement-mark' % U, 'Token.origin (the member expand_macro leaves on every token of a replacement) vanished or is never assigned: the scanners '
                      'cannot be run on a replaced `#`')
        return
    lits = set()
    for f in ('skip_cond_incl', 'skip_cond_incl2', 'detect_include_guard', 'preprocess2'):
        lits |= string_lits_compared(u.fn(f))
    universe = list(COND) + sorted(x for x in lits if x not in COND and x != '#') + ['no_such_directive']
    _r102_null_directive(P, u, T, rep, universe, variant='replaced', rule='R10.15')
    says = {'nest': 'treats it as the opener of a nested conditional', 'close': 'treats it as the end of the nested conditional',
            'stop': 'stops at it as the end of the skipped group'}
    for fn in ('skip_cond_incl2', 'skip_cond_incl'):
        where = '%s:%d' % (U, u.fn(fn).line)
        for d in COND:
            try:
                cls, _ = _scanner_class(P, u, T, fn, d, 'replaced')
            except Unsupported as e:
                rep.undecided('R10.15', '%s:%s:replaced/%s' % (U, fn, d), 'cannot interpret %s: %s' % (fn, e))
                continue
            if not cls:
                rep.undecided('R10.15', '%s:%s:replaced/%s' % (U, fn, d), '%s has no path the analysis can follow' % fn)
                continue
            ok = cls == {'pass'}
            got = sorted(cls - {'pass'})[0] if not ok else 'pass'
            rep.ob('R10.15', '%s:%s:%s/%s' % (U, fn, 'non-directive-replaced-passed' if ok else 'non-directive-replaced-taken-for-directive', d), ok,
                   '%s %s: `# %s` whose `#` begins a line but is the result of macro replacement (`#define HASH #` / `HASH %s`); the dispatcher does not take it for a '
                   'directive (C11 6.10.3.4p3), so the skipper and the dispatcher disagree about the nesting' % (fn, says.get(got, got[4:] if got.startswith('odd:') else got), d, d),
                   where=where, facts={'behaviours': sorted(cls)})
    fn = 'detect_include_guard'
    where = '%s:%d' % (U, u.fn(fn).line)
    for d in COND:
        try:
            cls = _guard_class(P, u, T, d, 'replaced')
        except Unsupported as e:
            rep.undecided('R10.15', '%s:%s:replaced/%s' % (U, fn, d), 'cannot interpret %s: %s' % (fn, e))
            continue
        if not cls:
            rep.undecided('R10.15', '%s:%s:replaced/%s' % (U, fn, d), '%s has no path the analysis can follow' % fn)
            continue
        ok = cls <= {'pass', 'reject'}
        got = sorted(cls - {'pass', 'reject'})[0] if not ok else ''
        rep.ob('R10.15', '%s:%s:%s/%s' % (U, fn, 'non-directive-replaced-passed' if ok else 'non-directive-replaced-taken-for-directive', d), ok,
               'the include-guard recogniser acts on `# %s` whose `#` is the result of macro replacement as on a directive (%s); the dispatcher passes that line as text '
               '(C11 6.10.3.4p3), so the recogniser and the dispatcher disagree about where the guarded region ends' % (d, got), where=where, facts={'behaviours': sorted(cls)})


# ------------------------------------------------------------------------------------------------ R10.9
def r109_macro_table_order(P, rep):
    """which text a conditional selects depends on the macro table a translation unit starts with: the predefined macros, then the -D / -U
    options in command-line order on top of them (so that -U removes and -D redefines a predefined macro), then the source. Decided on
    main(): among its unconditional top-level calls, the one that reaches the installation of the predefined macros comes before the one
    that reaches the option handlers writing the macro table. Writers are found through the call graph, not by name."""
    from .. import lib_c14 as L
    rep.rule('R10.9', 'the macro table is initialised in the order predefined macros -> command-line -D/-U -> source text: in main() the call installing the predefined macros precedes, unconditionally, the call that applies the options', floor=1)
    mu = P.unit('main.c')
    pu = P.unit('preprocess.c')
    if 'main' not in mu.functions:
        raise AnalysisBroken('main.c: main vanished')
    cg = L.CallGraph(P)
    # direct writers of the macro table
    writers = set()
    for un in P.unit_names:
        u = P.unit(un)
        for fname, fd in u.functions.items():
            for c in fd.calls():
                if c.callee() in ('hashmap_put', 'hashmap_put2', 'hashmap_delete', 'hashmap_delete2') and c.args() and c.args()[0].src() == '&macros':
                    writers.add(fname)
    if not writers:
        rep.undecided('R10.9', 'main.c:main:macro-table-order', 'no writer of the macro table found'); return

    def reaches_writer(f):
        return f in writers or bool(cg.reach(f) & writers)
    # the predefined-macro installer: reaches a writer and contains the spelling of a macro the standard requires to be predefined
    def is_predef(f):
        for u, fd in cg.defs.get(f, []):
            for n in fd.walk():
                if n.kind == 'StringLiteral' and n.str_value() in ('__STDC__', '__STDC_VERSION__'):
                    return True
        return False
    predef = {f for f in cg.defs if reaches_writer(f) and (is_predef(f) or any(is_predef(g) for g in cg.reach(f) if g in cg.defs))}
    predef.discard('main')
    body = mu.body('main')
    where = 'main.c:%d' % mu.fn('main').line
    seq = []          # (role, name, unconditional)
    for st in body.inner:
        uncond = st.kind in ('CallExpr',) or (st.kind not in ('IfStmt', 'ForStmt', 'WhileStmt', 'DoStmt', 'SwitchStmt'))
        for c in ([st] if st.kind == 'CallExpr' else list(st.find('CallExpr'))):
            name = c.callee()
            if not name or name not in cg.defs:
                continue
            if name in predef:
                seq.append(('predefined', name, uncond))
            elif reaches_writer(name) and any(p.type and 'char **' in (p.type or '') for p in (cg.defs[name][0][0].params(name) or [])):
                seq.append(('options', name, uncond))
    roles = [r for r, _, _ in seq]
    if 'predefined' not in roles or 'options' not in roles:
        rep.undecided('R10.9', 'main.c:main:macro-table-order', 'could not recognise both the predefined-macro installation and the option handling among the calls of main (%r)' % (seq,), where=where); return
    ip, io = roles.index('predefined'), roles.index('options')
    ok = ip < io and seq[ip][2]
    rep.ob('R10.9', 'main.c:main:predefined-macros-before-options', ok,
           'main() applies the command-line options (%s) %s the predefined macros are installed (%s)%s: -U of a predefined macro is undone and -D of one is overwritten, so #if/#ifdef on it select the wrong group'
           % (seq[io][1], 'before' if ip > io else 'while', seq[ip][1], '' if seq[ip][2] else ' only conditionally'), where=where)
