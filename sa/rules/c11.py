"""C11 Literals have the C11 value, type and encoding (DESIGN.md section 3, C11).

The literal readers are finite decision procedures over spellings, so they are decided by
interpreting chibicc's own source (Engine I) on the spellings of the C11 grammar:
concretely where the table is finite (suffixes, escapes, prefixes, codec boundary and
single-bit code points, normalisation pipeline), symbolically where it is not (the
magnitude of an integer constant is an opaque 64-bit value; the comparisons the ladder
performs partition it)."""
from ..interp import Obj, Sym, Term, View, _Ref, VarPlace
from ..build import AnalysisBroken
from .. import lib_c11 as L
import re as _re

TU = 'tokenize.c'
UU = 'unicode.c'
PU = 'preprocess.c'


def _where(u, fn):
    f = u.fn(fn)
    return '%s:%d' % (u.name, f.line if f is not None else 0)


def _need(u, *fns):
    for f in fns:
        if f not in u.functions:
            raise AnalysisBroken('anchor function %s vanished from %s' % (f, u.name))


# ===================================================================== R11.1 / R11.2 ===
BASES = [('dec', 10, ['1', '9', '12', '4294967296']),
         ('oct', 8, ['0', '01', '07', '017']),
         ('hex', 16, ['0x1', '0X1', '0xf', '0XaF', '0x0']),
         ('bin', 2, ['0b1', '0B0', '0b10'])]
# C11 6.4.4.1 integer-suffix: (spelling, l, u)
SUFFIXES = [('', 0, 0)] + [(s, 0, 1) for s in ('u', 'U')] + [(s, 1, 0) for s in ('l', 'L', 'll', 'LL')] + \
    [(s, 1, 1) for s in ('ul', 'uL', 'Ul', 'UL', 'lu', 'lU', 'Lu', 'LU', 'ull', 'uLL', 'Ull', 'ULL', 'llu', 'llU', 'LLu', 'LLU')]
BAD_SUFFIXES = ['lL', 'Ll', 'lLu', 'Llu', 'ulL', 'uLl', 'uu', 'lll', 'lul', 'ulu', 'ullu', 'x', 'i', 'lf', 'z']
MAGS = [('<2^31', 0, 1 << 31), ('2^31..2^32', 1 << 31, 1 << 32), ('2^32..2^63', 1 << 32, 1 << 63), ('>=2^63', 1 << 63, 1 << 64)]
INT, UINT, LONG, ULONG = ('TY_INT', 4, 0), ('TY_INT', 4, 1), ('TY_LONG', 8, 0), ('TY_LONG', 8, 1)
TYN = {INT: 'int', UINT: 'unsigned int', LONG: 'long', ULONG: 'unsigned long'}


def ladder_oracle(decimal, l, u, m):
    """C11 6.4.4.1p5 on LP64 (long long == long in chibicc's type system); None = no type in the list fits"""
    if l and u:
        return ULONG
    if u:
        return UINT if m <= 1 else ULONG
    if decimal:
        if l:
            return LONG if m <= 2 else None
        return INT if m == 0 else (LONG if m <= 2 else None)
    if l:
        return LONG if m <= 2 else ULONG
    return (INT, UINT, LONG, ULONG)[m]


class _NoEval(Exception):
    pass


def _eval_key(k, x, signed):
    """value of an interpreter term key over the 64-bit pattern x of the constant's value"""
    if isinstance(k, bool):
        return int(k)
    if isinstance(k, int):
        return k
    if not isinstance(k, tuple) or not k:
        raise _NoEval(repr(k))
    if k[0] == 'sym':
        if k[1] != 'val':
            raise _NoEval('foreign symbol %s' % k[1])
        return x - (1 << 64) if (signed and x >> 63) else x
    if k[0] == 'lin':
        s = k[1]
        for kk, c in k[2:]:
            s += c * _eval_key(kk, x, signed)
        return s
    if k[0] == 'term':
        op = k[1]
        a = [_eval_key(y, x, signed) for y in k[2:]]
        if op == '!' and len(a) == 1:
            return int(not a[0])
        if op == '~' and len(a) == 1:
            return ~a[0]
        if op == 'neg' and len(a) == 1:
            return -a[0]
        if op.startswith('as:') and len(a) == 1:
            bits, sg = int(op[3:-1]), op[-1] == 's'
            v = a[0] & ((1 << bits) - 1)
            return v - (1 << bits) if (sg and v >> (bits - 1)) else v
        if op.startswith('cast:') and len(a) == 1:
            from ..interp import wrap_int, int_type
            if int_type(op[5:]) is None:
                raise _NoEval(op)
            return wrap_int(a[0], op[5:])
        if len(a) == 2:
            p, q = a
            if op == '>>' and 0 <= q < 64: return p >> q
            if op == '<<' and 0 <= q < 64: return p << q
            if op == '&': return p & q
            if op == '|': return p | q
            if op == '^': return p ^ q
            if op == '<': return int(p < q)
            if op == '<=': return int(p <= q)
            if op == '>': return int(p > q)
            if op == '>=': return int(p >= q)
            if op == '==': return int(p == q)
            if op == '!=': return int(p != q)
            if op == '+': return p + q
            if op == '-': return p - q
        raise _NoEval('operator %s' % op)
    raise _NoEval(repr(k))


def _ints_in(k, out):
    if isinstance(k, bool):
        return
    if isinstance(k, int):
        out.add(k)
    elif isinstance(k, tuple):
        for y in k:
            _ints_in(y, out)


def _cells(paths):
    """partition of [0, 2^64) on which every recorded decision of every path is constant (checked at both ends)"""
    cuts = {0, 1 << 64}
    for j in range(65):
        cuts.add(1 << j)
    ints = set()
    for ctx, out in paths:
        for k in ctx.facts:
            _ints_in(k, ints)
    for c in ints:
        for d in (c, c + 1, c % (1 << 64), (c + 1) % (1 << 64)):
            if 0 <= d <= (1 << 64):
                cuts.add(d)
    cs = sorted(cuts)
    return [(cs[i], cs[i + 1]) for i in range(len(cs) - 1)]


def _path_holds(ctx, lo, hi):
    """does the value cell [lo,hi) satisfy the decisions of this path?  True/False, or raises _NoEval"""
    verdicts = set()
    for x in (lo, hi - 1):
        for signed in (True, False):
            ok = True
            for k, truth in ctx.facts.items():
                if bool(_eval_key(k, x, signed)) != bool(truth):
                    ok = False
                    break
            verdicts.add(ok)
    if len(verdicts) != 1:
        raise _NoEval('a decision of the ladder is not constant on the value interval [%#x, %#x) or depends on the signedness the analysis cannot see' % (lo, hi))
    return verdicts.pop()


def r111(P, u, rep):
    fn = 'convert_pp_int'
    _need(u, fn)
    rep.rule('R11.1', 'integer constants get the type of C11 6.4.4.1p5 (LP64) for every base x suffix x magnitude class, keep their value, and hand exactly their digits to an unsigned 64-bit conversion', floor=68)
    rep.rule('R11.2', 'exactly the integer suffixes of C11 6.4.4.1 are accepted (u l ul lu ll ull llu in the case variants, not lL), anything else makes convert_pp_int decline', floor=38)
    where = _where(u, fn)
    tk_num = u.enums.get('TK_NUM')
    if tk_num is None:
        raise AnalysisBroken('enumerator TK_NUM vanished')
    models = L.make_models(int_value=lambda it, ctx, text, base, v: Sym('val', 'unsigned long'))

    def explore(text):
        it = L.CInterp(P, u, {'models': models})
        toks = []

        def mk(ctx):
            t = Obj('Token', lazy=False, label='tok')
            t.fields['loc'] = L.cstring(text)
            t.fields['len'] = len(text)
            t.fields['kind'] = u.enums.get('TK_PP_NUM', 0)
            ctx.tok = t
            return [t]
        res = it.explore(fn, mk, max_paths=400)
        if not res:
            raise AnalysisBroken('%s("%s") has no outcome' % (fn, text))
        return it, res

    # per (base, suffix class, magnitude): first failure
    cellres = {}     # key -> [ok, msg]
    accept = {}      # suffix spelling -> [ok, msg]
    misc = {}        # other obligations
    for bname, base, spellings in BASES:
        for sfx, l, uu in SUFFIXES:
            for digits in spellings[:3] if sfx else spellings:
                text = digits + sfx
                it, res = explore(text)
                rets = [(c, o) for c, o in res if o[0] == 'ret']
                a = accept.setdefault(sfx or '(none)', [True, ''])
                bad = [o for c, o in res if o[0] != 'ret' or not (isinstance(o[1], int) and o[1] != 0)]
                if bad:
                    a[0] = False
                    a[1] = 'the valid integer constant `%s` is not accepted by convert_pp_int (outcome %r): it would be re-read as a floating constant or rejected' % (text, bad[0][:2])
                    continue
                try:
                    cells = _cells(rets)
                    sclass = {(0, 0): 'none', (0, 1): 'u', (1, 0): 'l', (1, 1): 'ul'}[(l, uu)]
                    for mi, (mname, mlo, mhi) in enumerate(MAGS):
                        want = ladder_oracle(base == 10, l, uu, mi)
                        key = '%s:%s:base=%s/suffix=%s/value%s' % (TU, fn, bname, sclass, mname)
                        if want is None:
                            continue
                        cur = cellres.setdefault(key, [True, ''])
                        for lo, hi in cells:
                            if lo < mlo or hi > mhi:
                                continue
                            n = 0
                            for ctx, out in rets:
                                if not _path_holds(ctx, lo, hi):
                                    continue
                                n += 1
                                got = L.type_sig(it, ctx.tok.fields.get('ty', 0))
                                if got != want and cur[0]:
                                    cur[0] = False
                                    cur[1] = 'a %s constant with %s (spelled like `%s`) whose value lies in [%#x, %#x] gets type %s; C11 6.4.4.1p5 requires %s (sizeof, _Generic and the value after truncation differ)' % (
                                        {'dec': 'decimal', 'oct': 'octal', 'hex': 'hexadecimal', 'bin': 'binary'}[bname], ('suffix `%s`' % sfx) if sfx else 'no suffix', text, lo, hi - 1, TYN.get(got, got), TYN[want])
                            if n == 0 and cur[0]:
                                cur[0] = False
                                cur[1] = 'no path of the ladder covers `%s` with a value in [%#x, %#x]' % (text, lo, hi - 1)
                except _NoEval as e:
                    rep.undecided('R11.1', '%s:%s:ladder-decisions' % (TU, fn), 'cannot evaluate a decision of the type ladder over the value: %s' % e, where=where)
                    return
                # value, kind, digits
                for ctx, out in rets:
                    v = ctx.tok.fields.get('val')
                    m = misc.setdefault('value-preserved', [True, ''])
                    if not (isinstance(v, Sym) and v.name == 'val'):
                        m[0] = False; m[1] = 'the token value of `%s` is %r, not the converted value itself' % (text, v)
                    m = misc.setdefault('kind-becomes-TK_NUM', [True, ''])
                    if ctx.tok.fields.get('kind') != tk_num:
                        m[0] = False; m[1] = 'convert_pp_int accepts `%s` but does not turn the token into TK_NUM' % text
                    ev = [e for e in ctx.events if e[0] == 'strtoint']
                    m = misc.setdefault('digits-%s' % bname, [True, ''])
                    body = digits[2:] if bname in ('hex', 'bin') else digits
                    okd = len(ev) == 1 and ev[0][1] in ('strtoul', 'strtoull') and ev[0][3] == base and \
                        ev[0][2] != '' and int(ev[0][2], base) == int(body, base)
                    if not okd:
                        m[0] = False
                        m[1] = 'the digits of `%s` are converted by %s' % (text, ', '.join('%s("%s", base %d)' % e[1:4] for e in ev) or 'no strtoul call') + \
                            '; expected one unsigned 64-bit conversion of "%s" in base %d (a signed conversion saturates at 2^63-1)' % (body, base)
    for key, (ok, msg) in sorted(cellres.items()):
        rep.ob('R11.1', key, ok, msg, where=where)
    for name, (ok, msg) in sorted(misc.items()):
        rep.ob('R11.1', '%s:%s:%s' % (TU, fn, name), ok, msg, where=where)
    for sfx, (ok, msg) in sorted(accept.items()):
        rep.ob('R11.2', '%s:%s:accepts-suffix-%s' % (TU, fn, sfx), ok, msg, where=where)
    for sfx in BAD_SUFFIXES:
        ok, msg = True, ''
        for bname, base, spellings in BASES:
            text = spellings[1] + sfx
            if bname == 'hex' and sfx in ('lf',):
                continue
            it, res = explore(text)
            for ctx, out in res:
                if out[0] == 'ret' and isinstance(out[1], int) and out[1] == 0:
                    continue
                if out[0] == 'noreturn':
                    continue
                ok = False
                msg = '`%s` is accepted as an integer constant (type %s) although `%s` is not an integer-suffix of C11 6.4.4.1' % (
                    text, TYN.get(L.type_sig(it, ctx.tok.fields.get('ty', 0)), '?'), sfx)
        rep.ob('R11.2', '%s:%s:declines-suffix-%s' % (TU, fn, sfx), ok, msg, where=where)
    # the whole alphabet instead of samples: every single letter other than u U l L, and every sequence of two or three of u U l L
    # that is not an integer-suffix of 6.4.4.1 (letters that are digits of the base are left out)
    import itertools as _it
    import string as _string
    valid = set(x[0] for x in SUFFIXES)
    combos = [''.join(t) for k in (2, 3) for t in _it.product('uUlL', repeat=k) if ''.join(t) not in valid]
    for name, sfxs in (('other-lower-case-letters', [c for c in _string.ascii_lowercase if c not in 'ul']),
                       ('other-upper-case-letters', [c for c in _string.ascii_uppercase if c not in 'UL']),
                       ('other-sequences-of-u-and-l', combos)):
        ok, msg = True, ''
        for sfx in sfxs:
            for bname, base, spellings in BASES:
                if bname == 'hex' and sfx in _string.hexdigits:
                    continue
                text = spellings[1] + sfx
                it, res = explore(text)
                for ctx, out in res:
                    if (out[0] == 'ret' and isinstance(out[1], int) and out[1] == 0) or out[0] == 'noreturn':
                        continue
                    if ok:
                        ok = False
                        msg = '`%s` is accepted as an integer constant (type %s) although `%s` is not an integer-suffix of C11 6.4.4.1' % (
                            text, TYN.get(L.type_sig(it, ctx.tok.fields.get('ty', 0)), '?'), sfx)
        rep.ob('R11.2', '%s:%s:declines-%s' % (TU, fn, name), ok, msg, where=where)


# ============================================================================= R11.3 ===
SIMPLE_ESC = {'a': 7, 'b': 8, 'f': 12, 'n': 10, 'r': 13, 't': 9, 'v': 11, '\\': 92, "'": 39, '"': 34, '?': 63, 'e': 27}


_EXTRA = {}


def _escape_extra_args(u):
    """read_escaped_char(new_pos, p, ...): parameters after the first two (an element size or a limit handed down by the literal readers) get the
    LARGEST integer constant that a caller in tokenize.c passes in that position, i.e. the escape is read as inside the widest kind of literal"""
    fn = 'read_escaped_char'
    if id(u) in _EXTRA:
        return list(_EXTRA[id(u)])
    n = len(u.params(fn))
    out = []
    for i in range(2, n):
        vals = []
        for f, fd in u.functions.items():
            for c in fd.calls(fn):
                a = c.args()
                if i < len(a):
                    v = a[i].strip_all().int_value()
                    if isinstance(v, int):
                        vals.append(v)
        if not vals:
            raise AnalysisBroken('read_escaped_char has a parameter #%d for which no caller passes an integer constant' % (i + 1))
        out.append(max(vals))
    _EXTRA[id(u)] = out
    return list(out)


def _escape(P, u, text):
    """read_escaped_char on the characters after the backslash: ('ret', value, consumed) | ('error',)"""
    it = L.CInterp(P, u, {'models': L.make_models()})
    box = {}

    extra = _escape_extra_args(u)

    def mk(ctx):
        box['np'] = 0
        box['p'] = L.cstring(text)
        return [_Ref(VarPlace(box, 'np')), box['p']] + extra
    ctx, out = L.run1(it, 'read_escaped_char', mk)
    if out[0] == 'crash':
        raise AnalysisBroken('read_escaped_char: %s at %s' % out[1:])
    if out[0] != 'ret':
        return ('error',)
    np_ = box['np']
    if not isinstance(np_, _Ref):
        return ('ret', out[1], None)
    d = np_.diff(box['p'])
    return ('ret', out[1], d if isinstance(d, int) else None)


def r113(P, u, rep):
    fn = 'read_escaped_char'
    _need(u, fn)
    rep.rule('R11.3', 'escape sequences: every simple escape of C11 6.4.4.4 (+ GNU \\e) yields its code of C11 5.2.2, octal escapes read at most three octal digits, hexadecimal escapes read all hex digits; each consumes exactly its own characters', floor=38)
    where = _where(u, fn)
    for ch, code in sorted(SIMPLE_ESC.items()):
        r = _escape(P, u, ch + 'Z"')
        name = {'\\': 'backslash', "'": 'squote', '"': 'dquote', '?': 'qmark'}.get(ch, ch)
        rep.ob('R11.3', '%s:%s:simple-escape-%s' % (TU, fn, name), r == ('ret', code, 1),
               'the escape sequence \\%s evaluates to %s (C11 5.2.2: value %d, one character consumed)' % (ch, 'an error' if r[0] == 'error' else 'value %r consuming %r characters' % r[1:], code), where=where)
    octal = [('0Z', 0, 1), ('7Z', 7, 1), ('12Z', 0o12, 2), ('123Z', 0o123, 3), ('1234', 0o123, 3), ('18', 1, 1), ('128', 0o12, 2), ('377"', 255, 3), ('0007', 0, 3), ('79', 7, 1), ('101"', 65, 3)]
    for text, val, used in octal:
        r = _escape(P, u, text + '"')
        rep.ob('R11.3', '%s:%s:octal-%d-digits-then-%s' % (TU, fn, used, 'digit' if text[used:used + 1].isdigit() else 'other'), r == ('ret', val, used),
               'the octal escape \\%s evaluates to %s; C11 6.4.4.4: value %d from %d digit(s)' % (text, 'an error' if r[0] == 'error' else 'value %r from %r characters' % r[1:], val, used), where=where)
    hexes = [('x41"', 0x41, 3), ('x4a"', 0x4a, 3), ('xFf"', 0xff, 3), ('x0041"', 0x41, 5), ('x1g', 1, 2), ('xabcdef"', 0xabcdef, 7), ('x0123456"', 0x123456, 8), ('x789"', 0x789, 4), ('xABCDEF"', 0xabcdef, 7)]
    for text, val, used in hexes:
        r = _escape(P, u, text + '"')
        rep.ob('R11.3', '%s:%s:hex-%d-digits' % (TU, fn, used - 1), r == ('ret', val, used),
               'the hexadecimal escape \\%s evaluates to %s; C11 6.4.4.4: value %#x from all %d hex digits' % (text.rstrip('"'), 'an error' if r[0] == 'error' else 'value %r from %r characters' % r[1:], val, used - 1), where=where)
    r = _escape(P, u, 'xg"')
    rep.ob('R11.3', '%s:%s:hex-without-digits-diagnosed' % (TU, fn), r == ('error',),
           '\\x without a hex digit is not diagnosed (outcome %r)' % (r,), where=where)
    # C11 6.4.4.4: hexadecimal-escape-sequence: \x hex-digit | hexadecimal-escape-sequence hex-digit -- there is no longest form.  A value
    # that fits the element type can be spelled with any number of leading zeros; all digits belong to the escape.  Every digit count
    # up to 40 and samples up to the 4095 characters of C11 5.2.4.1 are run, so a limit anywhere below is seen by every group above it.
    r = _escape(P, u, 'xfffffff0"')
    rep.ob('R11.3', '%s:%s:hex-8-digits-all-bits' % (TU, fn), r[0] == 'ret' and isinstance(r[1], int) and r[1] & 0xffffffff == 0xfffffff0 and r[2] == 9,
           'the hexadecimal escape \\xfffffff0 evaluates to %s; expected the 32-bit value 0xfffffff0 from 8 digits' % ('an error' if r[0] == 'error' else 'value %r from %r characters' % r[1:]), where=where)
    for gname, counts in (('9-to-16', range(9, 17)), ('17-to-40', range(17, 41)), ('41-to-300', (41, 63, 64, 65, 100, 127, 128, 129, 255, 256, 257, 300)),
                          ('301-to-4200', (512, 513, 1025, 4200))):
        ok, msg = True, ''
        for nd in counts:
            for tail, val in ((('5a', 0x5a), ('beef', 0xbeef)) if nd <= 300 else (('beef', 0xbeef),)):
                text = 'x' + '0' * (nd - len(tail)) + tail
                r = _escape(P, u, text + 'g"')
                if r != ('ret', val, nd + 1) and ok:
                    ok = False
                    msg = 'the hexadecimal escape \\x%s (%d hex digits: %d zeros, then %s) evaluates to %s; C11 6.4.4.4 puts no limit on the number of digits: value %#x from all %d digits (the digits left over become separate characters of the literal)' % (
                        ('0' * 6 + '...' + tail) if nd > 16 else text[1:], nd, nd - len(tail), tail, 'an error' if r[0] == 'error' else 'value %r from %r characters' % r[1:], val, nd)
        rep.ob('R11.3', '%s:%s:hex-%s-digits' % (TU, fn, gname), ok, msg, where=where)
    # ... and in every kind of literal that reads escapes
    z9, z13 = '0' * 7, '0' * 9
    for name, src, base, units in (('string', '"\\x%s41"' % z9, CHAR, [0x41]), ('u8-string', 'u8"\\x%sc3z"' % z13, CHAR, [0xC3, 0x7A]),
                                   ('utf16-string', 'u"\\x%sbeefz"' % z9, USHORT, [0xBEEF, 0x7A]), ('utf32-string', 'U"\\x%s1F363z"' % z13, UINT_T, [0x1F363, 0x7A]),
                                   ('wide-string', 'L"\\x%s3042z"' % z13, INT_T, [0x3042, 0x7A])):
        good, what = check_string(P, u, src + '\n', base, units)
        rep.ob('R11.3', '%s:tokenize:hex-escape-with-leading-zeros/%s' % (TU, name), good,
               'the literal %s becomes %s; C11 6.4.4.4: all hex digits belong to the escape, so the array of %s holds %s' % (src, what, TYNAME[base], fmt_units(units + [0])), where=where)
    for name, src, ty, val in (('char', "'\\x%s0a'" % z9, INT_T, 10), ('utf16-char', "u'\\x%sbeef'" % z9, USHORT, 0xBEEF), ('utf32-char', "U'\\x%s1F363'" % z13, UINT_T, 0x1F363),
                               ('wide-char', "L'\\x%s3042'" % z13, INT_T, 0x3042)):
        lx = lex(P, u, src + '\n')
        ok, what = True, ''
        if lx.failed or lx.kinds(u) != ['TK_NUM', 'TK_EOF']:
            ok, what = False, lx.describe(u)
        else:
            t = lx.toks[0]
            sig = L.type_sig(lx.it, t.fields.get('ty', 0))
            if sig != ty or t.fields.get('val') != val:
                ok, what = False, 'a constant of type %s with value %r' % (CTYNAME.get(sig, sig), t.fields.get('val'))
        rep.ob('R11.3', '%s:tokenize:hex-escape-with-leading-zeros/%s' % (TU, name), ok,
               'the character constant %s becomes %s; C11 6.4.4.4: all hex digits belong to the escape: type %s, value %d' % (src, what, CTYNAME[ty], val), where=where)


# ============================================================================= R11.4 ===
def utf8_oracle(c):
    """RFC 3629 section 3 table (extended to 21 bits, which is what the 4-byte form can carry)"""
    if c <= 0x7F:
        return [c]
    if c <= 0x7FF:
        return [0xC0 | (c >> 6), 0x80 | (c & 0x3F)]
    if c <= 0xFFFF:
        return [0xE0 | (c >> 12), 0x80 | ((c >> 6) & 0x3F), 0x80 | (c & 0x3F)]
    return [0xF0 | (c >> 18), 0x80 | ((c >> 12) & 0x3F), 0x80 | ((c >> 6) & 0x3F), 0x80 | (c & 0x3F)]


UTF8_CLASSES = [(1, 0, 0x7F), (2, 0x80, 0x7FF), (3, 0x800, 0xFFFF), (4, 0x10000, 0x10FFFF)]


def codec_points():
    """boundary code points of every length class, every single payload bit, every class maximum with one bit cleared"""
    pts = set()
    for n, lo, hi in UTF8_CLASSES:
        for c in (lo, lo + 1, hi - 1, hi):
            pts.add(c)
        top = hi.bit_length()
        for k in range(top):
            for c in (1 << k, lo | (1 << k), hi & ~(1 << k), lo + (1 << k) - 1 if k else lo):
                if lo <= c <= hi:
                    pts.add(c)
    pts.update([0x41, 0xE9, 0x3B2, 0x20AC, 0xD7FF, 0xE000, 0xFFFD, 0x1F363, 0x10400, 0x103FF, 0xFFFFF, 0x100000])
    return sorted(pts)


def _encode(P, uu, c):
    it = L.CInterp(P, uu, {'models': L.make_models()})
    buf = L.mem(1, [0x55] * 8)
    ctx, out = L.run1(it, 'encode_utf8', lambda ctx: [L.ptr(buf), c])
    if out[0] != 'ret' or not isinstance(out[1], int):
        return None
    n = out[1]
    if not 0 <= n <= 8:
        return (n, None)
    return (n, [e & 0xff if isinstance(e, int) else None for e in buf.elems[:n]])


def _decode(P, uu, bs):
    """decode_utf8 on the byte list: ('ret', code point, consumed) | ('error',)"""
    it = L.CInterp(P, uu, {'models': L.make_models()})
    box = {'np': 0}
    src = L.ptr(L.mem(1, [L.schar(b) for b in bs] + [L.schar(0x5A), 0, 0, 0, 0]))
    ctx, out = L.run1(it, 'decode_utf8', lambda ctx: [_Ref(VarPlace(box, 'np')), src])
    if out[0] == 'crash':
        raise AnalysisBroken('decode_utf8: %s at %s' % out[1:])
    if out[0] != 'ret':
        return ('error',)
    d = box['np'].diff(src) if isinstance(box['np'], _Ref) else None
    v = out[1]
    return ('ret', v & 0xffffffff if isinstance(v, int) else v, d)


def r114(P, rep):
    uu = P.unit(UU)
    _need(uu, 'encode_utf8', 'decode_utf8')
    rep.rule('R11.4', 'UTF-8 codec equals the RFC 3629 table: length-class bounds, lead markers, payload shifts and masks of encode_utf8; lead thresholds, masks and continuation check of decode_utf8; decoder inverts encoder', floor=19)
    we, wd = _where(uu, 'encode_utf8'), _where(uu, 'decode_utf8')
    enc = {n: [True, ''] for n, _, _ in UTF8_CLASSES}
    dec = {n: [True, ''] for n, _, _ in UTF8_CLASSES}
    rt = {n: [True, ''] for n, _, _ in UTF8_CLASSES}
    npts = 0
    for c in codec_points():
        n = len(utf8_oracle(c))
        want = utf8_oracle(c)
        npts += 1
        got = _encode(P, uu, c)
        if got is None or got[0] != n or got[1] != want:
            if enc[n][0]:
                enc[n] = [False, 'U+%04X is encoded as %s; RFC 3629 requires %s' % (
                    c, 'nothing' if got is None else '%d byte(s) %s' % (got[0], ' '.join('%02X' % b if b is not None else '??' for b in (got[1] or []))),
                    ' '.join('%02X' % b for b in want))]
        r = _decode(P, uu, want)
        if r != ('ret', c, n):
            if dec[n][0]:
                dec[n] = [False, 'the UTF-8 sequence %s (U+%04X) is decoded as %s' % (
                    ' '.join('%02X' % b for b in want), c, 'an error' if r[0] == 'error' else 'U+%04X consuming %r byte(s)' % (r[1] if isinstance(r[1], int) else -1, r[2]))]
        if got is not None and got[1] and all(b is not None for b in got[1]):
            r2 = _decode(P, uu, got[1])
            if r2 != ('ret', c, got[0]) and rt[n][0]:
                rt[n] = [False, 'decode_utf8(encode_utf8(U+%04X)) = %s: a universal character name written by convert_universal_chars is read back as another character' % (
                    c, 'error' if r2[0] == 'error' else 'U+%04X (%r of %d bytes consumed)' % (r2[1] if isinstance(r2[1], int) else -1, r2[2], got[0]))]
    if npts < 100:
        raise AnalysisBroken('codec sample set collapsed')
    for n, _, _ in UTF8_CLASSES:
        rep.ob('R11.4', '%s:encode_utf8:%d-byte-class' % (UU, n), enc[n][0], enc[n][1], where=we)
        rep.ob('R11.4', '%s:decode_utf8:%d-byte-class' % (UU, n), dec[n][0], dec[n][1], where=wd)
        rep.ob('R11.4', '%s:encode_utf8+decode_utf8:roundtrip-%d-byte' % (UU, n), rt[n][0], rt[n][1], where=wd)
    # malformed input is diagnosed, not decoded
    for lead in (0x80, 0xBF):
        r = _decode(P, uu, [lead, 0x80])
        rep.ob('R11.4', '%s:decode_utf8:stray-continuation-byte-diagnosed' % UU, r == ('error',),
               'a stray continuation byte %02X at the start of a character is decoded (%r) instead of being diagnosed' % (lead, r), where=wd)
    for n, lo, hi in UTF8_CLASSES[1:]:
        good = utf8_oracle(hi)
        for pos in range(1, n):
            for badbyte in (0x41, 0xC0, 0x00, 0xFF):
                bs = list(good)
                bs[pos] = badbyte
                r = _decode(P, uu, bs)
                rep.ob('R11.4', '%s:decode_utf8:continuation-check-%d-byte-pos%d' % (UU, n, pos), r == ('error',),
                       'the malformed sequence %s (byte %d is not 10xxxxxx) is decoded as %r instead of being diagnosed' % (' '.join('%02X' % b for b in bs), pos + 1, r), where=wd)


# ==================================================================== lexing helpers ===
class Lexed:
    """outcome of interpreting tokenize()/tokenize_file() on one concrete source text"""

    def __init__(self, it, ctx, out):
        self.it, self.ctx, self.out = it, ctx, out
        self.error = out[0] == 'noreturn'        # a diagnostic (error/error_at/error_tok)
        self.crash = out[0] == 'crash'
        self.failed = out[0] != 'ret'
        self.toks = [] if self.failed else L.tokens(it, out[1])
        self.head = None if self.failed else out[1]

    def kinds(self, u):
        names = {v: k for k, v in u.enums.items() if k.startswith('TK_')}
        return [names.get(t.fields.get('kind', 0), '?') for t in self.toks]

    def texts(self):
        return [L.tok_text(t) for t in self.toks]

    def describe(self, u):
        if self.crash:
            return 'a %s inside the compiler at %s' % (self.out[1], self.out[2])
        if self.error:
            return 'diagnostic "%s"' % (self.out[2][1] if len(self.out[2]) > 1 else self.out[1],)
        return ' '.join('%s(%s)' % (k[3:], (x or b'').decode('utf-8', 'replace')) for k, x in zip(self.kinds(u), self.texts()))


def lex(P, u, text, via_file=False, cfg=None):
    data = text.encode('utf-8', 'surrogatepass') if isinstance(text, str) else text
    if via_file:
        models = L.make_models(extra={'read_file': lambda it, ctx, n, a: L.cstring(data)})
        it = L.CInterp(P, u, dict(cfg or {}, models=models))
        ctx, out = L.run1(it, 'tokenize_file', lambda ctx: ['x.c'])
    else:
        it = L.CInterp(P, u, dict(cfg or {}, models=L.make_models()))

        def mk(ctx):
            f = Obj('File', lazy=False)
            f.fields['contents'] = L.cstring(data)
            f.fields['name'] = 'x.c'
            f.fields['display_name'] = 'x.c'
            f.fields['file_no'] = 1
            return [f]
        ctx, out = L.run1(it, 'tokenize', mk)
    return Lexed(it, ctx, out)


def str_token(lx, tok, limit=4096):
    """(base type sig, [units]) of a TK_STR token, or None"""
    sig = L.type_sig(lx.it, tok.fields.get('ty', 0))
    if not sig or sig[0] != 'TY_ARRAY' or not sig[2] or not isinstance(sig[3], int) or not isinstance(sig[1], int):
        return None
    base = sig[2]
    esz = base[1]
    if not isinstance(esz, int) or esz not in (1, 2, 4) or sig[1] != esz * sig[3] or not 0 < sig[3] < limit:
        return (base, None, sig)
    raw = L.buf_bytes(tok.fields.get('str', 0), sig[1])
    if raw is None:
        return (base, None, sig)
    return (base, [int.from_bytes(bytes(raw[i:i + esz]), 'little') for i in range(0, len(raw), esz)], sig)


def utf16_oracle(c):
    """RFC 2781 section 2.1"""
    if c < 0x10000:
        return [c]
    c -= 0x10000
    return [0xD800 + (c >> 10), 0xDC00 + (c & 0x3FF)]


CHAR, USHORT, UINT_T, INT_T = ('TY_CHAR', 1, 0), ('TY_SHORT', 2, 1), ('TY_INT', 4, 1), ('TY_INT', 4, 0)
CTYNAME = {CHAR: 'char', USHORT: 'unsigned short', UINT_T: 'unsigned int', INT_T: 'int'}
TYNAME = {CHAR: 'char', USHORT: 'unsigned short (char16_t)', UINT_T: 'unsigned int (char32_t)', INT_T: 'int (wchar_t)'}


def fmt_units(us):
    return '[' + ' '.join('%X' % x if x is not None else '??' for x in us) + ']' if us is not None else 'an unreadable buffer'


def check_string(P, u, src, base, units, via_file=False, cfg=None, limit=4096):
    """lex src; it must be exactly one string literal token of element type `base` holding `units` + 0.
    returns (ok, description of what happened)"""
    lx = lex(P, u, src, via_file, cfg)
    if lx.failed:
        return False, lx.describe(u)
    if lx.kinds(u) != ['TK_STR', 'TK_EOF']:
        return False, 'the token sequence ' + lx.describe(u)
    st = str_token(lx, lx.toks[0], limit)
    if st is None:
        return False, 'a string token without an array type'
    want = list(units) + [0]
    if st[0] != base:
        return False, 'an array of %s' % (TYNAME.get(st[0], st[0]),)
    if st[1] != want:
        return False, '%d element(s) %s' % (st[2][3], fmt_units(st[1]) if st[1] is None or len(st[1]) <= 24 else fmt_units(st[1][:12])[:-1] + ' ...]')
    return True, ''


# ============================================================================= R11.5 ===
def r115(P, u, rep):
    fn = 'read_utf16_string_literal'
    _need(u, fn, 'tokenize')
    rep.rule('R11.5', 'u"..." literals are UTF-16: code points below 0x10000 are one unit, all others the surrogate pair 0xD800+(c-0x10000>>10), 0xDC00+(c-0x10000&0x3FF); escapes are one unit', floor=5)
    where = _where(u, fn)
    groups = [('bmp-one-unit', [0x41, 0xE9, 0x7FF, 0x800, 0xD7FF, 0xE000, 0xFFFD]),
              ('supplementary-threshold', [0xFFFF, 0x10000, 0x10001]),
              ('surrogate-high-bits', [0x10000 + (1 << k) for k in range(10, 20)] + [0x10FFFF & ~(1 << k) for k in range(10, 20)] + [0x10FFFF, 0x1F363]),
              ('surrogate-low-bits', [0x10000 + (1 << k) for k in range(0, 10)] + [0x103FF, 0x10400, 0x10FC00])]
    for name, pts in groups:
        ok, msg = True, ''
        for c in pts:
            src = 'u"' + chr(c) + 'z"\n'
            good, what = check_string(P, u, src, USHORT, utf16_oracle(c) + [0x7A])
            if not good and ok:
                ok = False
                msg = 'u"\\U%08X z" becomes %s; UTF-16 (RFC 2781) requires unsigned short units %s' % (c, what, fmt_units(utf16_oracle(c) + [0x7A, 0]))
        rep.ob('R11.5', '%s:%s:%s' % (TU, fn, name), ok, msg, where=where)
    ok, msg = True, ''
    for src, units in (('u"\\x41\\n"\n', [0x41, 10]), ('u"\\xd800"\n', [0xD800]), ('u"a\\0b"\n', [0x61, 0, 0x62]), ('u""\n', [])):
        good, what = check_string(P, u, src, USHORT, units)
        if not good and ok:
            ok = False
            msg = '%s becomes %s; expected units %s' % (src.strip(), what, fmt_units(units + [0]))
    rep.ob('R11.5', '%s:%s:escapes-are-single-units' % (TU, fn), ok, msg, where=where)


# ============================================================================= R11.6 ===
def r116(P, u, rep):
    fn = 'tokenize'
    _need(u, fn)
    rep.rule('R11.6', 'literal prefixes: "" and u8"" are char arrays of the UTF-8 bytes, u"" UTF-16 unsigned short, U"" unsigned int, L"" int; \'\' is int narrowed through char, u\'\' 16-bit unsigned short, U\'\' unsigned int, L\'\' int; a prefix directly followed by a quote is never scanned as an identifier', floor=25)
    where = _where(u, fn)
    sushi = 0x1F363
    strs = [('none', '"a\u00e9"', CHAR, [0x61, 0xC3, 0xA9]), ('u8', 'u8"a\u00e9"', CHAR, [0x61, 0xC3, 0xA9]),
            ('u', 'u"a\u00e9"', USHORT, [0x61, 0xE9]), ('U', 'U"a\U0001F363"', UINT_T, [0x61, sushi]), ('L', 'L"a\U0001F363"', INT_T, [0x61, sushi]),
            ('none-escapes', '"\\x80\\377\\n"', CHAR, [0x80, 0xFF, 10]), ('U-escape', 'U"\\x1F363"', UINT_T, [sushi]), ('L-escape', 'L"\\n"', INT_T, [10]),
            ('none-4-byte', '"\U0001F363"', CHAR, [0xF0, 0x9F, 0x8D, 0xA3]), ('none-escaped-quote', '"a\\"b\\\\"', CHAR, [0x61, 0x22, 0x62, 0x5C]),
            ('u-escaped-quote', 'u"\\"\\\\"', USHORT, [0x22, 0x5C])]
    for name, src, base, units in strs:
        good, what = check_string(P, u, src + '\n', base, units)
        rep.ob('R11.6', '%s:%s:string-prefix-%s' % (TU, fn, name), good,
               'the literal %s becomes %s; C11 6.4.5p6 requires an array of %s holding %s' % (src, what, TYNAME[base], fmt_units(units + [0])), where=where)
    chars = [('none', "'a'", INT_T, 97), ('none-high-bit', "'\\xff'", INT_T, -1), ('none-octal-200', "'\\200'", INT_T, -128), ('none-escape', "'\\n'", INT_T, 10),
             ('u', "u'\u00e9'", USHORT, 0xE9), ('u-bmp', "u'\u3042'", USHORT, 0x3042), ('u-escape', "u'\\xffff'", USHORT, 0xFFFF),
             ('U', "U'\U0001F363'", UINT_T, sushi), ('U-escape', "U'\\xff'", UINT_T, 255),
             ('L', "L'\U0001F363'", INT_T, sushi), ('L-escape', "L'\\xff'", INT_T, 255), ('L-ascii', "L'a'", INT_T, 97),
             # the value of a constant is a value of its type (C11 6.4.4.4p9-p11): escapes with the top bit of the type set
             ('u-escape-high-bit', "u'\\xfff0'", USHORT, 0xFFF0), ('U-escape-high-bit', "U'\\xfffffff0'", UINT_T, 0xFFFFFFF0),
             ('L-escape-high-bit', "L'\\xfffffff0'", INT_T, -16), ('U-octal', "U'\\377'", UINT_T, 255), ('u-octal', "u'\\377'", USHORT, 255)]
    for name, src, ty, val in chars:
        lx = lex(P, u, src + '\n')
        ok, what = True, ''
        if lx.failed or lx.kinds(u) != ['TK_NUM', 'TK_EOF']:
            ok, what = False, lx.describe(u)
        else:
            t = lx.toks[0]
            sig = L.type_sig(lx.it, t.fields.get('ty', 0))
            v = t.fields.get('val')
            if sig != ty or v != val or L.tok_text(t) != src.encode('utf-8'):
                ok, what = False, 'a constant of type %s with value %r spelled %r' % (CTYNAME.get(sig, sig), v, L.tok_text(t))
                if sig == ty and isinstance(v, int) and sig[2] and v < 0:
                    what += ' (a negative value in a token of unsigned type: the constant folder compares and converts the 64-bit Token.val, so `%s == %d` folds to 0 while the generated code yields 1)' % (src, val)
        rep.ob('R11.6', '%s:%s:char-prefix-%s' % (TU, fn, name), ok,
               'the character constant %s becomes %s; C11 6.4.4.4 requires type %s, value %d' % (src, what, CTYNAME[ty], val), where=where)
    # prefixes that are not followed by a quote stay identifiers
    for src, want in (('u8 u U L u8x\n', ['TK_IDENT'] * 5 + ['TK_EOF']), ('ua"b"\n', ['TK_IDENT', 'TK_STR', 'TK_EOF']), ('LL\'c\'\n', ['TK_IDENT', 'TK_NUM', 'TK_EOF'])):
        lx = lex(P, u, src)
        rep.ob('R11.6', '%s:%s:prefix-letters-alone-are-identifiers' % (TU, fn), (not lx.failed) and lx.kinds(u) == want,
               '`%s` is tokenized as %s' % (src.strip(), lx.describe(u)), where=where)
    for src in ('"abc\n', "'a\n", 'u"abc\n', '"abc\\"\n'):
        lx = lex(P, u, src)
        rep.ob('R11.6', '%s:%s:unclosed-literal-diagnosed' % (TU, fn), lx.error,
               'the unclosed literal `%s` is tokenized as %s instead of being diagnosed' % (src.strip(), lx.describe(u)), where=where)


# ============================================================================= R11.7 ===
def r117(P, u, rep):
    fn = 'tokenize_file'
    _need(u, fn, 'tokenize')
    rep.rule('R11.7', 'source normalisation happens in the order of C11 5.1.1.2: BOM skipped, CR/CRLF made LF, then backslash-newline spliced, then universal character names replaced, then tokens formed', floor=14)
    where = _where(u, fn)
    BOM = b'\xef\xbb\xbf'
    cases = [
        ('bom-skipped', BOM + b'"ab"\n', CHAR, [0x61, 0x62], 'a leading UTF-8 byte order mark is not part of the program'),
        ('bom-only-at-start', b'"' + BOM + b'"\n', CHAR, [0xEF, 0xBB, 0xBF], 'EF BB BF inside the file is ordinary text'),
        ('crlf-then-splice', b'"ab\\\r\ncd"\r\n', CHAR, [0x61, 0x62, 0x63, 0x64], 'a backslash before a CR LF line end splices the lines (newlines are canonicalised before splicing)'),
        ('cr-then-splice', b'"ab\\\rcd"\r', CHAR, [0x61, 0x62, 0x63, 0x64], 'a backslash before a lone CR line end splices the lines'),
        ('lf-splice', b'"ab\\\ncd"\n', CHAR, [0x61, 0x62, 0x63, 0x64], 'backslash-newline is deleted'),
        ('splice-then-ucn', b'"\\\\\nu00e9"\n', CHAR, [0xC3, 0xA9], 'a universal character name completed by line splicing is recognised (splicing precedes tokenization)'),
        ('crlf-splice-then-ucn', b'u"\\\\\r\nU0001F363"\r\n', USHORT, [0xD83C, 0xDF63], 'CR LF, splice and universal character name compose'),
        ('ucn-then-tokens', b'"\\u00e9\\U0001F363"\n', CHAR, [0xC3, 0xA9, 0xF0, 0x9F, 0x8D, 0xA3], '\\u and \\U names are replaced by the UTF-8 form of the named character before literals are read'),
        ('ucn-in-utf16', b'u"\\U00010000\\uFFFD"\n', USHORT, [0xD800, 0xDC00, 0xFFFD], 'universal character names reach the UTF-16 reader as characters'),
        ('escaped-backslash-before-u', b'"\\\\u0041"\n', CHAR, [0x5C, 0x75, 0x30, 0x30, 0x34, 0x31], 'an escaped backslash followed by u is not a universal character name'),
        ('cr-ends-line-comment', b'// x\r"a"\r\n', CHAR, [0x61], 'a lone CR is a line end: it terminates a // comment'),
        ('crlf-ends-line-comment', b'// x\r\n"a"\r\n', CHAR, [0x61], 'CR LF is a line end: it terminates a // comment'),
        ('crlf-inside-file', b'"a"\r\n\r\n', CHAR, [0x61], 'CR LF line ends do not leave CR characters'),
    ]
    for name, data, base, units, why in cases:
        good, what = check_string(P, u, data, base, units, via_file=True)
        rep.ob('R11.7', '%s:%s:%s' % (TU, fn, name), good,
               'the source text %r is read as %s; expected one literal with elements %s: %s' % (data, what, fmt_units(units + [0]), why), where=where)
    lx = lex(P, u, BOM + b'in\\\r\nt \\u00e9x\r', via_file=True)
    rep.ob('R11.7', '%s:%s:identifiers-after-normalisation' % (TU, fn),
           (not lx.failed) and lx.kinds(u) == ['TK_IDENT', 'TK_IDENT', 'TK_EOF'] and lx.texts()[:2] == [b'int', b'\xc3\xa9x'],
           'BOM + `in\\<CR LF>t \\u00e9x<CR>` is tokenized as %s; expected the identifiers `int` and `\u00e9x`' % lx.describe(u), where=where)


# ============================================================================= R11.8 ===
def join(P, u, pu, text):
    """tokenize text, then run join_adjacent_string_literals on the token list.
    returns (lexed, ctx, outcome)"""
    lx = lex(P, u, text)
    if lx.failed:
        raise AnalysisBroken('tokenize rejects the concatenation sample %r (%s)' % (text, lx.describe(u)))
    it2 = L.CInterp(P, pu, {'models': L.make_models()})
    ctx2, out2 = L.run1(it2, 'join_adjacent_string_literals', lambda ctx: [lx.head])
    lx2 = Lexed(it2, ctx2, ('ret', lx.head) if out2[0] == 'ret' else out2)
    return lx2, ctx2, out2


def r118(P, u, rep):
    pu = P.unit(PU)
    fn = 'join_adjacent_string_literals'
    _need(pu, fn)
    _need(u, 'tokenize')
    rep.rule('R11.8', 'adjacent string literals: narrow literals next to a prefixed one are re-read in its encoding, the joined array has sum(len-1)+1 elements of the common element type, runs are joined separately, and u8 next to u/U/L is diagnosed (C11 6.4.5p2, p5)', floor=24)
    where = _where(pu, fn)
    sushi = 0x1F363
    cases = [
        ('narrow+narrow', '"ab" "cd"', CHAR, [97, 98, 99, 100]),
        ('narrow-x3', '"a" "" "bc" "d"', CHAR, [97, 98, 99, 100]),
        ('narrow+u16', '"a\u00e9" u"b"', USHORT, [97, 0xE9, 98]),
        ('u16+narrow', 'u"b" "a\U0001F363"', USHORT, [98, 97, 0xD83C, 0xDF63]),
        ('narrow+u16+narrow', '"a" u"b" "\u00e9"', USHORT, [97, 98, 0xE9]),
        ('narrow+u32', '"a\U0001F363" U"b"', UINT_T, [97, sushi, 98]),
        ('u32+narrow', 'U"b" "\u00e9" "c"', UINT_T, [98, 0xE9, 99]),
        ('narrow+wide', '"\\n\u00e9" L"b"', INT_T, [10, 0xE9, 98]),
        ('wide+narrow', 'L"b" "a"', INT_T, [98, 97]),
        ('u16+u16', 'u"a" u"\U0001F363"', USHORT, [97, 0xD83C, 0xDF63]),
        ('u32+u32', 'U"a" U"b"', UINT_T, [97, 98]),
        ('wide+wide', 'L"a" L"b"', INT_T, [97, 98]),
        ('u8+narrow', 'u8"a\u00e9" "b"', CHAR, [97, 0xC3, 0xA9, 98]),
        ('narrow+u8', '"b" u8"a"', CHAR, [98, 97]),
        ('u8+u8', 'u8"a" u8"b"', CHAR, [97, 98]),
        ('embedded-nul', '"a\\0" "b"', CHAR, [97, 0, 98]),
    ]
    for name, src, base, units in cases:
        lx, ctx, out = join(P, u, pu, src + ' ;\n')
        ok, what = True, ''
        if out[0] != 'ret':
            ok, what = False, 'is rejected with ' + lx.describe(u)
        elif lx.kinds(u) != ['TK_STR', 'TK_PUNCT', 'TK_EOF']:
            ok, what = False, 'becomes the token sequence ' + lx.describe(u)
        else:
            st = str_token(lx, lx.toks[0])
            bad = [e for e in ctx.events if e[0] in ('overflow', 'overread')]
            if st is None or st[0] != base or st[1] != units + [0]:
                ok, what = False, ('is joined into an array of %s with %s element(s) %s' % (TYNAME.get(st[0], st[0]), st[2][3], fmt_units(st[1]))) if st else 'becomes a token without array type'
            elif bad:
                ok, what = False, 'gets the right elements, but the copy runs %d byte(s) past a buffer' % bad[0][1]
        rep.ob('R11.8', '%s:%s:%s' % (PU, fn, name), ok,
               '%s %s; C11 6.4.5p5 requires one array of %s with elements %s' % (src, what, TYNAME[base], fmt_units(units + [0])), where=where)
    # two runs separated by another token are joined separately, single literals untouched
    lx, ctx, out = join(P, u, pu, '"a" "b" , u"c" "d" , "e" ;\n')
    ok = out[0] == 'ret' and lx.kinds(u) == ['TK_STR', 'TK_PUNCT', 'TK_STR', 'TK_PUNCT', 'TK_STR', 'TK_PUNCT', 'TK_EOF']
    if ok:
        sts = [str_token(lx, lx.toks[i]) for i in (0, 2, 4)]
        ok = all(sts) and [(x[0], x[1]) for x in sts] == [(CHAR, [97, 98, 0]), (USHORT, [99, 100, 0]), (CHAR, [101, 0])]
    rep.ob('R11.8', '%s:%s:separate-runs' % (PU, fn), ok,
           '`"a" "b" , u"c" "d" , "e" ;` becomes %s; expected "ab" , u"cd" , "e" ;' % lx.describe(u), where=where)
    # C11 6.4.5p2: a UTF-8 literal next to a wide (L, u, U) literal is a constraint violation
    for name, src in (('u8+u16', 'u8"a" u"b"'), ('u16+u8', 'u"b" u8"a"'), ('u8+u32', 'u8"a" U"b"'), ('u32+u8', 'U"b" u8"a"'),
                      ('u8+wide', 'u8"a" L"b"'), ('wide+u8', 'L"b" u8"a"'), ('narrow+u8+u16', '"x" u8"a" u"b"')):
        lx, ctx, out = join(P, u, pu, src + ' ;\n')
        what = ''
        if out[0] == 'ret':
            st = str_token(lx, lx.toks[0]) if lx.toks else None
            bad = [e for e in ctx.events if e[0] in ('overflow', 'overread')]
            what = 'accepted as an array of %s with elements %s%s' % (TYNAME.get(st[0], st[0]) if st else '?', fmt_units(st[1]) if st else '?',
                                                                     (', writing %d byte(s) past the end of the allocated buffer' % bad[0][1]) if bad else '')
        rep.ob('R11.8', '%s:%s:%s-diagnosed' % (PU, fn, name), out[0] == 'noreturn',
               '%s is %s; C11 6.4.5p2 forbids a UTF-8 string literal next to a wide string literal, so a diagnostic is required' % (src, what), where=where)


# ============================================================================= R11.9 ===
def ppnumber_len(s):
    """length of the pp-number at the start of s, C11 6.4.8 (without identifier-nondigits other than letters)"""
    i = 0
    if s[i:i + 1] == '.':
        i += 1
    if not s[i:i + 1].isdigit():
        return 0
    i += 1
    while i < len(s):
        if s[i] in 'eEpP' and s[i + 1:i + 2] in ('+', '-'):
            i += 2
        elif s[i].isalnum() or s[i] == '.':
            i += 1
        else:
            break
    return i


def r119(P, u, rep):
    fn = 'tokenize'
    rep.rule('R11.9', 'the pp-number scanner follows C11 6.4.8: digits, letters and periods continue the number, a sign only directly after e E p P', floor=12)
    where = _where(u, fn)
    groups = [
        ('sign-after-e', ['1e+5', '1e-5', '1.5e+3;', '0e-0', '1e+']), ('sign-after-E', ['1E+5', '1E-5', '2.E-1']),
        ('sign-after-p', ['0x1p+3', '0x1p-3', '0x.8p-1']), ('sign-after-P', ['0X1P+3', '0x1P-3']),
        ('sign-after-other-letter', ['1x+5', '1a-5', '0x1f+1', '0xd-1', '1u+1', '1L-1', '0b1+1', '1f+1']),
        ('sign-after-digit-or-period', ['1+5', '1-5', '1.+5', '1.5-2', '12+e', '0-p']),
        ('hex-e-absorbs-sign', ['0xe+1', '0xE-1']),
        ('leading-period', ['.5', '.5e-1', '.5+1', '.5.5']),
        ('period-without-digit-is-punctuator', ['.e+5', '.x']),
        ('letters-and-periods', ['1..2', '1.2.3', '0x1.8p1', '1abc', '123abc.def', '1e5e+5']),
        ('exponent-without-sign', ['1e5+5', '1p5-5']),
        ('stops-at-other-characters', ['1,2', '1;', '1)', '1 2', '1*e+5']),
    ]
    for name, samples in groups:
        ok, msg = True, ''
        for smp in samples:
            n = ppnumber_len(smp)
            lx = lex(P, u, smp + '\n')
            first = None if lx.failed or not lx.toks else lx.toks[0]
            got = None
            if first is not None:
                got = (lx.kinds(u)[0], L.tok_text(first))
            want = ('TK_PP_NUM', smp[:n].encode()) if n else None
            good = (got == want) if n else (got is not None and got[0] != 'TK_PP_NUM')
            if not good and ok:
                ok = False
                msg = '`%s` is tokenized as %s; C11 6.4.8 makes the first preprocessing token %s' % (smp, lx.describe(u), ('the pp-number `%s`' % smp[:n]) if n else 'a punctuator')
        rep.ob('R11.9', '%s:%s:pp-number-%s' % (TU, fn, name), ok, msg, where=where)


# ============================================================================ R11.23 ===
_EXP_LETTERS = 'eEpP'
_PP_CONT = ''.join(chr(c) for c in range(33, 127) if chr(c).isalnum()) + '._'
_PP_STOP = '!%&()*,/:;<=>?[]^{|}~ '        # punctuators (and the space) that are tokens of their own right after a pp-number


def r1123(P, u, rep):
    """C11 6.4.8 over the whole alphabet instead of samples: after `1`, every character c that continues a pp-number (digit, letter,
    underscore, period) is followed by each sign; the sign belongs to the pp-number iff c is one of e E p P.  After each of the four
    exponent letters every punctuator other than the signs must end the pp-number."""
    fn = 'tokenize'
    rep.rule('R11.23', 'pp-number scanner, all characters: a sign continues the pp-number after each of e E p P and after no other digit, letter, underscore or period; no other punctuator continues it', floor=13)
    where = _where(u, fn)

    def first(text):
        lx = lex(P, u, text + '\n')
        if lx.failed or not lx.toks:
            return None, lx
        return (lx.kinds(u)[0], L.tok_text(lx.toks[0])), lx

    classes = [('exponent-letter-%s' % c, c) for c in _EXP_LETTERS] + [
        ('other-lower-case-letters', ''.join(c for c in _PP_CONT if c.islower() and c not in _EXP_LETTERS)),
        ('other-upper-case-letters', ''.join(c for c in _PP_CONT if c.isupper() and c not in _EXP_LETTERS)),
        ('digits', ''.join(c for c in _PP_CONT if c.isdigit())), ('period', '.'), ('underscore', '_')]
    for name, chars in classes:
        ok, msg = True, ''
        for c in chars:
            for sg in '+-':
                text = '1' + c + sg + '1'
                want = text if c in _EXP_LETTERS else text[:2]
                got, lx = first(text)
                if got != ('TK_PP_NUM', want.encode()) and ok:
                    ok = False
                    msg = '`%s` is tokenized as %s; C11 6.4.8 makes the first preprocessing token the pp-number `%s` (%s)' % (
                        text, lx.describe(u), want, 'e E p P are followed by an optional sign' if c in _EXP_LETTERS else 'a sign continues a pp-number only after e E p P')
        rep.ob('R11.23', '%s:%s:sign-after-%s' % (TU, fn, name), ok, msg, where=where)
    for c in _EXP_LETTERS:
        ok, msg = True, ''
        for d in _PP_STOP:
            text = '1' + c + d + '1'
            got, lx = first(text)
            if got != ('TK_PP_NUM', text[:2].encode()) and ok:
                ok = False
                msg = '`%s` is tokenized as %s; C11 6.4.8 makes the first preprocessing token the pp-number `%s` (only + and - continue it after an exponent letter)' % (text, lx.describe(u), text[:2])
        rep.ob('R11.23', '%s:%s:only-signs-after-exponent-letter-%s' % (TU, fn, c), ok, msg, where=where)


# ============================================================================ R11.10 ===
_FLOAT_RE = _re.compile(r'^((([0-9]*\.[0-9]+|[0-9]+\.)([eE][+-]?[0-9]+)?|[0-9]+[eE][+-]?[0-9]+)|0[xX]([0-9a-fA-F]*\.[0-9a-fA-F]+|[0-9a-fA-F]+\.?)[pP][+-]?[0-9]+)([fFlL]?)$')
DOUBLE, FLOAT, LDOUBLE = ('TY_DOUBLE', 8, 0), ('TY_FLOAT', 4, 0), ('TY_LDOUBLE', 16, 0)


def float_oracle(text):
    """C11 6.4.4.2 floating-constant: type signature, or None if text is not one"""
    m = _FLOAT_RE.match(text)
    if not m:
        return None
    sfx = m.group(6)
    return FLOAT if sfx in ('f', 'F') else (LDOUBLE if sfx in ('l', 'L') else DOUBLE)


_FRANK = {'float': 1, 'double': 2, 'long double': 3}
_STRTO = {'strtof': 1, 'strtod': 2, 'strtold': 3}


def _precision_chain(u, fn, expr, seen, problems, depth=0):
    """walk the definitions that feed `expr` inside function node fn; collect problems
    ('narrow', type, line): a conversion to a narrower floating type / through an integer type
    ('callee', name, line) / ('unknown', what, line)"""
    e = expr
    while True:
        if e.kind in ('ParenExpr', 'ConstantExpr') and e.inner:
            e = e.inner[0]
            continue
        if e.kind in ('ImplicitCastExpr', 'CStyleCastExpr') and e.inner:
            ck = e.cast_kind
            if ck in ('IntegralToFloating', 'FloatingToIntegral', 'IntegralCast'):
                problems.append(('narrow', (e.dtype or e.type) if ck == 'FloatingToIntegral' else (e.inner[0].dtype or e.inner[0].type), e.line))
                return
            if ck == 'FloatingCast':
                src, dst = e.inner[0].dtype or e.inner[0].type, e.dtype or e.type
                if src not in _FRANK or dst not in _FRANK:
                    problems.append(('unknown', 'conversion %s -> %s' % (src, dst), e.line))
                    return
                if _FRANK[dst] < _FRANK[src]:
                    problems.append(('narrow', dst, e.line))
                    return
            e = e.inner[0]
            continue
        break
    if depth > 8:
        problems.append(('unknown', 'definition chain too deep', e.line))
        return
    if e.kind in ('FloatingLiteral', 'IntegerLiteral'):
        return
    if e.kind == 'CallExpr':
        c = e.callee()
        if c in _STRTO:
            seen.add(c)
            return
        problems.append(('callee', c or 'an indirect call', e.line))
        return
    if e.kind == 'ConditionalOperator':
        _precision_chain(u, fn, e.inner[1], seen, problems, depth + 1)
        _precision_chain(u, fn, e.inner[2], seen, problems, depth + 1)
        return
    if e.kind == 'DeclRefExpr' and e.ref_kind in ('VarDecl', 'ParmVarDecl'):
        vid = e.ref_id
        decl = None
        defs = []
        for n in fn.walk():
            if n.kind == 'VarDecl' and n.id == vid:
                decl = n
                if 'init' in n.d:
                    defs.append([c for c in n.inner if not c.kind.endswith('Attr')][-1])
            elif n.kind == 'BinaryOperator' and n.opcode == '=' and n.inner[0].strip().kind == 'DeclRefExpr' and n.inner[0].strip().ref_id == vid:
                defs.append(n.inner[1])
            elif n.kind == 'CompoundAssignOperator' and n.inner[0].strip().kind == 'DeclRefExpr' and n.inner[0].strip().ref_id == vid:
                problems.append(('unknown', 'compound assignment to %s' % e.ref_name, n.line))
            elif n.kind == 'UnaryOperator' and n.opcode == '&' and n.inner[0].strip().kind == 'DeclRefExpr' and n.inner[0].strip().ref_id == vid:
                problems.append(('unknown', 'address of %s taken' % e.ref_name, n.line))
        if decl is None:
            problems.append(('unknown', 'variable %s is not a local of %s' % (e.ref_name, fn.name), e.line))
            return
        if not defs:
            problems.append(('unknown', 'no definition of %s' % e.ref_name, decl.line))
        for d in defs:
            _precision_chain(u, fn, d, seen, problems, depth + 1)
        return
    problems.append(('unknown', 'expression %s' % e.src()[:60], e.line))


def fval_origin(fv):
    """a Token.fval / Node.fval value of the interpreter -> (the strto* result symbol or None, [floating types it was converted through], None | what is wrong)"""
    through = []
    cur = fv
    while isinstance(cur, Term) and cur.op.startswith('cast:') and len(cur.args) == 1:
        t = cur.op[5:].replace('const ', '').strip()
        if t not in _FRANK:
            return None, through, 'converted through the non-floating type %s' % t
        through.append(t)
        cur = cur.args[0]
    if isinstance(cur, Sym):
        return cur, through, None
    return None, through, 'the value %r is not the result of a conversion function' % (cur,)


def fval_sig(fv):
    """comparable rendering of a floating token value"""
    return fv.name if isinstance(fv, Sym) else (repr(fv) if isinstance(fv, Term) else fv)


def r1110(P, u, rep):
    fn = 'convert_pp_number'
    _need(u, fn, 'convert_pp_int')
    rep.rule('R11.10', 'floating constants: suffix f/F, l/L, none select float, long double, double; the value is converted from the spelling ONCE, directly to the constant\'s type '
             '(strtof / strtod / strtold on the whole constant; a float or double obtained by narrowing a long double result is rounded twice), and reaches Token.fval without a narrowing conversion; '
             'a pp-number that is neither an integer nor a floating constant of C11 6.4.4.2 is diagnosed', floor=16)
    where = _where(u, fn)
    # (a) typed data-flow check on the AST
    tokrec = u.records.get('Token') or []
    ft = [t for (n, t, _) in tokrec if n == 'fval']
    if not ft:
        rep.undecided('R11.10', '%s:Token:fval' % TU, 'struct Token has no member fval any more', where=where)
    else:
        rep.ob('R11.10', '%s:Token:fval-is-long-double' % TU, ft[0] == 'long double',
               'Token.fval has type %s: long double constants lose precision before code generation' % ft[0], where=where)
    stores = []
    for fname, fd in u.functions.items():
        for n in fd.walk():
            if n.kind in ('BinaryOperator', 'CompoundAssignOperator') and n.opcode.endswith('=') and n.opcode not in ('==', '!=', '<=', '>=') \
                    and n.inner[0].strip().kind == 'MemberExpr' and n.inner[0].strip().name == 'fval':
                stores.append((fname, fd, n))
    if not stores:
        rep.undecided('R11.10', '%s:%s:fval-store' % (TU, fn), 'no store to Token.fval found in tokenize.c', where=where)
    for fname, fd, n in stores:
        seen, problems = set(), []
        if n.kind == 'CompoundAssignOperator':
            problems.append(('unknown', 'compound assignment to fval', n.line))
        else:
            _precision_chain(u, fd, n.inner[1], seen, problems)
        w = '%s:%d' % (TU, n.line)
        unknown = [p for p in problems if p[0] == 'unknown']
        if unknown:
            rep.undecided('R11.10', '%s:%s:fval-precision' % (TU, fname), 'cannot follow the value stored into Token.fval: %s (line %d)' % (unknown[0][1], unknown[0][2]), where=w)
            continue
        narrow = [p for p in problems if p[0] == 'narrow']
        callee = [p for p in problems if p[0] == 'callee']
        rep.ob('R11.10', '%s:%s:fval-not-narrowed-after-conversion' % (TU, fname), not narrow,
               'the value stored into Token.fval is converted to the narrower type %s on its way (line %d): a constant of a wider type (1.1L, or 0.1 when that type is float) is rounded to that type first' % (narrow[0][1:] if narrow else ('', 0)), where=w)
        rep.ob('R11.10', '%s:%s:fval-produced-by-strtof-strtod-strtold' % (TU, fname), not callee and (bool(seen) or bool(narrow)),
               'the value stored into Token.fval is produced by %s (line %d), not by strtof / strtod / strtold' % (callee[0][1:] if callee else ('no call', n.line)), where=w)
    # (b) suffix table and syntax by interpretation
    tk_num = u.enums.get('TK_NUM')
    made = []

    def on_float(it, ctx, fname, text):
        sy = Sym('%s("%s")' % (fname, text), {'strtof': 'float', 'strtod': 'double'}.get(fname, 'long double'))
        made.append((sy, fname, text))
        return sy
    models = L.make_models(on_float=on_float)

    def conv(text):
        it = L.CInterp(P, u, {'models': models})
        box = {}
        del made[:]

        def mk(ctx):
            t = Obj('Token', lazy=False, label='tok')
            t.fields['loc'] = L.cstring(text + ' ;')
            t.fields['len'] = len(text)
            t.fields['kind'] = u.enums.get('TK_PP_NUM', 0)
            f = Obj('File', lazy=False)
            f.fields['name'] = 'x.c'
            f.fields['contents'] = t.fields['loc']
            t.fields['file'] = f
            box['t'] = t
            return [t]
        ctx, out = L.run1(it, fn, mk)
        return it, ctx, out, box['t']
    valid = [('none', ['1.0', '1.', '.5', '1e5', '1E+5', '1.5e-3', '0x1p3', '0x1.8p+1', '0X.8P-1', '08.5', '09e1', '0.0', '1.00000000000000011102230246251565404236316680908203126', '0x1.00000000000008000004p0']),
             ('f', ['1.0f', '1.F', '.5f', '1e5F', '0x1p3f', '1e-2f', '1.00000005960464477539062500001f', '0x1.000001000000000004p0F']),
             ('l', ['1.0l', '1.L', '.5L', '1e5l', '0x1p3L', '1.1L'])]
    TNAME = {DOUBLE: 'double', FLOAT: 'float', LDOUBLE: 'long double'}
    OWN = {FLOAT: 'strtof', DOUBLE: 'strtod', LDOUBLE: 'strtold'}
    for sclass, samples in valid:
        ok, msg = True, ''
        okv, msgv, vkey = True, '', 'converted-once-to-own-type'
        for text in samples:
            want = float_oracle(text)
            it, ctx, out, t = conv(text)
            if out[0] != 'ret':
                if ok:
                    ok, msg = False, 'the floating constant %s is rejected' % text
                continue
            got = L.type_sig(it, t.fields.get('ty', 0))
            if (got != want or t.fields.get('kind') != tk_num) and ok:
                ok, msg = False, 'the floating constant %s gets type %r (token kind %r); C11 6.4.4.2p4 requires %s' % (text, got, t.fields.get('kind'), TNAME[want])
            if not okv or got != want:
                continue
            body = text[:-1] if text[-1] in 'fFlL' else text
            sy, through, bad = fval_origin(t.fields.get('fval'))
            src = [m for m in made if m[0] is sy]
            shown = ', '.join('%s("%s")' % m[1:] for m in made) or 'no conversion'
            if bad or not src:
                okv, msgv, vkey = False, 'the value of %s is stored as %r (conversions performed: %s): %s' % (text, t.fields.get('fval'), shown, bad or 'not the result of strtof / strtod / strtold'), 'value-is-a-conversion-of-the-spelling'
            elif src[0][2] != body:
                okv, msgv, vkey = False, 'the value of %s is the result of %s("%s"): not a conversion of the whole constant `%s`' % (text, src[0][1], src[0][2], body), 'whole-spelling-converted'
            elif [x for x in through if _FRANK[x] < _FRANK[TNAME[want]]]:
                nt = [x for x in through if _FRANK[x] < _FRANK[TNAME[want]]][0]
                okv, msgv, vkey = False, 'the value of the %s constant %s is converted to %s before it is stored: it loses the precision of its type' % (TNAME[want], text, nt), 'not-narrowed-below-own-type'
            elif src[0][1] != OWN[want]:
                wider = _STRTO[src[0][1]] > _STRTO[OWN[want]]
                okv, vkey = False, 'converted-once-to-own-type'
                msgv = 'the value of the %s constant %s is the result of %s("%s"), a conversion to %s; ' % (TNAME[want], text, src[0][1], src[0][2], {1: 'float', 2: 'double', 3: 'long double'}[_STRTO[src[0][1]]]) + \
                    ('the narrowing to %s happens later (eval_double / code generation) and is a second rounding: a spelling that lies just above the midpoint of two adjacent %s values, closer to it than the long double '
                     'precision resolves, is first rounded onto the midpoint and then to even -- `double d = 1.00000000000000011102230246251565404236316680908203126;` holds 0x3ff0000000000000, correctly rounded '
                     '(gcc, strtod) 0x3ff0000000000001; `1.00000005960464477539062500001f` holds 0x3f800000 instead of 0x3f800001. The constant must be converted by %s' % (TNAME[want], TNAME[want], OWN[want])
                     if wider else 'the constant has fewer significant digits than its type (%s required)' % OWN[want])
        rep.ob('R11.10', '%s:%s:suffix-%s-type' % (TU, fn, sclass), ok, msg, where=where)
        rep.ob('R11.10', '%s:%s:suffix-%s-value/%s' % (TU, fn, sclass, vkey), okv, msgv, where=where)
    invalid = [('bad-suffix', ['1.0x', '1.0ff', '1.0fl', '1.0lf', '1.0u', '1e5ll', '1.0LL', '1.0d']),
               ('exponent-without-digits', ['1e', '1e+', '1.0e-', '0x1p', '0x1p+']),
               ('two-periods', ['1.2.3', '1..2']),
               ('decimal-without-period-or-exponent', ['08', '09', '0128', '100f', '09L']),
               ('hex-float-without-exponent', ['0x1.8', '0x.8', '0x1.', '0x1.8f']),
               ('junk-after-integer', ['1x', '0xg', '0b2', '1_0', '12abc'])]
    for name, samples in invalid:
        ok, msg = True, ''
        for text in samples:
            assert float_oracle(text) is None
            it, ctx, out, t = conv(text)
            if out[0] != 'noreturn' and ok:
                ok = False
                got = L.type_sig(it, t.fields.get('ty', 0))
                msg = '`%s` is neither an integer constant nor a floating constant of C11 6.4.4 but is accepted as a constant of type %s' % (text, (got or ('?',))[0][3:].lower())
        rep.ob('R11.10', '%s:%s:%s-diagnosed' % (TU, fn, name), ok, msg, where=where)
    # integers take the integer path, not strtold
    ok, msg = True, ''
    for text in ('0', '7', '0x1f', '017', '0b101', '1u', '0xe', '0x1F'):
        it, ctx, out, t = conv(text)
        got = L.type_sig(it, t.fields.get('ty', 0))
        if (out[0] != 'ret' or [e for e in ctx.events if e[0] == 'strtofloat'] or got not in TYN) and ok:
            ok, msg = False, 'the integer constant %s is not typed by the integer ladder (type %r)' % (text, got)
    rep.ob('R11.10', '%s:%s:integers-first' % (TU, fn), ok, msg, where=where)


# ============================================================================ R11.12 ===
# tokenize() also runs on buffers that end at their NUL without a newline: the body of a -D macro (define_macro), the
# spelling produced by ## (paste) and by # (new_str_token).  Every spelling of the corpus is cut after each of its
# bytes; each cut is one such buffer.
END_CORPUS = [
    ('pp-number', ['0', '12', '0x1F', '0xFE', '0XAE', '0x7e', '1e5', '1E5', '1e+5', '1E-5', '1.5e+3', '0x1p3', '0x1P-3', '0x1.8p+1', '.5', '.5e-1', '1.',
                   '1..2', '1u', '1UL', '1ll', '017', '0b101', '1.0f', '1.0L', '0x1P', '1p', 'x=0xE', '-1e', '08e', '0xep', '1eE']),
    ('string-literal', ['"abc"', '""', '"a\\n"', '"\\""', '"\\\\"', '"\\x41"', '"\\101"', '"\\0"', 'u8"a\\n"', 'u"aé"', 'U"\U0001F363"', 'L"a\\x41"',
                        '"é"', '"a" "b"']),
    ('char-literal', ["'a'", "'\\n'", "'\\''", "'\\\\'", "'\\x41'", "'\\101'", "'\\0'", "u'a'", "U'\U0001F363'", "L'\\x41'", "'é'", "'ab'", "u'あ'"]),
    ('identifier', ['abc', '_x1', 'u8x', 'L', 'U', 'é1', 'aあ', 'return', 'a b', 'xe', 'xP']),
    ('punctuator', ['<<=', '>>=', '...', '->', '##', '+', '-', '.', '==', '&&', '#', '/', '/=', '++', '--', '(', 'a.b', 'a->b']),
    ('line-comment', ['// c', '//', 'a // c', '1//e']),
    ('block-comment', ['/* c */', '/**/', '1 /* c */', 'a/*"*/']),
    ('white-space', ['x \t\f\v', ' ', 'x\n ']),
]


def end_state(cls, b):
    """what the last bytes of buffer b are (names the obligation: the guards a scanner needs differ per state)"""
    if cls == 'line-comment' and b'//' in b:
        return 'inside-comment'
    if cls == 'block-comment' and b'/*' in b and b'*/' not in b[b.index(b'/*') + 2:]:
        return 'inside-comment'
    k = 0
    while k < len(b) and b[len(b) - 1 - k] == 0x5c:
        k += 1
    if k % 2:
        return 'dangling-backslash'
    if k:
        return 'escaped-backslash'
    c = b[-1]
    ch = chr(c)
    if c >= 0x80:
        return 'non-ascii-byte'
    if ch == '"':
        return 'double-quote'
    if ch == "'":
        return 'single-quote'
    if ch in 'eEpP':
        return 'exponent-letter'
    if ch in '+-':
        return 'sign'
    if ch == '.':
        return 'period'
    if ch.isdigit():
        return 'digit'
    if ch.isalpha() or ch == '_':
        return 'letter'
    if ch in ' \t\n\v\f\r':
        return 'white-space'
    return 'punctuation'


def lex_at_end(P, u, data):
    """tokenize() on a buffer that consists of `data` and its terminating NUL (lib_c11.watched_cstring), then
    convert_pp_number() on every pp-number token (what convert_pp_tokens does with it).
    returns (result signature | None, bytes read behind the terminator, description)"""
    p, w, lim = L.watched_cstring(data)
    it = L.CInterp(P, u, {'models': L.make_models()})

    def mk(ctx):
        f = Obj('File', lazy=False)
        f.fields['contents'] = p
        f.fields['name'] = 'x.c'
        f.fields['display_name'] = 'x.c'
        f.fields['file_no'] = 1
        return [f]
    try:
        ctx, out = L.run1(it, 'tokenize', mk)
    except AnalysisBroken as e:
        return None, max(0, w.hi - lim), 'no outcome (%s)' % e
    over = max(0, w.hi - lim)
    lx = Lexed(it, ctx, out)
    if lx.crash:
        return ('crash',), over, lx.describe(u)
    if lx.error:
        return ('diagnostic',), over, lx.describe(u)
    if w.hi < lim:
        raise AnalysisBroken('tokenize returned without the buffer watch seeing a read of the terminator: the over-read detection is not alive')
    if over:
        return None, over, 'tokens taken from memory behind the buffer'
    kinds, texts = lx.kinds(u), lx.texts()
    desc = lx.describe(u)
    nums = []
    for t, k in zip(lx.toks, kinds):
        if k != 'TK_PP_NUM':
            continue
        it2 = L.CInterp(P, u, {'models': L.make_models()})
        try:
            ctx2, out2 = L.run1(it2, 'convert_pp_number', [t])
        except AnalysisBroken as e:
            return None, max(0, w.hi - lim), 'convert_pp_number: no outcome (%s)' % e
        over = max(over, w.hi - lim)
        if out2[0] == 'ret':
            fv = t.fields.get('fval', 0)
            nums.append(('num', t.fields.get('kind'), L.type_sig(it2, t.fields.get('ty', 0)), t.fields.get('val', 0),
                         fval_sig(fv)))
        else:
            nums.append((out2[0],))
        desc += ' -> %s' % ('%s constant' % (TYN.get(nums[-1][2]) or (nums[-1][2] or ('?',))[0][3:].lower()) if out2[0] == 'ret' else 'invalid numeric constant')
    return ('tokens', tuple(kinds), tuple(texts), tuple(nums)), over, desc


def r1112(P, u, rep):
    fn = 'tokenize'
    _need(u, fn, 'convert_pp_number')
    rep.rule('R11.12', 'a buffer that ends at its NUL without a newline (macro body of -D, result of ## or #) is tokenized without reading memory behind the '
             'terminator, and its tokens and numeric constants are those of the same text followed by a newline; every cut of every literal, identifier, '
             'punctuator and comment spelling of the corpus is such a buffer', floor=40)
    where = _where(u, fn)
    groups = {}
    order = []
    for cls, spellings in END_CORPUS:
        seen = set()
        for s in spellings:
            b = s.encode('utf-8')
            for i in range(1, len(b) + 1):
                cut = b[:i]
                if cut in seen:
                    continue
                seen.add(cut)
                g = '%s/%s' % (cls, end_state(cls, cut))
                if g not in groups:
                    groups[g] = {'n': 0, 'over': None, 'diff': None, 'und': None}
                    order.append(g)
                G = groups[g]
                G['n'] += 1
                sig, over, desc = lex_at_end(P, u, cut)
                shown = cut.decode('utf-8', 'replace')
                if over:
                    if G['over'] is None:
                        G['over'] = 'on the buffer `%s` (NUL directly after it) the scanner reads %d byte(s) of the memory behind the terminator (outcome: %s); what it ' \
                            'finds there is not part of the text: the next command line argument after a -D, or unallocated memory' % (shown, over, desc)
                    continue
                if sig is None:
                    if G['und'] is None:
                        G['und'] = 'tokenize on the buffer `%s`: %s' % (shown, desc)
                    continue
                sig2, over2, desc2 = lex_at_end(P, u, cut + b'\n')
                if sig2 is None or over2:
                    if G['und'] is None:
                        G['und'] = 'tokenize on the text `%s` followed by a newline: %s' % (shown, desc2)
                    continue
                if sig != sig2 and G['diff'] is None:
                    G['diff'] = 'the buffer `%s` (NUL directly after it) becomes %s; the same text followed by a newline becomes %s' % (shown, desc, desc2)
    if sum(G['n'] for G in groups.values()) < 250:
        raise AnalysisBroken('end-of-buffer sample set collapsed')
    for g in order:
        G = groups[g]
        key = '%s:%s:at-end-of-buffer/%s' % (TU, fn, g)
        if G['und'] is not None:
            rep.undecided('R11.12', key, G['und'], where=where)
            continue
        rep.ob('R11.12', key + ':reads-stay-inside-the-buffer', G['over'] is None, G['over'] or '', where=where)
        if G['over'] is None:
            rep.ob('R11.12', key + ':same-result-as-with-newline', G['diff'] is None, G['diff'] or '', where=where)


# ============================================================================ R11.11 ===
# C11 Annex D.1 (ranges of characters allowed in identifiers) and D.2 (not allowed initially)
ANNEX_D1 = [(0xA8, 0xA8), (0xAA, 0xAA), (0xAD, 0xAD), (0xAF, 0xAF), (0xB2, 0xB5), (0xB7, 0xBA), (0xBC, 0xBE), (0xC0, 0xD6), (0xD8, 0xF6), (0xF8, 0xFF),
            (0x100, 0x167F), (0x1681, 0x180D), (0x180F, 0x1FFF), (0x200B, 0x200D), (0x202A, 0x202E), (0x203F, 0x2040), (0x2054, 0x2054), (0x2060, 0x206F),
            (0x2070, 0x218F), (0x2460, 0x24FF), (0x2776, 0x2793), (0x2C00, 0x2DFF), (0x2E80, 0x2FFF), (0x3004, 0x3007), (0x3021, 0x302F), (0x3031, 0x303F),
            (0x3040, 0xD7FF), (0xF900, 0xFD3D), (0xFD40, 0xFDCF), (0xFDF0, 0xFE44), (0xFE47, 0xFFFD)] + [(p << 16, (p << 16) | 0xFFFD) for p in range(1, 15)]
ANNEX_D2 = [(0x300, 0x36F), (0x1DC0, 0x1DFF), (0x20D0, 0x20FF), (0xFE20, 0xFE2F)]


def _in(ranges, c):
    return any(lo <= c <= hi for lo, hi in ranges)


def r1111(P, rep):
    uu = P.unit(UU)
    _need(uu, 'is_ident1', 'is_ident2')
    rep.rule('R11.11', 'identifier characters: is_ident1/is_ident2 accept exactly [A-Za-z_] (+ digits after the first character) and the universal characters of C11 Annex D.1, those of D.2 not initially', floor=8)
    pts = set()
    for lo, hi in ANNEX_D1 + ANNEX_D2:
        pts.update([lo - 1, lo, hi, hi + 1])
    pts.update([0, 0x20, 0x2F, 0x30, 0x39, 0x3A, 0x40, 0x41, 0x5A, 0x5B, 0x5F, 0x60, 0x61, 0x7A, 0x7B, 0x7F, 0x80, 0xA0, 0x3B1, 0x3042, 0xFFFE, 0xFFFF, 0xEFFFE, 0xF0000, 0x10FFFF])
    pts = sorted(c for c in pts if 0 <= c <= 0x10FFFF and c != 0x24)     # '$' is a documented GNU extension of chibicc
    res = {}
    for fn in ('is_ident1', 'is_ident2'):
        it = L.CInterp(P, uu, {'models': L.make_models()})
        for c in pts:
            ctx, out = L.run1(it, fn, [c])
            v = it.settle(out[1]) if out[0] == 'ret' else None
            if not isinstance(v, int):
                raise AnalysisBroken('%s(U+%04X) has no concrete result' % (fn, c))
            res[(fn, c)] = bool(v)

    def ascii_ok(c, first):
        ch = chr(c)
        return ch == '_' or 'a' <= ch <= 'z' or 'A' <= ch <= 'Z' or (not first and '0' <= ch <= '9')
    groups = {}
    for c in pts:
        for fn, first in (('is_ident1', True), ('is_ident2', False)):
            if c < 0x80:
                want, g = ascii_ok(c, first), 'basic-characters'
            else:
                want = _in(ANNEX_D1, c) and not (first and _in(ANNEX_D2, c))
                g = 'annex-D2-not-initially' if _in(ANNEX_D2, c) or _in(ANNEX_D2, c - 1) or _in(ANNEX_D2, c + 1) else \
                    ('annex-D1-bmp' if c < 0x10000 else 'annex-D1-supplementary')
            cur = groups.setdefault((fn, g), [True, ''])
            if res[(fn, c)] != want and cur[0]:
                cur[0] = False
                cur[1] = '%s(U+%04X) is %s; C11 6.4.2.1 / Annex D %s this character %s' % (
                    fn, c, 'true' if res[(fn, c)] else 'false', 'allows' if want else 'does not allow', 'at the start of an identifier' if first else 'inside an identifier')
    for (fn, g), (ok, msg) in sorted(groups.items()):
        rep.ob('R11.11', '%s:%s:%s' % (UU, fn, g), ok, msg, where=_where(uu, fn))


# ============================================================================ R11.13 ===
# The scanners have no table of lengths: every loop that collects the characters of one token ends at the first character that
# does not belong to it.  C11 5.2.4.1 requires at least 4095 characters in a string literal / logical line and 63 significant
# characters in an identifier; the spellings below are longer than all of them.
LONG_N = (70, 300, 4200)
_LONG_CFG = {'forever_limit': 100000}


def r1113(P, u, rep):
    fn = 'tokenize'
    _need(u, fn, 'convert_pp_number')
    rep.rule('R11.13', 'no scanner has a length limit: identifiers, pp-numbers, string literals of every prefix, comments (70 to 4200 characters) and spliced lines (to 1100) '
             '(beyond the minimum translation limits of C11 5.2.4.1) are read whole, with the value and type of the same spelling at any length', floor=12)
    where = _where(u, fn)

    def first_bad(cases):
        for label, fnc in cases:
            try:
                what = fnc()
            except AnalysisBroken as e:
                return None, '%s: %s' % (label, e)
            if what:
                return False, '%s %s' % (label, what)
        return True, ''

    def ob(name, cases):
        ok, msg = first_bad(cases)
        key = '%s:%s:long-%s' % (TU, fn, name)
        if ok is None:
            rep.undecided('R11.13', key, msg, where=where)
        else:
            rep.ob('R11.13', key, ok, msg, where=where)

    def one_token(src, kind, n):
        lx = lex(P, u, src, cfg=_LONG_CFG)
        if lx.failed or lx.kinds(u)[:1] != [kind] or len(lx.toks) != 2:
            return 'is tokenized as %s' % lx.describe(u)[:200]
        ln = lx.toks[0].fields.get('len')
        if ln != n:
            return 'becomes a %s token of %r characters; the rest is tokenized separately' % (kind[3:], ln)
        return ''

    ob('identifier', [('an identifier of %d characters' % n, lambda n=n: one_token('x' * n + ' \n', 'TK_IDENT', n)) for n in (70, 300, 4200)] +
       [('an identifier of %d two-byte characters' % n, lambda n=n: one_token('\u00e9' * n + '\n', 'TK_IDENT', 2 * n)) for n in (70, 300)])

    def number(text, want_ty, want_val):
        lx = lex(P, u, text + ' ;\n', cfg=_LONG_CFG)
        if lx.failed or lx.kinds(u) != ['TK_PP_NUM', 'TK_PUNCT', 'TK_EOF'] or lx.toks[0].fields.get('len') != len(text):
            return 'is tokenized as %s' % lx.describe(u)[:200]
        t = lx.toks[0]
        it2 = L.CInterp(P, u, {'models': L.make_models()})
        ctx2, out2 = L.run1(it2, 'convert_pp_number', [t])
        if out2[0] != 'ret':
            return 'is rejected as a numeric constant'
        got = L.type_sig(it2, t.fields.get('ty', 0))
        if got != want_ty or (want_val is not None and t.fields.get('val') != want_val):
            return 'becomes a constant of type %s, value %r; expected %s%s' % (TYN.get(got, got), t.fields.get('val'), TYN.get(want_ty, want_ty[0]), '' if want_val is None else ', value %d' % want_val)
        return ''
    ob('integer-constant', [('an octal constant with %d digits' % n, lambda n=n: number('0' * (n - 2) + '17', INT, 15)) for n in LONG_N] +
       [('a hexadecimal constant with %d digits' % n, lambda n=n: number('0x' + '0' * (n - 2) + '1F', INT, 31)) for n in LONG_N] +
       [('a binary constant with %d digits' % n, lambda n=n: number('0b' + '0' * (n - 2) + '11', INT, 3)) for n in LONG_N[:2]])
    ob('floating-constant', [('a floating constant with %d digits' % n, lambda n=n: number('1.' + '0' * (n - 5) + '5e1', DOUBLE, None)) for n in LONG_N] +
       [('a hexadecimal floating constant with %d digits' % n, lambda n=n: number('0x1.' + '0' * (n - 7) + '8p1f', FLOAT, None)) for n in LONG_N[:2]])

    def string(prefix, base, n, enc):
        body = 'a' * (n - 3) + '\u00e9\U0001F363z'
        units = [0x61] * (n - 3) + enc(0xE9) + enc(0x1F363) + [0x7A]
        good, what = check_string(P, u, prefix + '"' + body + '"\n', base, units, cfg=_LONG_CFG, limit=1 << 16)
        return '' if good else 'becomes %s; expected %d elements' % (what, len(units) + 1)
    for name, prefix, base, enc in (('string', '', CHAR, utf8_oracle), ('u8-string', 'u8', CHAR, utf8_oracle), ('utf16-string', 'u', USHORT, utf16_oracle),
                                    ('utf32-string', 'U', UINT_T, lambda c: [c]), ('wide-string', 'L', INT_T, lambda c: [c])):
        ob(name, [('the literal %s"..." with %d characters' % (prefix, n), lambda n=n: string(prefix, base, n, enc)) for n in LONG_N])

    def escapes(prefix, base, n):
        good, what = check_string(P, u, prefix + '"' + '\\n\\x41\\101' * n + '"\n', base, [10, 0x41, 0x41] * n, cfg=_LONG_CFG, limit=1 << 16)
        return '' if good else 'becomes %s; expected %d elements' % (what, 3 * n + 1)
    ob('string-of-escapes', [('the literal %s"\\n\\x41\\101..." with %d escape sequences' % (prefix, 3 * n), lambda n=n, prefix=prefix, base=base: escapes(prefix, base, n))
                             for prefix, base in (('', CHAR), ('u', USHORT), ('L', INT_T)) for n in (30, 150)])

    def skipped(src):
        lx = lex(P, u, src, cfg=_LONG_CFG)
        if lx.failed or lx.kinds(u) != ['TK_IDENT', 'TK_EOF'] or lx.texts()[0] != b'after':
            return 'is tokenized as %s; expected the comment to be skipped whole and the identifier `after` behind it' % lx.describe(u)[:200]
        return ''
    ob('comment', [('a block comment of %d characters' % n, lambda n=n: skipped('/*' + 'c' * n + '*/after\n')) for n in LONG_N] +
       [('a line comment of %d characters' % n, lambda n=n: skipped('//' + 'c' * n + '\nafter\n')) for n in LONG_N])

    def file_line(n):
        # one logical line of n characters in three physical lines (CR LF ends, splices), a universal character name at its end
        half = (n - 8) // 2
        data = b'"' + b'a' * half + b'\\\r\n' + b'b' * half + b'\\\n' + b'\\u00e9z"\r\n'
        good, what = check_string(P, u, data, CHAR, [0x61] * half + [0x62] * half + [0xC3, 0xA9, 0x7A], via_file=True, cfg=_LONG_CFG, limit=1 << 16)
        return '' if good else 'is read as %s; expected one literal of %d elements' % (what, 2 * half + 4)
    _need(u, 'tokenize_file')
    ob('logical-line', [('a string literal spliced over three physical lines, %d characters in all,' % n, lambda n=n: file_line(n)) for n in (70, 300, 1100)])

    pu = P.unit(PU)
    _need(pu, 'join_adjacent_string_literals')

    def joined(p1, p2, base, n):
        src = '%s"%s" %s"%s" ;\n' % (p1, 'a' * n, p2, 'b' * n)
        lx = lex(P, u, src, cfg=_LONG_CFG)
        if lx.failed:
            return 'is tokenized as %s' % lx.describe(u)[:200]
        it2 = L.CInterp(P, pu, dict(_LONG_CFG, models=L.make_models()))
        ctx2, out2 = L.run1(it2, 'join_adjacent_string_literals', lambda ctx: [lx.head])
        lx2 = Lexed(it2, ctx2, ('ret', lx.head) if out2[0] == 'ret' else out2)
        if out2[0] != 'ret' or lx2.kinds(u) != ['TK_STR', 'TK_PUNCT', 'TK_EOF']:
            return 'is joined into %s' % lx2.describe(u)[:200]
        st = str_token(lx2, lx2.toks[0], 1 << 16)
        bad = [e for e in ctx2.events if e[0] in ('overflow', 'overread')]
        if st is None or st[0] != base or st[1] != [0x61] * n + [0x62] * n + [0]:
            return 'is joined into %s' % (('an array of %s with %d element(s)' % (TYNAME.get(st[0], st[0]), st[2][3])) if st else 'a token without array type')
        if bad:
            return 'is joined with a copy that runs %d byte(s) past a buffer' % bad[0][1]
        return ''
    ob('concatenation', [('the pair %s"a..." %s"b..." of %d characters each' % (p1, p2, n), lambda p1=p1, p2=p2, base=base, n=n: joined(p1, p2, base, n))
                         for p1, p2, base, ns in (('', '', CHAR, (300, 1100)), ('', 'L', INT_T, (300,)), ('u', '', USHORT, (300,))) for n in ns])


# ============================================================================ R11.14 ===
# What a string literal gives to the object it initialises (C11 6.7.9p14, p15, p22): parse.c's initializer() is run on the tokens
# the tokenizer produced for the literal.  Only the DECLARED element type decides the type of the object; the literal decides the
# length of an array of unknown size and the values.
PAU = 'parse.c'


def _type_obj(pu, **fields):
    t = Obj('Type', lazy=False)
    for f, _, _ in pu.records.get('Type') or []:
        t.fields[f] = 0
    t.fields.update(fields)
    return t


def _run_initializer(P, u, pu, src, base_name, alen, in_struct=False):
    """initializer() of parse.c on the tokens of `src` for an object of type `base_name[alen]` (alen -1: unknown size), or for
    `struct { int n; base_name body[]; }` when in_struct.  returns a dict describing the outcome"""
    tyu = P.unit('type.c')
    if base_name not in tyu.globals:
        raise AnalysisBroken('type object %s vanished from type.c' % base_name)
    lx = lex(P, u, src)
    if lx.failed:
        raise AnalysisBroken('tokenize rejects the initializer sample %r (%s)' % (src, lx.describe(u)))
    for t, k in zip(lx.toks, lx.kinds(u)):
        if k == 'TK_PP_NUM':
            L.run1(L.CInterp(P, u, {'models': L.make_models()}), 'convert_pp_number', [t])
    lit = [t for t, k in zip(lx.toks, lx.kinds(u)) if k == 'TK_STR']
    if len(lit) != 1:
        raise AnalysisBroken('initializer sample %r has no single string literal token' % src)
    st = str_token(lx, lit[0])
    if st is None or st[1] is None:
        raise AnalysisBroken('the literal of the initializer sample %r has no readable array type' % src)
    it = L.CInterp(P, pu, {'models': L.make_models()})
    box = {'rest': 0, 'new_ty': 0}
    E = pu.enums
    keep = {}

    def mk(ctx):
        base = it.materialise_global(base_name, tyu.globals[base_name])
        lb = lit[0].fields.get('ty', 0)
        lb = lb.fields.get('base', 0) if isinstance(lb, Obj) else 0
        if isinstance(lb, Obj) and isinstance(base, Obj) and lb.label is not None and lb.label == base.label:
            base = lb           # the program has one object per type.c global; both interpreters must see the same one
        if not isinstance(base, Obj) or not isinstance(base.fields.get('size'), int):
            raise AnalysisBroken('type object %s is not a concrete Type' % base_name)
        bs, ba = base.fields['size'], base.fields.get('align', 1)
        ty = _type_obj(pu, kind=E['TY_ARRAY'], size=bs * alen, align=ba, base=base, array_len=alen)
        keep.update(base=base, ty=ty)
        top = ty
        if in_struct:
            tint = it.materialise_global('ty_int', tyu.globals['ty_int'])
            ms = []
            for i, (mt, off) in enumerate(((tint, 0), (ty, 4))):
                m = Obj('Member', lazy=False)
                for f, _, _ in pu.records.get('Member') or []:
                    m.fields[f] = 0
                m.fields.update(ty=mt, idx=i, align=mt.fields.get('align', 1), offset=off)
                ms.append(m)
            ms[0].fields['next'] = ms[1]
            top = _type_obj(pu, kind=E['TY_STRUCT'], size=4, align=4, members=ms[0], is_flexible=1)
            keep.update(members=ms)
        keep['top'] = top
        return [_Ref(VarPlace(box, 'rest')), lx.head, top, _Ref(VarPlace(box, 'new_ty'))]
    ctx, out = L.run1(it, 'initializer', mk)
    res = {'out': out, 'lit': lit[0], 'units': st[1], 'lit_base': st[0], 'it': it, 'keep': keep, 'lx': lx}
    if out[0] != 'ret':
        return res
    init, nt = out[1], box['new_ty']
    res['rest'] = L.tok_text(box['rest']) if isinstance(box['rest'], Obj) else None
    arr_init, arr_ty = init, nt
    if in_struct and isinstance(init, Obj) and isinstance(nt, Obj):
        ai = L.arr_of(init.fields.get('children', 0))
        arr_init = ai[0].elems[1] if ai and len(ai[0].elems) > 1 else None
        m = nt.fields.get('members', 0)
        m = m.fields.get('next', 0) if isinstance(m, Obj) else 0
        arr_ty = m.fields.get('ty', 0) if isinstance(m, Obj) else None
        res['struct_size'] = nt.fields.get('size')
        res['struct_is_copy'] = nt is not keep['top'] and keep['members'][1].fields.get('ty') is keep['ty']
    res['init_ty'] = arr_init.fields.get('ty', 0) if isinstance(arr_init, Obj) else None
    res['obj_ty'] = arr_ty
    vals = None
    if isinstance(arr_init, Obj):
        ai = L.arr_of(arr_init.fields.get('children', 0))
        if ai:
            vals = []
            for c in ai[0].elems[ai[1]:]:
                e = c.fields.get('expr', 0) if isinstance(c, Obj) else None
                if isinstance(e, Obj):
                    vals.append(e.fields.get('val') if e.fields.get('kind') == E.get('ND_NUM') else '?')
                else:
                    vals.append(None)
    res['vals'] = vals
    return res


# declared element types per width (type.c objects) and the literal spellings that may initialise them
_DECL_TYPES = {1: [('char', 'ty_char'), ('unsigned-char', 'ty_uchar')], 2: [('short', 'ty_short'), ('unsigned-short', 'ty_ushort')],
               4: [('int', 'ty_int'), ('unsigned-int', 'ty_uint')]}
_INIT_LITS = [('narrow', '"a\\xff\\x80"', 1), ('u8', 'u8"a\u00e9"', 1), ('utf16', 'u"a\\xfff0\U0001F363"', 2), ('utf32', 'U"a\\xfffffff0"', 4), ('wide', 'L"a\\xfffffff0\u3042"', 4)]


def describe_ty(it, t):
    sg = L.type_sig(it, t)
    if not sg:
        return 'no type'
    if sg[0] == 'TY_ARRAY':
        b = sg[2] or ('?', 0, 0)
        return '%s%s[%s] (size %s)' % ('unsigned ' if b[2] else '', str(b[0])[3:].lower(), sg[3], sg[1])
    return '%s%s' % ('unsigned ' if sg[2] else '', str(sg[0])[3:].lower())


def r1114(P, u, rep):
    pu = P.unit(PAU)
    fn = 'initializer'
    _need(pu, fn, 'string_initializer', 'new_initializer')
    for k in ('TY_ARRAY', 'TY_STRUCT', 'ND_NUM'):
        if k not in pu.enums:
            raise AnalysisBroken('enumerator %s vanished' % k)
    rep.rule('R11.14', 'an array initialised by a string literal keeps its DECLARED element type; an array of unknown size (or flexible array member) gets exactly the '
             'literal\'s number of elements including the terminator (C11 6.7.9p22), a sized array takes min(size, length) code units; the elements are the literal\'s '
             'code units; a literal whose element width differs from the array\'s is diagnosed (C11 6.7.9p14, p15)', floor=40)
    where = _where(pu, 'string_initializer')
    tyu = P.unit('type.c')

    for lname, lsrc, width in _INIT_LITS:
        for dname, dobj in _DECL_TYPES[width]:
            if dobj not in tyu.globals:
                rep.undecided('R11.14', '%s:string_initializer:%s-literal/%s-array' % (PAU, lname, dname), 'type object %s vanished from type.c' % dobj, where=where)
                continue
            probe = _run_initializer(P, u, pu, lsrc + ' ;\n', dobj, -1)
            n = len(probe['units'])
            forms = [('unknown-size', -1, False, n), ('exact-size', n, False, n), ('size-without-terminator', n - 1, False, n - 1), ('larger-size', n + 2, False, n),
                     ('flexible-member', -1, True, n)]
            for fname, alen, in_struct, count in forms:
                key = '%s:string_initializer:%s-literal/%s-array/%s' % (PAU, lname, dname, fname)
                src = ('{ 1, %s } ;\n' % lsrc) if in_struct else lsrc + ' ;\n'
                decl = ('struct { int n; %s body[]; } x = { 1, %s }' if in_struct else '%s x[' + ('' if alen < 0 else str(alen)) + '] = %s') % (dname.replace('-', ' '), lsrc)
                r = probe if (alen, in_struct) == (-1, False) else _run_initializer(P, u, pu, src, dobj, alen, in_struct)
                out = r['out']
                if out[0] == 'crash':
                    rep.ob('R11.14', key, False, '`%s`: the compiler dereferences NULL at %s' % (decl, out[2]), where=where)
                    continue
                if out[0] != 'ret':
                    rep.ob('R11.14', key, False, '`%s` is rejected ("%s"); it is a valid initialisation (C11 6.7.9p14/p15)' % (decl, out[2][1] if len(out) > 2 and len(out[2]) > 1 else out[1]), where=where)
                    continue
                it = r['it']
                base = r['keep']['base']
                want_len = n if alen < 0 else alen
                esz = base.fields['size']
                ot, ity = r['obj_ty'], r['init_ty']
                msgs = []
                for what, t in (('the type handed to the object', ot), ('the type of the initializer tree', ity)):
                    sg = L.type_sig(it, t)
                    if not isinstance(t, Obj) or not sg or sg[0] != 'TY_ARRAY':
                        msgs.append('%s is %s, not an array' % (what, describe_ty(it, t)))
                    elif t.fields.get('base') is not base:
                        msgs.append('%s is %s: its element type is %s, not the declared element type %s (the elements change signedness behind the declaration: `unsigned char s[] = "\\xff"` reads back -1)' % (
                            what, describe_ty(it, t), 'the element type of the literal' if t.fields.get('base') is r['lit'].fields.get('ty').fields.get('base') else 'another type', dname.replace('-', ' ')))
                    elif sg[3] != want_len or sg[1] != want_len * esz:
                        msgs.append('%s is %s; expected %d element(s) of %d byte(s)%s' % (what, describe_ty(it, t), want_len, esz, ' (the literal has %d code units including its terminator)' % n if alen < 0 else ''))
                if alen >= 0 and not in_struct and ot is not r['keep']['ty']:
                    msgs.append('the sized array gets another type object than its declared type')
                if in_struct:
                    if not r.get('struct_is_copy'):
                        msgs.append('the declared struct type itself is modified (every other object of the type changes size too)')
                    if r.get('struct_size') != 4 + want_len * esz:
                        msgs.append('the struct object has size %r; expected sizeof(struct) + %d' % (r.get('struct_size'), want_len * esz))
                vals = r['vals']
                mask = (1 << (8 * esz)) - 1
                if vals is None or len(vals) != want_len:
                    msgs.append('the initializer tree has %s element slots; expected %d' % (len(vals) if vals is not None else 'no', want_len))
                else:
                    got = [(v & mask) if isinstance(v, int) else v for v in vals]
                    want = r['units'][:count] + [None] * (want_len - count)
                    if got != want:
                        msgs.append('the elements are initialised with %s; the code units of the literal are %s%s' % (
                            fmt_units(got), fmt_units(r['units'][:count]), ', the remaining %d element(s) stay zero' % (want_len - count) if want_len > count else ''))
                if r.get('rest') != b';' and r.get('rest') != b'}':
                    msgs.append('parsing continues at `%s`, not behind the literal' % (r.get('rest') or b'?').decode('utf-8', 'replace'))
                rep.ob('R11.14', key, not msgs, '`%s`: %s' % (decl, '; '.join(msgs)), where=where)
    # element width of the literal != element width of the array: no reading of the literal's bytes with another width
    for lname, lsrc, width in (('narrow', '"abc"', 1), ('utf16', 'u"abc"', 2), ('wide', 'L"abc"', 4)):
        for w2 in (1, 2, 4):
            if w2 == width:
                continue
            dname, dobj = _DECL_TYPES[w2][1 if w2 > 1 else 0]
            key = '%s:string_initializer:%s-literal/%d-byte-elements-diagnosed' % (PAU, lname, w2)
            if dobj not in tyu.globals:
                rep.undecided('R11.14', key, 'type object %s vanished from type.c' % dobj, where=where)
                continue
            r = _run_initializer(P, u, pu, lsrc + ' ;\n', dobj, -1)
            out = r['out']
            what = ''
            if out[0] == 'ret':
                what = 'accepted: the object becomes %s and the %d-byte code units of the literal are read as %d-byte units%s' % (
                    describe_ty(r['it'], r['obj_ty']), width, w2, ', %d bytes past the end of the literal\'s buffer' % (4 * w2 - 4 * width) if w2 > width else '')
            elif out[0] == 'crash':
                what = 'not diagnosed: the compiler dereferences NULL at %s' % out[2]
            rep.ob('R11.14', key, out[0] == 'noreturn',
                   '`%s x[] = %s` is %s; C11 6.7.9p14/p15: an array of character type is initialised by a character string literal, an array compatible with wchar_t '
                   '(char16_t, char32_t) by a literal of that prefix -- anything else is a constraint violation' % (dname.replace('-', ' '), lsrc, what), where=where)


# ============================================================================ R11.15 ===
# The bundled headers name the types of the prefixed literals: wchar_t (C11 6.4.4.4p11, 6.4.5p6), char16_t / char32_t (7.28), and
# their atomic variants (7.17.6: atomic_wchar_t is _Atomic wchar_t ...).  A program sees one type under two names, so each header
# typedef must be the type the tokenizer gives the literal (read from the tokens it produces, not from a table).
_WIDE_NAMES = {'wchar_t': 'L', 'char16_t': 'u', 'char32_t': 'U', 'atomic_wchar_t': 'L', 'atomic_char16_t': 'u', 'atomic_char32_t': 'U'}
_WIDE_MACROS = {'__WCHAR_TYPE__': 'L', '__CHAR16_TYPE__': 'u', '__CHAR32_TYPE__': 'U'}
_WIDE_SIZEOF = {'__SIZEOF_WCHAR_T__': 'L', '__SIZEOF_CHAR16_T__': 'u', '__SIZEOF_CHAR32_T__': 'U'}


def r1115(P, u, rep):
    _need(u, 'tokenize')
    rep.rule('R11.15', 'wchar_t / char16_t / char32_t (and atomic_wchar_t / atomic_char16_t / atomic_char32_t, predefined __WCHAR_TYPE__ ...) as declared by the bundled '
             'headers are the types the tokenizer gives to L / u / U character constants and to the elements of L / u / U string literals (width and signedness)', floor=8)
    lit = {}
    for pfx in ('L', 'u', 'U'):
        lx = lex(P, u, "%s'a' %s\"a\"\n" % (pfx, pfx))
        if lx.failed or lx.kinds(u) != ['TK_NUM', 'TK_STR', 'TK_EOF']:
            raise AnalysisBroken("%s'a' %s\"a\" is tokenized as %s" % (pfx, pfx, lx.describe(u)))
        cs = L.type_sig(lx.it, lx.toks[0].fields.get('ty', 0))
        st = str_token(lx, lx.toks[1])
        if not cs or st is None or not isinstance(cs[1], int) or not isinstance(st[0][1], int):
            raise AnalysisBroken('the type of the %s-prefixed literals is not concrete' % pfx)
        lit[pfx] = {'character constant': cs, 'string literal element': st[0]}

    def show(sig):
        return '%s%s (%d bits)' % ('unsigned ' if sig[2] else '', str(sig[0])[3:].lower(), 8 * sig[1])
    n = 0
    for hdr, name, spelled, line, invalid in L.header_typedefs(P, set(_WIDE_NAMES)):
        pfx = _WIDE_NAMES[name]
        where = '%s:%d' % (hdr, line)
        a = L.c_int_type(spelled)
        if invalid or a is None:
            rep.undecided('R11.15', '%s:%s:typedef' % (hdr, name), 'typedef %s is `%s`: not an integer type this rule can read%s' % (name, spelled, ' (clang rejects the declaration without its own predefined macros)' if invalid else ''), where=where)
            continue
        for what, sig in sorted(lit[pfx].items()):
            n += 1
            rep.ob('R11.15', '%s:%s:is-type-of-%s-%s' % (hdr, name, pfx, what.replace(' ', '-')), a == (8 * sig[1], sig[2]),
                   '%s is `%s` (%d bits, %s) but the %s of %s%s has type %s: one type under two names -- _Generic(%s\'a\', %s: 1, default: 0) is 0, and a value >= 2^%d changes sign '
                   '(comparison, division, >>, widening) when it moves between the literal and a %s object' % (
                       name, spelled, a[0], 'unsigned' if a[1] else 'signed', what, pfx, "'x'" if what.startswith('char') else '"..."', show(sig), pfx, name.replace('atomic_', ''), 8 * sig[1] - 1, name), where=where)
    if n == 0:
        rep.undecided('R11.15', 'include:wchar_t:typedef', 'no bundled header declares wchar_t any more: shape not recognised')
    pu = P.unit(PU)
    for fnm, fd in sorted(pu.functions.items()):
        for c in fd.calls('define_macro'):
            a = c.args()
            nm = a[0].str_value() if len(a) == 2 else None
            if nm not in _WIDE_MACROS and nm not in _WIDE_SIZEOF:
                continue
            val = a[1].str_value()
            pfx = _WIDE_MACROS.get(nm) or _WIDE_SIZEOF.get(nm)
            sig = lit[pfx]['character constant']
            key = '%s:%s:%s' % (PU, fnm, nm)
            where = '%s:%d' % (PU, c.line)
            if not isinstance(val, str):
                rep.undecided('R11.15', key, 'the value of the predefined macro %s is not a string literal' % nm, where=where)
            elif nm in _WIDE_MACROS:
                t = L.c_int_type(val)
                if t is None:
                    rep.undecided('R11.15', key, 'predefined macro %s expands to `%s`: not an integer type this rule can read' % (nm, val), where=where)
                else:
                    rep.ob('R11.15', key, t == (8 * sig[1], sig[2]), '%s expands to `%s` but %s\'x\' has type %s' % (nm, val, pfx, show(sig)), where=where)
            else:
                try:
                    rep.ob('R11.15', key, int(val.strip(), 0) == sig[1], '%s is %s but sizeof(%s\'x\') is %d' % (nm, val, pfx, sig[1]), where=where)
                except ValueError:
                    rep.undecided('R11.15', key, 'predefined macro %s expands to `%s`, not to an integer literal' % (nm, val), where=where)


# ============================================================================ R11.16 ===
def r1116(P, u, rep):
    pu = P.unit(PAU)
    fn = 'primary'
    _need(pu, fn)
    rep.rule('R11.16', 'a literal token becomes a primary expression of exactly the token\'s type and value: constants keep Token.ty and Token.val / Token.fval, '
             'a string literal becomes an object of the token\'s array type holding the token\'s bytes', floor=18)
    where = _where(pu, fn)
    nd_num, nd_var = pu.enums.get('ND_NUM'), pu.enums.get('ND_VAR')
    if nd_num is None or nd_var is None:
        raise AnalysisBroken('enumerator ND_NUM/ND_VAR vanished')
    marker = Sym('fval', 'long double')

    def m_anon(it, ctx, n, a):
        o = Obj('Obj', lazy=False, label='string-literal-object')
        for f, _, _ in pu.records.get('Obj') or []:
            o.fields[f] = 0
        o.fields['ty'] = a[0] if a else 0
        o.fields['is_static'] = 1
        return o

    def run(src):
        lx = lex(P, u, src + ' ;\n')
        if lx.failed or len(lx.toks) != 3:
            raise AnalysisBroken('the literal sample %s is tokenized as %s' % (src, lx.describe(u)))
        tok = lx.toks[0]
        if lx.kinds(u)[0] == 'TK_PP_NUM':
            L.run1(L.CInterp(P, u, {'models': L.make_models(on_float=lambda it, ctx, f, text: marker)}), 'convert_pp_number', [tok])
        it = L.CInterp(P, pu, {'models': L.make_models(extra={'new_anon_gvar': m_anon})})
        box = {'rest': 0}
        ctx, out = L.run1(it, fn, lambda ctx: [_Ref(VarPlace(box, 'rest')), tok])
        return lx, it, tok, out, box['rest']

    consts = [('int', '7'), ('unsigned', '7u'), ('long', '7l'), ('unsigned-long', '7ul'), ('hex-unsigned', '0x80000000'), ('decimal-long', '2147483648'), ('hex-unsigned-long', '0x8000000000000000'),
              ('char', "'\\xff'"), ('utf16-char', "u'\\xfff0'"), ('utf32-char', "U'\\xfffffff0'"), ('wide-char', "L'\\xfffffff0'"),
              ('double', '1.5'), ('float', '1.5f'), ('long-double', '1.5L')]
    for name, src in consts:
        key = '%s:%s:constant-%s' % (PAU, fn, name)
        lx, it, tok, out, rest = run(src)
        if out[0] != 'ret' or not isinstance(out[1], Obj):
            rep.ob('R11.16', key, False, 'the constant %s is not accepted as a primary expression (%s)' % (src, out[0]), where=where)
            continue
        nd = out[1]
        tsig, nsig = L.type_sig(lx.it, tok.fields.get('ty', 0)), L.type_sig(it, nd.fields.get('ty', 0))
        isf = tsig is not None and tsig[0] in ('TY_FLOAT', 'TY_DOUBLE', 'TY_LDOUBLE')
        msgs = []
        if nd.fields.get('kind') != nd_num:
            msgs.append('the node is not ND_NUM')
        if nd.fields.get('ty', 0) is not tok.fields.get('ty', 0) and nsig != tsig:
            msgs.append('the expression has type %s, the constant has type %s' % (describe_ty(it, nd.fields.get('ty', 0)), describe_ty(lx.it, tok.fields.get('ty', 0))))
        tf, nf = tok.fields.get('fval'), nd.fields.get('fval')
        if isf and not (nf is tf and fval_origin(tf)[0] is marker):
            msgs.append('the expression has the value %r, not the long double value of the token' % (nd.fields.get('fval'),))
        if not isf and nd.fields.get('val') != tok.fields.get('val'):
            msgs.append('the expression has the value %r, the constant %r' % (nd.fields.get('val'), tok.fields.get('val')))
        if not (isinstance(rest, Obj) and L.tok_text(rest) == b';'):
            msgs.append('parsing does not continue behind the constant')
        rep.ob('R11.16', key, not msgs, 'the constant %s: %s' % (src, '; '.join(msgs)), where=where)
    for name, src in (('narrow', '"a\\xff"'), ('u8', 'u8"\u00e9"'), ('utf16', 'u"a\U0001F363"'), ('utf32', 'U"a\\xfffffff0"'), ('wide', 'L"a\\xfffffff0"')):
        key = '%s:%s:string-literal-%s' % (PAU, fn, name)
        lx, it, tok, out, rest = run(src)
        if out[0] != 'ret' or not isinstance(out[1], Obj):
            rep.ob('R11.16', key, False, 'the string literal %s is not accepted as a primary expression (%s)' % (src, out[0]), where=where)
            continue
        nd = out[1]
        var = nd.fields.get('var', 0)
        msgs = []
        if nd.fields.get('kind') != nd_var or not isinstance(var, Obj):
            msgs.append('the node is not an ND_VAR of an anonymous object')
        else:
            if var.fields.get('ty', 0) is not tok.fields.get('ty', 0) and L.type_sig(it, var.fields.get('ty', 0)) != L.type_sig(lx.it, tok.fields.get('ty', 0)):
                msgs.append('the object has type %s, the literal has type %s' % (describe_ty(it, var.fields.get('ty', 0)), describe_ty(lx.it, tok.fields.get('ty', 0))))
            sz = (L.type_sig(lx.it, tok.fields.get('ty', 0)) or (0, 0))[1]
            a, b = L.buf_bytes(var.fields.get('init_data', 0), sz), L.buf_bytes(tok.fields.get('str', 0), sz)
            if a is None or a != b:
                msgs.append('the object is not initialised with the %d bytes of the literal' % sz)
        if not (isinstance(rest, Obj) and L.tok_text(rest) == b';'):
            msgs.append('parsing does not continue behind the literal')
        rep.ob('R11.16', key, not msgs, 'the string literal %s: %s' % (src, '; '.join(msgs)), where=where)

# ============================================================================ R11.17 ===
# C11 6.4.3: \uXXXX / \UXXXXXXXX name the character with that short identifier.  Permitted names: every value >= 0xA0 outside
# D800..DFFF, and below 0xA0 exactly 0x24 ($), 0x40 (@), 0x60 (`).  (Names the constraint of 6.4.3p2 forbids are not sampled:
# any treatment of them is a treatment of an invalid program.)
UCN_BELOW_A0 = (0x24, 0x40, 0x60)


def ucn_points(maxbits):
    """permitted code points per UTF-8 length class: class bounds, every single payload bit, the bound of the basic range"""
    top = min((1 << maxbits) - 1, 0x10FFFF)
    groups = {'permitted-below-A0': list(UCN_BELOW_A0),
              'first-permitted-A0-to-FF': [0xA0, 0xA1, 0xA9, 0xBF, 0xC0, 0xE9, 0xFE, 0xFF],
              'two-byte': [0x100, 0x101, 0x3B1, 0x7FE, 0x7FF] + [0x100 | (1 << k) for k in range(0, 11) if k != 8] + [0x7FF & ~(1 << k) for k in range(0, 8)],
              'three-byte': [0x800, 0x801, 0x20AC, 0x3042, 0xD7FF, 0xE000, 0xFFFD, 0xFFFE, 0xFFFF] + [0x800 | (1 << k) for k in range(0, 16) if k != 11] + [0x1000, 0x2000, 0x4000, 0x8000]}
    if top > 0xFFFF:
        groups['four-byte'] = [0x10000, 0x10001, 0x1F363, 0x10FFFE, 0x10FFFF] + [0x10000 | (1 << k) for k in range(0, 16)] + [1 << k for k in range(17, 21)]
    for g in groups:
        groups[g] = sorted(set(c for c in groups[g] if c <= top and not 0xD800 <= c <= 0xDFFF and (c >= 0xA0 or c in UCN_BELOW_A0)))
    return groups


def _ucn_replace(P, u, data):
    """convert_universal_chars on the NUL-terminated buffer `data`: the bytes it leaves, or None"""
    it = L.CInterp(P, u, {'models': L.make_models()})
    p = L.cstring(data)
    ctx, out = L.run1(it, 'convert_universal_chars', [p])
    if out[0] != 'ret':
        return None
    try:
        return bytes(L.cbytes(p))
    except Exception:
        return None


def r1117(P, u, rep):
    fn = 'convert_universal_chars'
    _need(u, fn, 'tokenize_file')
    rep.rule('R11.17', 'universal character names: every \\uXXXX and \\UXXXXXXXX that C11 6.4.3 permits (values >= 0xA0 outside the surrogates, and $ @ ` below) is replaced by the '
             'UTF-8 form of exactly the named character, with hex digits of either case, wherever it stands in the text; string literals and character constants of every '
             'prefix then hold the named character', floor=19)
    where = _where(u, fn)
    n = 0
    for form, digits, bits in (('u4', 4, 16), ('U8', 8, 32)):
        for g, pts in sorted(ucn_points(bits).items()):
            ok, msg = True, ''
            for c in pts:
                for spell in ('%0*X', '%0*x'):
                    name = ('\\u' if digits == 4 else '\\U') + spell % (digits, c)
                    n += 1
                    for pre, post in ((b'a', b'z'), (b'', b'')):
                        got = _ucn_replace(P, u, pre + name.encode() + post)
                        want = pre + bytes(utf8_oracle(c)) + post
                        if got != want and ok:
                            ok = False
                            msg = 'the universal character name %s in the text `%s` is %s; C11 6.4.3 / 5.1.1.2: it names U+%04X%s, whose UTF-8 form is %s' % (
                                name, (pre + name.encode() + post).decode(), 'left as `%s`: the literal readers then see the backslash as an unknown escape and keep the letter and the digits as %d separate characters' % (
                                    got.decode('utf-8', 'replace'), digits + 1) if got == pre + name.encode() + post else ('replaced by the bytes %s' % (' '.join('%02X' % b for b in got[len(pre):len(got) - len(post)]) if got is not None else 'nothing (no result)')),
                                c, ' (`%s`, one of the three characters below 0xA0 that 6.4.3p2 allows)' % chr(c) if c < 0xA0 else '', ' '.join('%02X' % b for b in utf8_oracle(c)))
            rep.ob('R11.17', '%s:%s:%s/%s' % (TU, fn, form, g), ok, msg, where=where)
    if n < 250:
        raise AnalysisBroken('universal character name sample set collapsed')
    # position and neighbourhood: names next to each other, next to an escaped backslash, mixed digit case, at the end of the buffer
    ok, msg = True, ''
    for data, want in ((b'\\u00e9\\u00E9', b'\xc3\xa9\xc3\xa9'), (b'\\u0040\\U00000024\\u0060', b'@$`'), (b'x\\uAbCdy', b'x\xea\xaf\x8dy'), (b'\\U0001f363\\u3042', b'\xf0\x9f\x8d\xa3\xe3\x81\x82'),
                       (b'\\\\\\u00e9', b'\\\\\xc3\xa9'), (b'\\\\u00e9', b'\\\\u00e9'), (b'\\n\\u00e9\\t', b'\\n\xc3\xa9\\t'), (b'u00e9 U0001F363', b'u00e9 U0001F363')):
        got = _ucn_replace(P, u, data)
        if got != want and ok:
            ok, msg = False, 'the text `%s` becomes %r; expected %r (each universal character name replaced by its character, everything else kept)' % (data.decode(), got, want)
    rep.ob('R11.17', '%s:%s:names-in-sequence' % (TU, fn), ok, msg, where=where)
    # the three characters below 0xA0, through the whole pipeline, in every kind of literal
    wf = _where(u, 'tokenize_file')
    for name, src, base, units in (('string', '"\\u0040\\u0024\\U00000060"', CHAR, [0x40, 0x24, 0x60]), ('u8-string', 'u8"a\\u0040"', CHAR, [0x61, 0x40]),
                                   ('utf16-string', 'u"\\u0040x"', USHORT, [0x40, 0x78]), ('utf32-string', 'U"\\U00000024"', UINT_T, [0x24]), ('wide-string', 'L"\\u0060\\u00a0"', INT_T, [0x60, 0xA0])):
        good, what = check_string(P, u, (src + '\n').encode(), base, units, via_file=True)
        rep.ob('R11.17', '%s:tokenize_file:permitted-below-A0/%s' % (TU, name), good,
               'the literal %s becomes %s; C11 6.4.3 / 6.4.5: an array of %s holding %s' % (src, what, TYNAME[base], fmt_units(units + [0])), where=wf)
    for name, src, ty, val in (('char', "'\\u0024'", INT_T, 0x24), ('utf16-char', "u'\\u0040'", USHORT, 0x40), ('utf32-char', "U'\\U00000060'", UINT_T, 0x60), ('wide-char', "L'\\u0060'", INT_T, 0x60)):
        lx = lex(P, u, (src + '\n').encode(), via_file=True)
        ok, what = True, ''
        if lx.failed or lx.kinds(u) != ['TK_NUM', 'TK_EOF']:
            ok, what = False, lx.describe(u)
        else:
            t = lx.toks[0]
            sig = L.type_sig(lx.it, t.fields.get('ty', 0))
            if sig != ty or t.fields.get('val') != val:
                ok, what = False, 'a constant of type %s with value %r' % (CTYNAME.get(sig, sig), t.fields.get('val'))
        rep.ob('R11.17', '%s:tokenize_file:permitted-below-A0/%s' % (TU, name), ok,
               'the character constant %s becomes %s; C11 6.4.3 / 6.4.4.4: type %s, value %d' % (src, what, CTYNAME[ty], val), where=wf)


# ============================================================================ R11.18 ===
def r1118(P, rep):
    from ..report import Report, reissue
    from . import c07
    rep.rule('R11.18', 'a floating constant has ONE value, that of its type (C11 6.4.4.2p4, p5): where the constant folder evaluates the literal (static initialisers, enum values, array sizes, '
             'case labels) it rounds Token.fval / Node.fval to the literal\'s type exactly once, as the generated code does, and returns it in a type that holds a long double '
             '(same obligations as C07 R07.13, literal arm and return type)', floor=4)
    sub = Report('C07')
    c07.r0713(c07.Folder(P), P, sub)
    n = reissue(rep, 'R11.18', sub, 'a floating constant would have another value in a constant expression than at run time: ',
                keep=lambda o: o['key'].startswith('R07.13:') and (':eval_double:ND_NUM' in o['key'] or ':eval_double:return-type' in o['key']))
    if n == 0:
        rep.undecided('R11.18', 'parse.c:eval_double:ND_NUM', 'C07 R07.13 issues no obligation for the literal arm of eval_double any more')


# ============================================================================ R11.19 ===
# A literal has the value of its SPELLING (C11 6.4.3, 6.4.4, 6.4.5); where the spelling entered the compiler is not an input of
# that value.  Text enters in two ways: as a file (tokenize_file, which runs the text phases of 5.1.1.2 and then tokenize) and
# as the line `name body` that define_macro() makes from a -D option (which has to do for itself what it needs of those phases).
# Decided differentially: define_macro is interpreted on concrete (name, body) pairs up to the reader of #define (cut: what it
# makes of the tokens is C09/C10's subject); the tokens it hands over must be the tokens tokenize_file makes of the same line.
DEFINE_READER = 'read_macro_definition'


def _m_format(it, ctx, n, a):
    """strings.c format(): the text printf prints, for formats whose only conversions are %s and %%"""
    from ..interp import Unsupported
    fmt = bytes(L.cbytes(a[0]))
    out, i, k = b'', 0, 1
    while i < len(fmt):
        if fmt[i:i + 1] != b'%':
            out += fmt[i:i + 1]
            i += 1
            continue
        c = fmt[i + 1:i + 2]
        if c == b'%':
            out += b'%'
        elif c == b's' and k < len(a):
            out += bytes(L.cbytes(a[k]))
            k += 1
        else:
            raise Unsupported('format(): conversion %r is not modelled' % c)
        i += 2
    return L.cstring(out)


def _tok_sig(lx_it, u, t):
    """what a token is for the rest of the compiler: kind, spelling, type, value, code units"""
    names = {v: k for k, v in u.enums.items() if k.startswith('TK_')}
    kind = names.get(t.fields.get('kind', 0), '?')
    sig = L.type_sig(lx_it, t.fields.get('ty', 0))
    units = None
    if kind == 'TK_STR' and sig and sig[0] == 'TY_ARRAY' and isinstance(sig[1], int) and sig[2] and sig[2][1] in (1, 2, 4) and 0 < sig[1] < 4096:
        raw = L.buf_bytes(t.fields.get('str', 0), sig[1])
        if raw is not None:
            esz = sig[2][1]
            units = tuple(int.from_bytes(bytes(raw[i:i + esz]), 'little') for i in range(0, len(raw), esz))
    val = t.fields.get('val') if kind == 'TK_NUM' else None
    return (kind, L.tok_text(t), sig, val if isinstance(val, int) else None, units)


def _show(bs):
    """bytes of the compiler's buffers as message text: UTF-8 where it is, control characters (a NUL inside a rewritten buffer) escaped"""
    return ''.join(c if c >= ' ' and c != '\x7f' else '\\x%02x' % ord(c) for c in (bs or b'').decode('utf-8', 'replace'))


def _fmt_sig(s):
    kind, text, sig, val, units = s
    d = '%s `%s`' % (kind[3:], _show(text))
    if units is not None:
        d += ' = %s' % fmt_units(list(units))
    elif val is not None:
        d += ' = %#x' % (val & 0xffffffffffffffff)
    return d


def define_macro_tokens(P, pu, name, body):
    """tokens define_macro(name, body) hands to the reader of #define: ('ok', [sig...]) | ('error', text) | raises AnalysisBroken"""
    from ..interp import Unsupported
    box = {}

    def reader(it, ctx, n, a):
        box.setdefault('toks', []).append(a[1] if len(a) > 1 else None)
        return None
    it = L.CInterp(P, pu, {'models': L.make_models(extra={'format': _m_format}), 'cut': {DEFINE_READER: reader}})
    try:
        ctx, out = L.run1(it, 'define_macro', lambda ctx: [L.cstring(name), L.cstring(body)])
    except Unsupported as e:
        raise AnalysisBroken('define_macro cannot be followed on a concrete name and body: %s' % e)
    if out[0] == 'crash':
        return ('error', 'a %s inside the compiler at %s' % (out[1], out[2]))
    if out[0] != 'ret':
        return ('error', 'the diagnostic "%s"' % (out[2][1] if len(out) > 2 and len(out[2]) > 1 else out[1],))
    if len(box.get('toks', [])) != 1 or box['toks'][0] is None:
        raise AnalysisBroken('define_macro does not hand one token list to %s() (%d calls)' % (DEFINE_READER, len(box.get('toks', []))))
    tu = P.unit(TU)
    return ('ok', [_tok_sig(it, tu, t) for t in L.tokens(it, box['toks'][0])])


def r1119(P, u, rep):
    from ..report import Report, reissue
    fn = 'define_macro'
    pu = P.unit(PU)
    _need(pu, fn, DEFINE_READER)
    _need(u, 'tokenize_file', 'tokenize')
    if not any(f != fn and fd.calls(DEFINE_READER) for f, fd in pu.functions.items()):
        raise AnalysisBroken('%s() is no longer the function a #define directive is read with' % DEFINE_READER)
    rep.rule('R11.19', 'a literal has the value of its spelling wherever the spelling entered the compiler: the line `name body` of a -D option reaches the reader of #define as the tokens '
             '(kind, spelling, type, value, code units) that the same line has as the text of a file - universal character names in string literals and character constants of every '
             'prefix, in identifiers and in the macro name are decoded, escapes, raw UTF-8 text and numbers are read alike (C11 6.4.3, 6.4.4.4, 6.4.5; the option stands for the '
             'directive); includes the universal-character clauses of C10 R10.11', floor=16)
    where = _where(pu, fn)
    e9 = [0xC3, 0xA9]
    # (key, name, body, expected code units / value of the first body token where the case is about one literal, or None)
    cases = [
        ('string-ucn', b'MSG', b'"caf\\u00e9"', ('units', [0x63, 0x61, 0x66] + e9 + [0])),
        ('string-ucn-U8', b'MSG', b'"\\U0001F363\\U000000e9"', ('units', [0xF0, 0x9F, 0x8D, 0xA3] + e9 + [0])),
        ('u8-string-ucn', b'MSG', b'u8"\\u3042x"', ('units', [0xE3, 0x81, 0x82, 0x78, 0])),
        ('utf16-string-ucn-surrogates', b'U16', b'u"\\U0001F363\\u20ac"', ('units', [0xD83C, 0xDF63, 0x20AC, 0])),
        ('utf32-string-ucn', b'U32', b'U"\\U0001F363\\u00e9"', ('units', [0x1F363, 0xE9, 0])),
        ('wide-string-ucn', b'WS', b'L"\\u20ac\\U00010000"', ('units', [0x20AC, 0x10000, 0])),
        ('char-ucn-below-A0', b'C', b"'\\u0040'", ('val', 0x40)),
        ('utf16-char-ucn', b'C16', b"u'\\u20ac'", ('val', 0x20AC)),
        ('utf32-char-ucn', b'C32', b"U'\\U0001F363'", ('val', 0x1F363)),
        ('wide-char-ucn', b'WC', b"L'\\u20ac'", ('val', 0x20AC)),
        ('identifier-ucn', b'ID', b'x\\u00e9y \\U000000e9', None),
        ('name-ucn', b'\\u00e9t\\u00E9', b'1', None),
        ('function-like-name-ucn', b'F(\\u00e9)', b'\\u00e9+"\\u00e9"', None),
        ('ucn-after-escaped-backslash', b'MSG', b'"\\\\\\u00e9" "\\\\u00e9"', None),
        ('several-literals', b'M', b'"\\u00e9" u"\\u00e9" \'\\u0024\' L"\\u00e9" x "\\u00E9"', None),
        ('escapes', b'MSG', b'"a\\n\\x41\\101\\"\\\\" \'\\\'\' L\'\\xfffffff0\' u"\\xbeef"', None),
        ('utf8-text', b'MSG', b'"caf\xc3\xa9" u"\xf0\x9f\x8d\xa3" U\'\xe3\x81\x82\' \xc3\xa9t\xc3\xa9', None),
        ('numbers', b'N', b'0x7fffffff 4294967296u 1.5e+3f 0x1p-2 017 .5L', None),
        ('empty-body', b'E', b'', None),
    ]
    concrete_ok = True
    for key, name, body, want in cases:
        line = name + b' ' + body + b'\n'
        k = '%s:%s:same-tokens-as-file-text/%s' % (PU, fn, key)
        shown = "-D'%s=%s'" % (name.decode('utf-8', 'replace'), body.decode('utf-8', 'replace'))
        ref = lex(P, u, line, via_file=True)
        if ref.failed:
            raise AnalysisBroken('tokenize_file rejects the reference line %r (%s)' % (line, ref.describe(u)))
        ref_sigs = [_tok_sig(ref.it, u, t) for t in ref.toks]
        got = define_macro_tokens(P, pu, name, body)
        ok, msg = True, ''
        if got[0] != 'ok':
            ok, msg = False, '%s ends in %s; as the text of a file the line `%s` is tokenized as %s' % (shown, got[1], line.decode('utf-8', 'replace').strip(), ref.describe(u))
        elif got[1] != ref_sigs:
            ok = False
            diff = [(a, b) for a, b in zip(got[1], ref_sigs) if a != b]
            if diff:
                a, b = diff[0]
                detail = 'the reader of #define receives %s where the same line as the text of a file (`#define %s`) gives %s' % (_fmt_sig(a), line.decode('utf-8', 'replace').strip(), _fmt_sig(b))
                if b'\\u' in (a[1] or b'').lower() and b'\\u' not in (b[1] or b'').lower():
                    detail += ': the universal character name is not decoded (C11 6.4.3), the literal readers then take the backslash as an unknown escape and keep the letter and the hex digits as separate characters'
            else:
                detail = 'the reader of #define receives %d tokens, the same line as the text of a file has %d' % (len(got[1]), len(ref_sigs))
            msg = '%s: %s; one translation unit then holds two values for one literal spelling' % (shown, detail)
        elif want is not None:
            # the agreeing pair must also be RIGHT for the literal the case is about (second token: the first is the macro name)
            s = got[1][1] if len(got[1]) > 1 else None
            have = (list(s[4]) if s[4] is not None else None) if (s and want[0] == 'units') else (s[3] if s else None)
            if have != want[1]:
                ok = False
                msg = '%s: the literal becomes %s, both from the option and from a file; C11 6.4.3: %s' % (
                    shown, _fmt_sig(s) if s else 'no token', fmt_units(want[1]) if want[0] == 'units' else '%#x' % want[1])
        rep.ob('R11.19', k, ok, msg, where=where)
        concrete_ok = concrete_ok and ok
    # the symbolic statement of the same clause (all names and bodies, not only the samples): C10 R10.11, clauses on \u/\U decoding
    from . import c10
    sub = Report('C10')
    try:
        c10.r1011_define_option(P, sub)
    except Exception as e:      # another module's rule failing must not take this rule's own verdicts with it
        rep.undecided('R11.19', '%s:%s:R10.11' % (PU, fn), 'C10 R10.11 could not be evaluated: %s' % e, where=where)
        return
    keep = lambda o: o['key'].startswith('R10.11:') and 'ucn-decoded-like-file-text' in o['key']
    if concrete_ok:
        # R10.11 follows the line through strdup()/format() and the decoder call symbolically; the concrete runs above follow the real data flow.  Where
        # every concrete name and body IS decoded but R10.11 does not see the decoding (it went another way than R10.11 can follow), the clause is not
        # decided for all texts: undecided, not a violation
        for o in sub.obs:
            if keep(o) and o['verdict'] not in ('holds', 'known-finding', 'undecided'):
                o['verdict'] = 'undecided'
                o['what'] = 'every sampled -D name and body reaches the reader of #define decoded, but the decoding is not seen for all texts: ' + o['what']
    n = reissue(rep, 'R11.19', sub, 'a universal character name would then have another value in a -D macro body than in a file: ', keep=keep)
    if n == 0:
        rep.undecided('R11.19', '%s:%s:R10.11' % (PU, fn), 'C10 R10.11 issues no obligation about the \\u/\\U decoding of the -D line any more', where=where)


# ============================================================================ R11.20 ===
# C11 6.4.4p2 (constraint): the value of a constant shall be in the range of representable values for its type; 6.4.4.1p6: an
# integer constant that fits no type of its list has no type; 6.4.4.4p9 (constraint): the value of an octal or hexadecimal
# escape sequence shall be in the range of the unsigned type corresponding to the literal's element type.  A violated
# constraint needs a diagnostic (5.1.1.3): a reader that keeps the low bits (or a saturated value) silently gives the program
# a value its text does not have.  "Diagnosed" = the reader ends in error()/error_at()/error_tok() or calls a function of
# tokenize.c that prints through verror_at (warn_tok) / writes to a stream.
STREAM_WRITERS = ('fprintf', 'vfprintf', 'fputs', 'fputc', 'fwrite')


def _diagnostic_printers(P):
    return L.diagnostic_printers(P)


def _diagnosed(lx_ctx, out, printers):
    if out[0] == 'noreturn':
        return True
    if out[0] != 'ret':
        return False
    return any(e[0] == 'call' and (e[1] in printers or e[1] in STREAM_WRITERS or e[1] == 'verror_at') for e in lx_ctx.events)


def r1120(P, u, rep):
    fn = 'tokenize'
    _need(u, fn, 'convert_pp_number', 'read_escaped_char')
    rep.rule('R11.20', 'a constant or escape sequence whose value is not representable is diagnosed, never silently reduced: octal/hexadecimal escapes above the range of the element type of '
             'the string literal or character constant they stand in (char 0xFF, char16_t 0xFFFF, char32_t/wchar_t 0xFFFFFFFF; C11 6.4.4.4p9), integer constants of 2^64 and above in every '
             'base and with every suffix, and decimal constants without u suffix from 2^63 (no type of the list of 6.4.4.1p5 holds them; 6.4.4p2, 6.4.4.1p6); the largest representable '
             'spelling of each kind is accepted without a diagnostic', floor=17)
    printers = _diagnostic_printers(P)
    cfg = {'opaque': list(printers) + list(STREAM_WRITERS) + ['verror_at']}
    where = _where(u, 'read_escaped_char')
    z = '0' * 12
    # (key, source, range text, value the text names)
    esc_bad = [
        ('string/octal-400', '"\\400"', 'char: 0..0xFF', 0o400), ('string/octal-777', '"a\\777b"', 'char: 0..0xFF', 0o777), ('string/hex-100', '"\\x100"', 'char: 0..0xFF', 0x100),
        ('string/hex-many-digits', '"\\x%s141"' % z, 'char: 0..0xFF', 0x141), ('u8-string/hex-100', 'u8"\\x100"', 'char: 0..0xFF', 0x100), ('u8-string/octal-400', 'u8"\\400"', 'char: 0..0xFF', 0o400),
        ('utf16-string/hex-10000', 'u"\\x10000"', 'char16_t: 0..0xFFFF', 0x10000), ('utf16-string/hex-12345', 'u"a\\x12345"', 'char16_t: 0..0xFFFF', 0x12345),
        ('utf32-string/hex-100000000', 'U"\\x100000000"', 'char32_t: 0..0xFFFFFFFF', 1 << 32), ('utf32-string/hex-17-digits', 'U"\\x10000000000000041"', 'char32_t: 0..0xFFFFFFFF', (1 << 64) + 0x41),
        ('wide-string/hex-100000000', 'L"\\x100000000"', 'wchar_t: 32 bits', 1 << 32), ('wide-string/hex-123456789', 'L"z\\x123456789"', 'wchar_t: 32 bits', 0x123456789),
        ('char/octal-400', "'\\400'", 'char: 0..0xFF', 0o400), ('char/hex-100', "'\\x100'", 'char: 0..0xFF', 0x100), ('char/hex-12345', "'\\x12345'", 'char: 0..0xFF', 0x12345),
        ('utf16-char/hex-10000', "u'\\x10000'", 'char16_t: 0..0xFFFF', 0x10000), ('utf16-char/hex-12345', "u'\\x12345'", 'char16_t: 0..0xFFFF', 0x12345),
        ('utf32-char/hex-100000000', "U'\\x100000000'", 'char32_t: 0..0xFFFFFFFF', 1 << 32), ('utf32-char/hex-17-digits', "U'\\x10000000000000041'", 'char32_t: 0..0xFFFFFFFF', (1 << 64) + 0x41),
        ('wide-char/hex-100000000', "L'\\x100000000'", 'wchar_t: 32 bits', 1 << 32), ('wide-char/hex-123456789', "L'\\x123456789'", 'wchar_t: 32 bits', 0x123456789),
    ]
    groups = {}
    for key, src, rng, val in esc_bad:
        kind = key.split('/')[0]
        cur = groups.setdefault(kind, [True, ''])
        lx = lex(P, u, src + '\n', cfg=cfg)
        if lx.crash:
            raise AnalysisBroken('tokenize(%s): %s' % (src, lx.describe(u)))
        if _diagnosed(lx.ctx, lx.out, printers) or not cur[0]:
            continue
        what = 'nothing'
        t = lx.toks[0] if lx.toks else None
        if t is not None and lx.kinds(u)[0] == 'TK_STR':
            st = str_token(lx, t)
            what = 'an array holding %s' % fmt_units(st[1]) if st else 'a string token'
        elif t is not None:
            v = t.fields.get('val')
            what = 'the constant %s' % ('%#x' % (v & 0xffffffffffffffff) if isinstance(v, int) else repr(v))
        cur[0] = False
        cur[1] = ('%s is accepted without a diagnostic and becomes %s: the escape names the value %#x, outside the range of the element type (%s); C11 6.4.4.4p9 is a constraint '
                  '(gcc: "escape sequence out of range")' % (src, what, val, rng))
    if len(groups) < 9:
        raise AnalysisBroken('escape sample set collapsed')
    for kind, (ok, msg) in sorted(groups.items()):
        rep.ob('R11.20', '%s:%s:escape-out-of-range-diagnosed/%s' % (TU, fn, kind), ok, msg, where=where)
    esc_good = ['"\\377\\xff\\0"', 'u8"\\xff"', 'u"\\xffff"', 'U"\\xffffffff"', 'L"\\xffffffff"', "'\\377'", "'\\xff'", "u'\\xffff'", "U'\\xffffffff'", "L'\\xffffffff'",
                "L'\\x%sffffffff'" % z, '"\\x%sff"' % z]
    ok, msg = True, ''
    for src in esc_good:
        lx = lex(P, u, src + '\n', cfg=cfg)
        if (lx.failed or _diagnosed(lx.ctx, lx.out, printers)) and ok:
            ok, msg = False, '%s (every escape within the range of its element type) is %s' % (src, ('rejected: ' + lx.describe(u)) if lx.failed else 'diagnosed')
    rep.ob('R11.20', '%s:%s:escape-in-range-accepted-silently' % (TU, fn), ok, msg, where=where)

    # integer constants
    wi = _where(u, 'convert_pp_int')
    tk_pp = u.enums.get('TK_PP_NUM', 0)

    def conv(text):
        it = L.CInterp(P, u, dict(cfg, models=L.make_models()))
        box = {}

        def mk(ctx):
            t = Obj('Token', lazy=False, label='tok')
            t.fields['loc'] = L.cstring(text + ' ;')
            t.fields['len'] = len(text)
            t.fields['kind'] = tk_pp
            t.fields['line_no'] = 1
            f = Obj('File', lazy=False)
            f.fields['name'] = 'x.c'
            f.fields['contents'] = t.fields['loc']
            t.fields['file'] = f
            box['t'] = t
            return [t]
        ctx, out = L.run1(it, 'convert_pp_number', mk)
        return it, ctx, out, box['t']
    two64 = 1 << 64
    big = [('decimal', '%d' % two64), ('decimal-u', '%du' % two64), ('decimal-ul', '%dUL' % (two64 + 12345)), ('decimal-ull', '99999999999999999999999ull'), ('decimal-ll', '%dll' % two64),
           ('hex', '0x1%s' % ('0' * 16)), ('hex-u', '0xffffffffffffffff0u'), ('hex-l', '0X1%sL' % ('0' * 16)), ('hex-ull', '0x123456789abcdef01ull'),
           ('octal', '02%s' % ('0' * 21)), ('octal-u', '0%ou' % (two64 * 8 + 1)), ('binary', '0b1%s' % ('0' * 64)), ('binary-ul', '0B1%s1ul' % ('0' * 64))]
    groups = {}
    for key, text in big:
        cur = groups.setdefault(key.split('-')[0], [True, ''])
        it, ctx, out, t = conv(text)
        if _diagnosed(ctx, out, printers) or not cur[0]:
            continue
        v = t.fields.get('val')
        fl = t.fields.get('fval')
        sig = L.type_sig(it, t.fields.get('ty', 0))
        became = 'the floating constant %r' % (fl,) if sig and sig[0] in ('TY_DOUBLE', 'TY_FLOAT', 'TY_LDOUBLE') else \
            'the value %s of type %s' % ((v & (two64 - 1)) if isinstance(v, int) else repr(v), TYN.get(sig, sig))
        cur[0] = False
        cur[1] = ('the integer constant %s is accepted without a diagnostic and becomes %s; no integer type holds its value: C11 6.4.4p2 is a constraint, and a conversion that saturates '
                  '(strtoul returns ULONG_MAX and sets errno to ERANGE) gives the program a value its text does not have (gcc: "integer constant is too large for its type")' % (text, became))
    if len(groups) < 4:
        raise AnalysisBroken('integer sample set collapsed')
    for base_, (ok, msg) in sorted(groups.items()):
        rep.ob('R11.20', '%s:convert_pp_int:integer-constant-above-64-bits-diagnosed/%s' % (TU, base_), ok, msg, where=wi)
    notype = [('no-suffix', '9223372036854775808'), ('no-suffix', '18446744073709551615'), ('l-suffix', '9223372036854775808l'), ('l-suffix', '12345678901234567890LL')]
    groups = {}
    for key, text in notype:
        cur = groups.setdefault(key, [True, ''])
        it, ctx, out, t = conv(text)
        if _diagnosed(ctx, out, printers) or not cur[0]:
            continue
        sig = L.type_sig(it, t.fields.get('ty', 0))
        v = t.fields.get('val')
        cur[0] = False
        cur[1] = ('the decimal constant %s is accepted without a diagnostic as a constant of type %s with value %s; the list of C11 6.4.4.1p5 for a decimal constant without u ends at long long, '
                  'which does not hold it: the constant has no type (6.4.4.1p6, constraint 6.4.4p2; gcc: "integer constant is so large that it is unsigned")' % (
                      text, TYN.get(sig, sig), (v - two64 if isinstance(v, int) and v >= 1 << 63 else v)))
    for key, (ok, msg) in sorted(groups.items()):
        rep.ob('R11.20', '%s:convert_pp_int:decimal-constant-above-long-diagnosed/%s' % (TU, key), ok, msg, where=wi)
    ok, msg = True, ''
    for text, val, ty in (('18446744073709551615u', two64 - 1, ULONG), ('0xffffffffffffffff', two64 - 1, ULONG), ('01777777777777777777777', two64 - 1, ULONG),
                          ('9223372036854775807', (1 << 63) - 1, LONG), ('0b%s' % ('1' * 64), two64 - 1, ULONG), ('0x%sffffffffffffffffull' % z, two64 - 1, ULONG),
                          ('18446744073709551615ULL', two64 - 1, ULONG), ('0x8000000000000000', 1 << 63, ULONG), ('9223372036854775807l', (1 << 63) - 1, LONG)):
        it, ctx, out, t = conv(text)
        v = t.fields.get('val')
        sig = L.type_sig(it, t.fields.get('ty', 0))
        bad = out[0] != 'ret' or _diagnosed(ctx, out, printers) or not isinstance(v, int) or (v & (two64 - 1)) != val or sig != ty
        if bad and ok:
            ok, msg = False, 'the integer constant %s (representable: value %d, type %s) %s' % (text, val, TYN[ty], 'is rejected' if out[0] != 'ret' else (
                'is diagnosed' if _diagnosed(ctx, out, printers) else 'becomes %r of type %s' % (v, TYN.get(sig, sig))))
    rep.ob('R11.20', '%s:convert_pp_int:largest-representable-accepted-silently' % TU, ok, msg, where=wi)


# ============================================================================ R11.21 ===
# C11 6.4.4.1p5 gives every integer constant the first type of its list that holds its value; 6.10.1p4 keeps that rule inside #if with one
# change: "all signed integer types and all unsigned integer types act as if they have the same representation as, respectively, intmax_t
# and uintmax_t".  The list of a constant then has one signed and one unsigned entry: a constant is unsigned in a controlling expression iff
# it has a u suffix, or is not decimal and does not fit intmax_t (decimal constants from 2^63 without u have no type: R11.20).  What the
# constant folder of #if sees is decided by C10 R10.13 (eval_const_expr interpreted up to the call of const_expr, the types of the number
# tokens read off there); that rule function is run here on the whole grid base x suffix class x magnitude class of R11.1, each probe
# carrying the C type the ladder gives it outside #if.
def _if_grid():
    """[(class name, 'number', global of the C type, (spellings), (size, unsigned) wanted in #if)]"""
    gname = {INT: 'ty_int', UINT: 'ty_uint', LONG: 'ty_long', ULONG: 'ty_ulong'}
    vals = (0x7fffffff, 0xffffffff, 0x7fffffffffffffff, 0xffffffffffffffff)      # the largest value of each magnitude class
    lows = (1, 0x80000000, 0x100000000, 0x8000000000000000)                        # and the smallest (1 for the first: 0 would be octal)
    out = []
    for bname, fmt, decimal in (('decimal', '%d', True), ('hex', '0x%X', False), ('octal', '0%o', False), ('binary', '0b%s', False)):
        for sname, sufs, l, uu in (('nosuffix', ('',), 0, 0), ('u', ('u', 'U'), 0, 1), ('l', ('l', 'LL'), 1, 0), ('ul', ('ul', 'LLU'), 1, 1)):
            for m, (mname, _lo, _hi) in enumerate(MAGS):
                cty = ladder_oracle(decimal, l, uu, m)
                if cty is None:
                    continue        # no type: diagnosed (R11.20)
                want = (8, 1) if (uu or (not decimal and m == 3)) else (8, 0)
                sp = []
                for v, suf in zip((vals[m], lows[m]), (sufs[0], sufs[-1])):
                    digits = bin(v)[2:] if fmt == '0b%s' else None
                    sp.append((fmt % (digits if digits is not None else v)) + suf)
                out.append(('%s-%s-%s' % (bname, sname, mname.replace('^', 'p').replace('..', '-to-').replace('<', 'below-').replace('>=', 'from-')), 'number', gname[cty], tuple(sp), want))
    return out


def r1121(P, rep):
    from ..report import Report, reissue
    from . import c10
    rep.rule('R11.21', 'an integer constant in a controlling expression of #if/#elif has the type of the C11 6.4.4.1p5 ladder with every signed type read as intmax_t and every unsigned type as '
             'uintmax_t (6.10.1p4): for every base x suffix class x magnitude class it reaches the constant folder with an 8-byte type that is unsigned iff the constant has a u suffix or is '
             'a hexadecimal/octal/binary constant of 2^63 and above; the value of a literal in #if is then the value it has in the program text (C10 R10.13 on the grid of R11.1)', floor=40)
    pu = P.unit(PU)
    if 'eval_const_expr' not in pu.functions:
        raise AnalysisBroken('anchor eval_const_expr vanished')
    for need in ('register_nested_enums', 'Toks', '_IF_OPERAND_CLASSES', 'r1013_if_operand_types'):
        if not hasattr(c10, need):
            raise AnalysisBroken('C10 does not provide %s any more' % need)
    c10.register_nested_enums(pu)
    T = c10.Toks(pu)
    sub = Report('C10')
    saved = c10._IF_OPERAND_CLASSES
    grid = _if_grid()
    try:
        c10._IF_OPERAND_CLASSES = tuple(grid) + tuple(c for c in saved if c[1] == 'charconst')
        c10.r1013_if_operand_types(P, pu, T, sub)
    except AnalysisBroken:
        raise
    except Exception as e:      # another module's rule failing must not take this module's other verdicts with it
        raise AnalysisBroken('C10 R10.13 could not be evaluated: %r' % (e,))
    finally:
        c10._IF_OPERAND_CLASSES = saved
    n = reissue(rep, 'R11.21', sub, 'the same spelling would then have another type, and with it another value in sign-sensitive operations (< > >> / %), in #if than in the program text: ',
                keep=lambda o: o['key'].startswith('R10.13:'), prefix_rule=False)
    if n < len(grid):
        rep.undecided('R11.21', '%s:eval_const_expr:if-operand/grid' % PU, 'C10 R10.13 issued %d obligations for a grid of %d classes of integer constants' % (n, len(grid)))


# ============================================================================ R11.22 ===
# The value and the verdict (accepted / "too large") of a constant are functions of its spelling (C11 6.4.4.1, 6.4.4.2).  The conversion
# functions of the library report a range error only through errno and never clear it (ISO C 7.22.1.3p10, 7.22.1.4p8, 7.5p3): a reader that
# tests errno after a conversion without having set it to zero directly before that conversion reads what an EARLIER call left there, for
# instance the ERANGE of a valid subnormal floating constant (1e-42f) a few tokens before.  Two halves:
#  (a) flow (lib_c11errno): in every function of every unit, a read of errno that on every path follows a conversion (strto*, wcsto*) with
#      no other library call in between must on every path have `errno = 0` before that conversion with no library call in between;
#  (b) run: convert_pp_number on representable integer and floating constants, started with ERANGE (and EINVAL) in errno, must yield the
#      token (kind, type, value) and the silence of the run started with errno 0.
def r1122(P, u, rep):
    from .. import lib_c11errno as EN
    rep.rule('R11.22', 'the verdict on a constant depends on its spelling only, not on what an earlier library call left in errno: every read of errno that follows a numeric conversion '
             '(strtoul, strtod ...) is preceded on every path by `errno = 0` directly before that conversion (no call that may set errno in between; ISO C 7.5p3, 7.22.1.4p8), in every '
             'function of every unit; and convert_pp_number started with a stale ERANGE/EINVAL in errno yields the same token, silently, as started with 0', floor=3)
    found, nconv, prog = EN.analyse(P)
    if nconv == 0:
        rep.undecided('R11.22', '%s:convert_pp_int:errno-after-conversion' % TU, 'no call of a numeric conversion function (strtoul, strtod ...) was found in any unit')
    for (un, fn, convs), (verdict, root, line, st) in sorted(found.items()):
        key = '%s:%s:errno-after-%s' % (un, fn, convs)
        where = '%s:%d' % (un, line)
        if verdict == 'unknown':
            rep.undecided('R11.22', key, 'errno is read after %s(), but whether it was reset before the conversion could not be followed (seen from %s)' % (convs, root), where=where)
            continue
        rep.ob('R11.22', key + ('/reset-directly-before-conversion' if verdict == 'ok' else '/no-reset-before-conversion'), verdict == 'ok',
               '%s() reads errno after %s(), but on a path to that conversion (entered through %s) errno was not set to 0 after the last call that may have set it: %s() never clears errno, so '
               'an ERANGE left by an earlier conversion (a valid subnormal or overflowing floating constant such as 1e-42f, an earlier out-of-range constant) is taken for a range error of '
               'THIS constant: the verdict on a literal then depends on the literals before it' % (fn, convs, root, convs), where=where, facts={'state': st})
    # (b)
    printers = _diagnostic_printers(P)
    cfg = {'opaque': list(printers) + list(STREAM_WRITERS) + ['verror_at']}
    tk_pp = u.enums.get('TK_PP_NUM', 0)
    wi = _where(u, 'convert_pp_number')

    def conv(text, errno0):
        it = L.CInterp(P, u, dict(cfg, models=L.make_models(errno0=errno0)))
        box = {}

        def mk(ctx):
            t = Obj('Token', lazy=False, label='tok')
            t.fields['loc'] = L.cstring(text + ' ;')
            t.fields['len'] = len(text)
            t.fields['kind'] = tk_pp
            t.fields['line_no'] = 1
            f = Obj('File', lazy=False)
            f.fields['name'] = 'x.c'
            f.fields['contents'] = t.fields['loc']
            t.fields['file'] = f
            box['t'] = t
            return [t]
        ctx, out = L.run1(it, 'convert_pp_number', mk)
        t = box['t']
        fv = t.fields.get('fval')
        return (out[0], bool(_diagnosed(ctx, out, printers)), t.fields.get('kind'), L.type_sig(it, t.fields.get('ty', 0)),
                t.fields.get('val') if isinstance(t.fields.get('val'), int) else repr(t.fields.get('val')), fval_sig(fv) if fv is not None else None)
    samples = (('integer', ('1', '0', '42u', '0x7fffffff', '017', '0b101', '2147483648', '0xFFFFFFFFFFFFFFFF', '18446744073709551615u', '9223372036854775807', '1ull')),
               # the last four are subnormal / out of the range of their type: whether those are diagnosed is not this rule's subject
               ('floating', ('1.0', '.5f', '1e10', '0x1p-3', '99999999999999999999.0', '18446744073709551616e0', '99999999999999999999.5f', '1.5L',
                             '1e-42f', '1e39f', '4.9406564584124654e-324', '1e-4940L')))
    for cls, texts in samples:
        ok, msg = True, ''
        for i, text in enumerate(texts):
            base = conv(text, 0)
            if base[0] != 'ret' or base[1]:
                if cls == 'integer' or i < 8:
                    if ok:
                        ok, msg = False, ('the %s constant %s (in the range of its type) is %s although errno was 0 when its conversion began: a range error of the integer reading of its '
                                          'digits is taken for one of the constant' % (cls, text, 'rejected' if base[0] != 'ret' else 'diagnosed'))
                continue
            for e0, en in ((L.ERANGE, 'ERANGE'), (22, 'EINVAL')):
                got = conv(text, e0)
                if got != base and ok:
                    ok = False
                    msg = ('the %s constant %s, read while errno still holds %s from an earlier library call, %s; with errno 0 it is accepted silently as %s: the verdict on a constant depends '
                           'on what was converted before it (a valid floating constant such as 1e-42f leaves ERANGE behind)' % (
                               cls, text, en, 'is rejected' if got[0] != 'ret' else ('is diagnosed' if got[1] else 'becomes %r' % (got[2:],)), '%r' % (base[3:],)))
        rep.ob('R11.22', '%s:convert_pp_number:verdict-independent-of-errno-at-entry/%s' % (TU, cls), ok, msg, where=wi)


def run(P, rep, tier):
    u = P.unit(TU)
    rep.explanation = ('The literal readers of tokenize.c/unicode.c/preprocess.c are interpreted (Engine I) on the spellings of the C11 literal grammar. '
                       'Integer constants: digits and suffix concrete, value symbolic, so every path of the type ladder is compared with C11 6.4.4.1p5 on each '
                       'value interval its own decisions distinguish. Escapes, prefixes, UTF-8/UTF-16 codecs, source normalisation, concatenation and the '
                       'pp-number scanner: concrete interpretation on boundary/single-bit code points and on one spelling per grammar alternative. '
                       'End of buffer (R11.12): every cut of every corpus spelling is tokenized as a buffer that ends at its NUL without a newline, with a '
                       'watched red zone behind the terminator: any read behind the terminator is a violation, and tokens/constants must equal those of the '
                       'newline-terminated text. '
                       'Lengths (R11.3, R11.13): hex escapes with every digit count to 40 and samples to 4200, and identifiers, numbers, string literals of every prefix, '
                       'comments, spliced lines and concatenations of up to 4200 characters are run; a limit of any scanner below that is a violation. '
                       'Use of the literal (R11.14, R11.16): parse.c initializer() and primary() are interpreted on the tokens the tokenizer produced; the object initialised '
                       'by a string literal keeps its declared element type, takes its length from the literal when its size is unknown, receives the code units, and a literal '
                       'of another element width is diagnosed; a literal expression has the token\'s type and value. '
                       'Names of the literal types (R11.15): every typedef of wchar_t / char16_t / char32_t (and the atomic_ variants) in the bundled headers, read through '
                       'clang without its predefined macros, is compared with the type of the tokens of L / u / U literals. '
                       'Universal character names (R11.17): convert_universal_chars is run on every permitted name at the bounds and single payload bits of each UTF-8 length '
                       'class, in both forms and digit cases, including the three names below 0xA0 that C11 6.4.3p2 permits ($ @ `), and those three through the whole pipeline in every literal kind. '
                       'Floating constants (R11.10, R11.18): the value stored into the token must be the result of the conversion function of the constant\'s own type (strtof / strtod / strtold) '
                       'on the whole spelling, never narrowed on its way; the folder\'s literal arm rounds to the literal\'s type (C07 R07.13 re-issued). '
                       'Origin of the spelling (R11.19): define_macro is run on concrete -D names and bodies up to the reader of #define; the tokens handed over (kind, spelling, type, value, code units) '
                       'must be those tokenize_file makes of the same line; the \\u/\\U clauses of C10 R10.11 (all texts, symbolically) are re-issued. '
                       'Range (R11.20): escapes above the range of the element type in every kind of literal, integer constants from 2^64 in every base (strtoul modelled with ERANGE), and decimal constants '
                       'without u from 2^63 must end in a diagnostic (error*, or a function of tokenize.c that prints through verror_at and returns); the largest representable spellings must pass silently. '
                       'Constants in #if (R11.21): C10 R10.13 (eval_const_expr interpreted up to the call of const_expr) is run on the grid base x suffix class x magnitude class of R11.1; each constant must arrive with an '
                       '8-byte type that is unsigned iff it has a u suffix or is a non-decimal constant from 2^63. '
                       'errno (R11.22): a flow analysis over the statements of every function of every unit (states of errno: unknown / reset / conversion after reset / conversion without reset; entry state of a function = union over its call sites; '
                       'functions of the program that touch errno are followed into, other library calls make it unknown) demands `errno = 0` directly before each conversion whose errno is read; convert_pp_number is also run with a stale ERANGE/EINVAL in errno. '
                       'pp-number alphabet (R11.23): `1` followed by every digit, letter, underscore and period and then each sign, and each exponent letter followed by every other punctuator, is tokenized; the sign must be absorbed after e E p P only. '
                       'The character functions of <ctype.h> (is*, tolower, toupper, as macros over the glibc tables or as calls) are total python models in the C locale. '
                       'Not decided: strtoul/strtof/strtod/strtold themselves, code points other than the sampled ones, universal character names that 6.4.3p2 forbids.')
    rep.assumptions += ['libc functions behave as ISO C 7.4/7.22/7.24 specify (python models)', 'x86-64: char is signed, LP64',
                        'UTF-8/UTF-16 oracles are python\'s codecs (RFC 3629 / RFC 2781)',
                        'R11.14: declared element types are the type.c objects ty_char/ty_uchar/ty_short/ty_ushort/ty_int/ty_uint; a scanner limit above 4200 characters is not seen']
    _need(u, 'tokenize', 'tokenize_file', 'convert_pp_int', 'convert_pp_number', 'read_escaped_char', 'read_utf16_string_literal')
    for rule, f in (('R11.1', lambda: r111(P, u, rep)), ('R11.3', lambda: r113(P, u, rep)), ('R11.4', lambda: r114(P, rep)),
                    ('R11.5', lambda: r115(P, u, rep)), ('R11.6', lambda: r116(P, u, rep)), ('R11.7', lambda: r117(P, u, rep)),
                    ('R11.8', lambda: r118(P, u, rep)), ('R11.9', lambda: r119(P, u, rep)), ('R11.10', lambda: r1110(P, u, rep)), ('R11.11', lambda: r1111(P, rep)), ('R11.12', lambda: r1112(P, u, rep)),
                    ('R11.13', lambda: r1113(P, u, rep)), ('R11.14', lambda: r1114(P, u, rep)), ('R11.15', lambda: r1115(P, u, rep)), ('R11.16', lambda: r1116(P, u, rep)),
                    ('R11.17', lambda: r1117(P, u, rep)), ('R11.18', lambda: r1118(P, rep)), ('R11.19', lambda: r1119(P, u, rep)), ('R11.20', lambda: r1120(P, u, rep)), ('R11.21', lambda: r1121(P, rep)), ('R11.22', lambda: r1122(P, u, rep)), ('R11.23', lambda: r1123(P, u, rep))):
        try:
            f()
        except AnalysisBroken as e:
            # one rule that cannot be interpreted must not hide the verdicts of the others
            rep.undecided(rule, 'analysis', 'the rule could not be evaluated: %s' % e)
