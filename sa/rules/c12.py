"""C12 Self-hosting fixpoint - determinism clause only (DESIGN.md §3 C12).

The fixpoint itself (stage 2 == stage 1 on every input, stage 2 == stage 3) is an equality of
behaviours of two binaries and is NOT decided here.  Decided: the source-level conditions
under which output depends only on input and options -
  R12.1 who may call time / pid / random / environment / file-metadata sources, and where their
        values may flow,
  R12.2 no address-valued data reaches an output or a hash,
  R12.3 no hash-table iteration outside the table implementation,
  R12.4 numbering sources are static counters changed only by ++,
  R12.5 (lint) chibicc's own sources avoid constructs that known findings say chibicc miscompiles,
  R12.16 the launcher decides on the status of the child it started, whatever other children the process owns (C14 R14.4 re-used),
  R12.17 (lint) chibicc's own sources do not depend on the order of evaluation of operands / arguments (left-first in the host compiler,
         right-first in chibicc): whole-program effect summaries (may end the run / output / input, static objects written and read) over the call graph.
  R12.18 no automatic object is read on a path on which it was not written (flow-sensitive definite assignment with whole-program out-parameter summaries; sa/lib_c12da.py).
Every scanner is also run over /verif/canaries/c12_nondeterminism.c on every run; a scanner that
no longer flags its canary makes the check ANALYSIS-BROKEN.
"""
import os, re, subprocess
from ..build import AnalysisBroken
from ..cast import Unit
from .. import lib_c14 as L

CANARY = os.path.join(os.path.dirname(os.path.dirname(os.path.dirname(os.path.abspath(__file__)))), 'canaries', 'c12_nondeterminism.c')

# ---- R12.1 oracle: nondeterminism source -> functions that may call it
TIME_NOW = ('time', 'localtime', 'localtime_r', 'gmtime', 'gmtime_r', 'mktime')
TIME_FMT = ('ctime', 'ctime_r', 'asctime', 'asctime_r', 'strftime')
STAT = ('stat', 'lstat', 'fstat', 'fstatat', 'stat64', 'lstat64', 'fstat64', 'access', 'faccessat')
TMPNAME = ('mkstemp', 'mkostemp', 'mkstemps', 'mkdtemp', 'tmpnam', 'tmpnam_r', 'tempnam', 'mktemp', 'tmpfile')
NEVER = ('gettimeofday', 'clock', 'clock_gettime', 'times', 'getrusage', 'timespec_get', 'ftime',
         'getpid', 'getppid', 'gettid', 'getpgrp', 'getpgid', 'getsid', 'getuid', 'geteuid', 'getgid', 'getegid', 'getlogin', 'getlogin_r',
         'rand', 'rand_r', 'random', 'srand', 'srandom', 'drand48', 'erand48', 'lrand48', 'nrand48', 'mrand48', 'jrand48', 'srand48',
         'arc4random', 'arc4random_uniform', 'arc4random_buf', 'getrandom', 'getentropy',
         'getenv', 'secure_getenv', 'setenv', 'putenv',
         'gethostname', 'uname', 'getcwd', 'get_current_dir_name', 'ttyname', 'pthread_self',
         'opendir', 'readdir', 'readdir_r', 'scandir', 'ftw', 'nftw')
ALLOW = {}
for _n in TIME_NOW:
    ALLOW[_n] = ('init_macros',)
for _n in TIME_FMT:
    ALLOW[_n] = ('timestamp_macro',)
for _n in STAT:
    ALLOW[_n] = ('file_exists', 'timestamp_macro')
for _n in TMPNAME:
    ALLOW[_n] = ('create_tmpfile',)
for _n in NEVER:
    ALLOW[_n] = ()
WHY = {
    'time': 'wall-clock time', 'pid': 'a process id', 'rand': 'a pseudo-random number', 'env': 'the environment',
}
TIME_MACROS = ('__DATE__', '__TIME__')
TIME_PURE = ('localtime', 'localtime_r', 'gmtime', 'gmtime_r', 'format_date', 'format_time', 'strftime', 'format', 'asctime', 'asctime_r', 'mktime')
STAT_TIME_FIELDS = ('st_mtime', 'st_mtim', 'tv_sec')

PRINTF_LIKE = {'println': 0, 'printf': 0, 'fprintf': 1, 'sprintf': 1, 'snprintf': 2, 'dprintf': 1, 'format': 0,
               'error': 0, 'error_at': 1, 'error_tok': 1, 'warn_tok': 1, 'vfprintf': 1}
OUTPUT_FNS = ('println', 'printf', 'fprintf', 'fputs', 'fputc', 'puts', 'putchar', 'fwrite', 'putc', 'dprintf', 'write')
NUMBERING_FNS = {'codegen.c': ('count',), 'parse.c': ('new_unique_name',), 'preprocess.c': ('counter_macro',), 'tokenize.c': ('tokenize_file',)}
PTR2INT_ALLOWED = {('hashmap.c', 'hashmap_test')}       # test-only: compares stored (void*)i values with i


def _is_int_type(t):
    t = (t or '').replace('const ', '').replace('volatile ', '').strip()
    return t in ('int', 'unsigned int', 'long', 'unsigned long', 'short', 'unsigned short', 'char', 'unsigned char', 'signed char',
                 'long long', 'unsigned long long', 'size_t', 'int32_t', 'uint32_t', 'int64_t', 'uint64_t', 'unsigned')


def _is_ptr_type(t):
    t = (t or '').strip()
    return t.endswith('*') or t.endswith(']')


# ------------------------------------------------------------------ scanners ---
# each scanner yields findings (function, construct, node, message); it is the same code for /repo and for the canary

STAT_IDENTITY_FIELDS = ('st_dev', 'st_ino')
KEYED = {'hashmap_get': 1, 'hashmap_put': 1, 'hashmap_delete': 1}       # function -> position of the key string


def identity_key_functions(units):
    """functions that turn a path into a FILE-IDENTITY key: they may call stat() and read st_dev/st_ino, because the numbers can reach nothing
    but the comparison of two keys.  Derived, not named: F qualifies when
      (a) every stat field F reads is st_dev/st_ino, each read is an argument of one string-building call (format) and that call's result is
          what F returns (the numbers are not stored, printed, compared or returned in any other way), and
      (b) every use of F in the whole program is a direct call, and the result of each call is the key argument of hashmap_get/put/delete, or
          initialises a local variable every use of which is such a key argument.
    Which two lookups name the same file is a fact of the file system the compiler is given (its input), like file_exists(); the VALUE of an inode
    number is not, and under (a)+(b) it never reaches the output: R12.3 keeps the table order out of it."""
    cand = set()
    for u in units:
        for fname, fd in u.functions.items():
            reads = []
            for n in fd.walk():
                if n.kind == 'MemberExpr' and (n.name or '').startswith('st_'):
                    base = n.inner[0] if n.inner else None
                    if base is not None and 'stat' in (base.dtype or base.type or ''):
                        reads.append(n)
            if not reads or any(n.name not in STAT_IDENTITY_FIELDS for n in reads):
                continue
            ok = True
            for n in reads:
                p = n.parent
                while p is not None and p.kind in ('ImplicitCastExpr', 'ParenExpr', 'CStyleCastExpr'):
                    p = p.parent
                if not (p is not None and p.kind == 'CallExpr' and p.callee() == 'format' and any(a.strip_all() is n for a in p.args())):
                    ok = False; break
                q = p.parent
                while q is not None and q.kind in ('ImplicitCastExpr', 'ParenExpr'):
                    q = q.parent
                if not (q is not None and q.kind == 'ReturnStmt'):
                    ok = False; break
            if ok:
                cand.add(fname)
    out = set()
    for f in cand:
        ok, uses = True, 0
        for u in units:
            for fname, fd in u.functions.items():
                for r in fd.walk():
                    if not (r.kind == 'DeclRefExpr' and r.ref_kind == 'FunctionDecl' and r.ref_name == f):
                        continue
                    uses += 1
                    c = r.parent
                    while c is not None and c.kind in ('ImplicitCastExpr', 'ParenExpr'):
                        c = c.parent
                    if not (c is not None and c.kind == 'CallExpr' and c.callee() == f):
                        ok = False; continue        # address taken
                    if not _only_a_key(fd, c):
                        ok = False
        if ok and uses:
            out.add(f)
    return out


def _is_key_arg(n):
    """n (an expression node) is the key argument of a hashmap call"""
    p = n.parent
    while p is not None and p.kind in ('ImplicitCastExpr', 'ParenExpr'):
        n, p = p, p.parent
    if p is None or p.kind != 'CallExpr' or p.callee() not in KEYED:
        return False
    a = p.args()
    i = KEYED[p.callee()]
    return len(a) > i and a[i] is n


def _only_a_key(fd, call):
    if _is_key_arg(call):
        return True
    p = call.parent
    while p is not None and p.kind in ('ImplicitCastExpr', 'ParenExpr'):
        p = p.parent
    if p is None or p.kind != 'VarDecl':
        return False
    uses = [r for r in fd.walk() if r.kind == 'DeclRefExpr' and r.ref_kind == 'VarDecl' and r.ref_id == p.id]
    return bool(uses) and all(_is_key_arg(r) for r in uses)


def scan_sources(u, idkeys=frozenset()):
    """R12.1 who-may-call"""
    for fname, fd in u.functions.items():
        for c in fd.calls():
            cal = c.callee()
            if cal == 'stat' and fname in idkeys:
                continue
            if cal in ALLOW and fname not in ALLOW[cal]:
                yield (fname, 'calls-%s' % cal, c,
                       '%s() is called in %s: its value differs from run to run (process, time, environment or file-system state), and only %s may use it'
                       % (cal, fname, ', '.join(ALLOW[cal]) or 'no function of the compiler'))
        for n in fd.walk():
            if n.kind == 'MemberExpr' and (n.name or '').startswith('st_'):
                base = n.inner[0] if n.inner else None
                bt = (base.dtype or base.type or '') if base is not None else ''
                if 'stat' in bt:
                    ok = fname == 'timestamp_macro' and n.name in STAT_TIME_FIELDS
                    # the existence probe may tell a file from a directory: the file TYPE is part of "which files exist" (the input), unlike times,
                    # inode numbers, owners or sizes
                    ok = ok or (fname == 'file_exists' and n.name == 'st_mode')
                    # which lookups name the same file is input too; the numbers themselves stay inside key comparisons (identity_key_functions)
                    ok = ok or (fname in idkeys and n.name in STAT_IDENTITY_FIELDS)
                    if not ok:
                        yield (fname, 'reads-stat-%s' % n.name, n,
                               'file metadata field %s is read in %s: only timestamp_macro may read the modification time (for __TIMESTAMP__)' % (n.name, fname))
            if n.kind == 'DeclRefExpr' and n.ref_name == 'environ' and n.ref_kind == 'VarDecl':
                yield (fname, 'reads-environ', n, 'the environment is read in %s' % fname)


def _mentions(node, names, calls):
    for n in node.walk():
        if n.kind == 'DeclRefExpr' and n.ref_kind in ('VarDecl', 'ParmVarDecl') and n.ref_id in names:
            return True
        if n.kind == 'CallExpr' and n.callee() in calls:
            return True
    return False


def scan_time_flow(u):
    """R12.1 flow: inside init_macros the time value reaches only define_macro("__DATE__"|"__TIME__", ...)"""
    fd = u.functions.get('init_macros')
    if fd is None:
        return
    tainted = set()
    changed = True
    while changed:
        changed = False
        for n in fd.walk():
            if n.kind == 'VarDecl' and n.id not in tainted and n.inner and _mentions(n, tainted, TIME_NOW):
                tainted.add(n.id); changed = True
            if n.kind == 'BinaryOperator' and n.opcode == '=' and _mentions(n.inner[1], tainted, TIME_NOW):
                l = n.inner[0].strip()
                if l.kind == 'DeclRefExpr' and l.ref_id not in tainted:
                    tainted.add(l.ref_id); changed = True
    yield ('init_macros', '#tainted', fd, len(tainted))
    for c in fd.calls():
        cal = c.callee()
        if cal in TIME_NOW:
            continue
        if not any(_mentions(a, tainted, TIME_NOW) for a in c.args()):
            continue
        if cal == 'define_macro':
            name = c.args()[0].str_value() if c.args() else None
            if name not in TIME_MACROS:
                yield ('init_macros', 'time-in-macro-%s' % (name or '?'), c,
                       'the current time is made visible to programs through macro %r: only __DATE__ and __TIME__ (and __TIMESTAMP__) may depend on the time of compilation' % name)
        elif cal not in TIME_PURE:
            yield ('init_macros', 'time-passed-to-%s' % cal, c, 'the current time is passed to %s()' % cal)
    for n in fd.walk():
        if n.kind == 'BinaryOperator' and n.opcode == '=' and _mentions(n.inner[1], tainted, TIME_NOW):
            l = n.inner[0].strip()
            b = l
            while b.kind in ('MemberExpr', 'ArraySubscriptExpr', 'UnaryOperator') and b.inner:
                b = b.inner[0].strip()
            if not (b.kind == 'DeclRefExpr' and b.ref_id in tainted and l.kind == 'DeclRefExpr'):
                yield ('init_macros', 'time-stored', n, 'the current time is stored into %s' % l.src())


def scan_format(u):
    """R12.2 printf-like calls: %p, or a pointer passed for an integer conversion"""
    for fname, fd in u.functions.items():
        for c in fd.calls():
            cal = c.callee()
            args = c.args()
            if cal in PRINTF_LIKE:
                fi = PRINTF_LIKE[cal]
            else:
                continue
            if fi >= len(args):
                continue
            fmt = args[fi].str_value()
            if fmt is None:
                continue
            convs = []
            for m in re.finditer(r'%([-+ #0]*)(\*|\d+)?(?:\.(\*|\d+))?(hh|h|ll|l|j|z|t|L)?([a-zA-Z%])', fmt):
                if m.group(5) == '%':
                    continue
                if m.group(2) == '*':
                    convs.append('*')
                if m.group(3) == '*':
                    convs.append('*')
                convs.append(m.group(5))
            va = args[fi + 1:]
            for i, cv in enumerate(convs):
                if cv == 'p':
                    yield (fname, 'format-%p', c, 'an address is printed with %%p by %s() in %s: the text depends on the address-space layout of this run' % (cal, fname))
                if i < len(va) and cv in 'diouxXc*':
                    ty = va[i].dtype or va[i].type
                    if _is_ptr_type(ty):
                        yield (fname, 'pointer-for-%%%s' % cv, c, 'a pointer (%s) is passed for the integer conversion %%%s of %s() in %s: an address reaches the output' % (va[i].src(), cv, cal, fname))


def scan_ptr2int(u):
    """R12.2 pointer -> integer conversions"""
    for fname, fd in u.functions.items():
        for n in fd.walk():
            if n.kind in ('CStyleCastExpr', 'ImplicitCastExpr') and n.cast_kind == 'PointerToIntegral':
                yield (fname, 'pointer-to-integer', n,
                       'an address is converted to an integer in %s (%s): from there it can reach a label, a hash or a comparison whose result differs between runs and between stage-1 and stage-2 binaries' % (fname, n.src()))


def scan_buckets(u):
    """R12.3 bucket arrays of hash maps are touched only by the table implementation"""
    for fname, fd in u.functions.items():
        touched = [n for n in fd.walk() if n.kind == 'MemberExpr' and n.name == 'buckets' and 'HashMap' in ((n.inner[0].dtype or n.inner[0].type or '') if n.inner else '')]
        if not touched:
            continue
        prints = [c for c in fd.calls() if c.callee() in OUTPUT_FNS]
        yield (fname, 'touches-buckets', touched[0], {'prints': [c.callee() for c in prints]})


def scan_counters(u):
    """R12.4 function-local static integers: every write is ++ ; never address-taken"""
    for fname, fd in u.functions.items():
        statics = [n for n in fd.walk() if n.kind == 'VarDecl' and n.d.get('storageClass') == 'static' and _is_int_type(n.dtype or n.type)]
        for v in statics:
            bad = []
            incs = 0
            for n in fd.walk():
                if n.kind == 'UnaryOperator' and n.opcode in ('++', '--', '&'):
                    t = n.inner[0].strip()
                    if t.kind == 'DeclRefExpr' and t.ref_id == v.id:
                        if n.opcode == '++':
                            incs += 1
                        elif n.opcode == '--':
                            bad.append((n, 'decremented'))
                        else:
                            bad.append((n, 'address-taken'))
                elif (n.kind == 'BinaryOperator' and n.opcode == '=') or n.kind == 'CompoundAssignOperator':
                    t = n.inner[0].strip()
                    if t.kind == 'DeclRefExpr' and t.ref_id == v.id:
                        bad.append((n, 'assigned' if n.kind == 'BinaryOperator' else 'changed-by-%s' % n.opcode))
            init_const = True
            for c in v.inner:
                if c.kind.endswith('Attr'):
                    continue
                if c.int_value() is None and c.strip().kind not in ('IntegerLiteral', 'UnaryOperator'):
                    init_const = False
            yield (fname, v.name, v, {'bad': bad, 'incs': incs, 'init_const': init_const})


U64 = ('unsigned long', 'unsigned long long', 'size_t', 'uint64_t', 'uintptr_t')


# lint item -> substrings of the known-finding keys that keep it alive (any alternative, all substrings)
SELFAPP_NEEDS_PID = ('C02', 'C20')
SELFAPP_NEEDS = {
    'fp-to-u64': [('->ulong:', 'signed-64-bit-conversion')],
    'u64-to-float': [('ulong->float:',)],
    'discarded-long-double': [('ND_EXPR_STMT', 'ld=')],
    'long-double-assignment-value-used': [('ND_ASSIGN/node=ld',)],
}


def _des(n):
    return (n.dtype or n.type or '').replace('const ', '').replace('volatile ', '').strip()


def scan_selfapp(u):
    """R12.5 constructs in chibicc's own sources that a known finding says chibicc miscompiles"""
    for fname, fd in u.functions.items():
        for n in fd.walk():
            if n.kind in ('ImplicitCastExpr', 'CStyleCastExpr') and n.cast_kind == 'FloatingToIntegral' and n.inner:
                src, dst = _des(n.inner[0]), _des(n)
                if dst in U64:
                    yield (fname, 'fp-to-u64', n, '%s converts %s to %s (%s): chibicc converts through a signed 64-bit conversion, values >= 2^63 come out wrong (known C02 finding), so the self-compiled compiler can differ here' % (fname, src, dst, n.src()))
            if n.kind in ('ImplicitCastExpr', 'CStyleCastExpr') and n.cast_kind == 'IntegralToFloating' and n.inner:
                src, dst = _des(n.inner[0]), _des(n)
                if src in U64 and dst == 'float':
                    yield (fname, 'u64-to-float', n, '%s converts %s to float (%s): chibicc converts through the signed 64-bit form, values >= 2^63 come out negative (known C02 finding)' % (fname, src, n.src()))
            elif n.kind in ('CompoundStmt', 'IfStmt', 'ForStmt', 'WhileStmt', 'DoStmt', 'LabelStmt', 'CaseStmt', 'DefaultStmt'):
                # expression statements: children of statement nodes that are expressions
                for c in n.inner:
                    if c.kind in ('CallExpr', 'BinaryOperator', 'UnaryOperator', 'ConditionalOperator', 'ImplicitCastExpr', 'ParenExpr', 'CStyleCastExpr') and _des(c) == 'long double':
                        if n.kind in ('IfStmt', 'WhileStmt') and c is n.inner[0]:
                            continue    # condition, not a discarded value
                        if n.kind == 'DoStmt' and c is n.inner[-1]:
                            continue
                        if n.kind == 'ForStmt':
                            raw = n.d.get('inner', [])
                            slots, itr = [], iter(n.inner)
                            for r in raw:
                                slots.append(next(itr) if (isinstance(r, dict) and r) else None)
                            if len(slots) >= 3 and slots[2] is c:
                                continue    # loop condition
                        top = c.strip()
                        if top.kind == 'BinaryOperator' and top.opcode == '=':
                            continue    # a long double assignment statement is balanced (the assignment pops, the statement does not)
                        yield (fname, 'discarded-long-double', c, '%s discards a long double value (%s): chibicc leaves it on the x87 stack (known C20 finding), later long double results of the self-compiled compiler become NaN' % (fname, c.src()))
            if n.kind == 'BinaryOperator' and n.opcode == '=' and _des(n) == 'long double':
                par = n.parent
                while par is not None and par.kind in ('ParenExpr',):
                    par = par.parent
                if par is not None and par.kind not in ('CompoundStmt', 'IfStmt', 'ForStmt', 'WhileStmt', 'DoStmt', 'LabelStmt', 'CaseStmt', 'DefaultStmt', 'SwitchStmt'):
                    yield (fname, 'long-double-assignment-value-used', n, '%s uses the value of a long double assignment (%s): chibicc leaves no value behind for it (known C20 finding: `a = b = c` stores garbage)' % (fname, n.src()))


# ---- R12.13 local unions read through a member other than the one stored (type punning into the output)
_BASE_SIZE = {'char': 1, 'signed char': 1, 'unsigned char': 1, '_Bool': 1, 'short': 2, 'unsigned short': 2, 'int': 4, 'unsigned int': 4, 'unsigned': 4,
              'long': 8, 'unsigned long': 8, 'long long': 8, 'unsigned long long': 8, 'float': 4, 'double': 8, 'long double': 16,
              'uint8_t': 1, 'int8_t': 1, 'uint16_t': 2, 'int16_t': 2, 'uint32_t': 4, 'int32_t': 4, 'uint64_t': 8, 'int64_t': 8, 'size_t': 8}


def _tsize(t):
    """(object size, bytes a store of the whole member writes) of a member type; None if not in the table"""
    t = (t or '').replace('const ', '').replace('volatile ', '').strip()
    m = re.match(r'^(.*?)\s*\[(\d+)\]$', t)
    if m:
        e = _tsize(m.group(1))
        return None if e is None else (e[0] * int(m.group(2)), e[1] if False else e[0] * int(m.group(2)))
    if t.endswith('*'):
        return (8, 8)
    if t not in _BASE_SIZE:
        return None
    # an x87 extended value occupies 16 bytes of which a store writes 10: the other 6 keep what the stack held before
    return (16, 10) if t == 'long double' else (_BASE_SIZE[t], _BASE_SIZE[t])


def _union_fields(vd):
    """[(member name, type)] of the anonymous/named union type of a local VarDecl, else None"""
    t = vd.dtype or ''
    if not t.startswith('union'):
        return None
    # the record is declared in the same DeclStmt (anonymous union) or earlier in the unit
    ds = vd.parent
    recs = [c for c in (ds.inner if ds is not None else []) if c.kind == 'RecordDecl' and c.d.get('tagUsed') == 'union']
    if not recs:
        tag = t[len('union'):].strip()
        if tag in vd.unit.records:
            return [(f[0], f[1]) for f in vd.unit.records[tag]]
        return [('?', '?')]
    return [(c.name, c.dtype) for c in recs[-1].inner if c.kind == 'FieldDecl']


def scan_union_pun(u):
    """every byte a read of `u.m` returns was written before: by an initialiser, a memset of the whole object, or a store into a member that
    writes at least that many bytes (a long double store writes 10 of its 16). Events are taken in evaluation (pre-order) sequence inside one function;
    a covering write inside a nested conditional statement does not count."""
    for fname, fd in u.functions.items():
        for vd in fd.find('VarDecl'):
            fields = _union_fields(vd)
            if fields is None:
                continue
            if vd.d.get('storageClass') in ('static', 'extern'):
                continue
            sizes = {n: _tsize(t) for n, t in fields}
            if any(v is None for v in sizes.values()):
                yield (fname, '#unknown-member-type', vd, 'union %s in %s has a member whose size is not in the table' % (vd.name, fname))
                continue
            covered = 0
            if 'init' in vd.d and fields:
                covered = sizes[fields[0][0]][1]
            blk = vd.enclosing('CompoundStmt')
            if blk is None:
                continue
            seen = False
            handled = set()
            for n in blk.walk():
                if n is vd:
                    seen = True
                    continue
                if not seen or id(n) in handled:
                    continue
                if n.kind == 'CallExpr' and n.callee() in ('memset', 'bzero', '__builtin_memset'):
                    a = n.args()
                    tgt = a[0].strip_all() if a else None
                    if tgt is not None and tgt.kind == 'UnaryOperator' and tgt.opcode == '&':
                        r = tgt.inner[0].strip()
                        if r.kind == 'DeclRefExpr' and r.ref_id == vd.id:
                            szarg = a[-1].strip_all()
                            whole = szarg.kind == 'UnaryExprOrTypeTraitExpr' and (szarg.d.get('name') == 'sizeof')
                            if whole and _unconditional(n, blk):
                                covered = max(covered, max(s[0] for s in sizes.values()))
                            for x in n.walk():
                                handled.add(id(x))
                    continue
                if n.kind == 'MemberExpr' and n.inner and n.inner[0].strip().kind == 'DeclRefExpr' and n.inner[0].strip().ref_id == vd.id:
                    m = n.name
                    # store?  parent chain: (ArraySubscript)* then BinaryOperator '=' lhs
                    top, par = n, n.parent
                    elem = False
                    while par is not None and par.kind in ('ParenExpr', 'ImplicitCastExpr', 'ArraySubscriptExpr') and par.inner and par.inner[0] is top:
                        if par.kind == 'ArraySubscriptExpr':
                            elem = True
                        if par.kind == 'ImplicitCastExpr' and par.cast_kind == 'LValueToRValue':
                            break
                        top, par = par, par.parent
                    if par is not None and par.kind == 'BinaryOperator' and par.opcode == '=' and par.inner[0] is top:
                        if not elem and _unconditional(par, blk):
                            covered = max(covered, sizes[m][1])
                        continue
                    if par is not None and par.kind == 'UnaryOperator' and par.opcode == '&':
                        yield (fname, '#address-of-member', n, 'address of %s.%s taken in %s: flow not followed' % (vd.name, m, fname))
                        continue
                    need = sizes[m][0]
                    if covered < need:
                        yield (fname, 'union-read-%s.%s-uninitialised' % (vd.name, m), n,
                               '%s reads %s.%s (%d bytes) when only %d bytes of the union were written before (a long double store writes 10 of its 16 bytes): '
                               'the rest is whatever the stack held, so what is printed differs between builds and runs of the compiler' % (fname, vd.name, m, need, covered))
                    else:
                        yield (fname, '+union-read-%s.%s-initialised' % (vd.name, m), n, '')


def _unconditional(n, blk):
    for a in n.ancestors():
        if a is blk:
            return True
        if a.kind in ('IfStmt', 'ForStmt', 'WhileStmt', 'DoStmt', 'SwitchStmt', 'ConditionalOperator', 'CaseStmt', 'DefaultStmt'):
            return False
        if a.kind == 'BinaryOperator' and a.opcode in ('&&', '||'):
            return False
    return False


# ---- R12.15 implementation-defined choices on which the host compiler and chibicc differ
_REL = ('<', '<=', '>', '>=')
_WIDE = ('long', 'unsigned long', 'long long', 'unsigned long long', 'int64_t', 'uint64_t', 'size_t', 'ssize_t', 'intptr_t', 'uintptr_t', 'ptrdiff_t', 'double', 'float', 'long double')


def _enum_operand(n):
    s = n.strip()
    for t in (s.dtype or '', s.type or ''):
        t = t.replace('const ', '').replace('volatile ', '').strip()
        if t.startswith('enum ') or t in n.unit.enum_types:
            return True
    return False


def scan_impl_defined(u):
    """the type of an enumeration is implementation-defined (C11 6.7.2.2p4): gcc/clang take unsigned int when no enumerator is negative, chibicc
    always int.  `a - b`, `-a`, `~a` on enumerated operands is 4294967295 or -1 accordingly; the difference shows where that value is compared
    relationally, divided, shifted right or widened to 64 bits."""
    for fname, fd in u.functions.items():
        for n in fd.walk():
            if not ((n.kind == 'BinaryOperator' and n.opcode == '-') or (n.kind == 'UnaryOperator' and n.opcode in ('-', '~'))):
                continue
            if not any(_enum_operand(o) for o in n.inner):
                continue
            if (n.dtype or n.type or '') not in ('unsigned int', 'unsigned'):
                continue        # the host computes it as a signed int (or wider) already: same as chibicc
            cur, par = n, n.parent
            hit = None
            while par is not None:
                if par.kind == 'ParenExpr':
                    cur, par = par, par.parent; continue
                if par.kind in ('ImplicitCastExpr', 'CStyleCastExpr'):
                    t = (par.dtype or par.type or '').replace('const ', '').strip()
                    if t in _WIDE:
                        hit = 'widened to %s' % t; break
                    cur, par = par, par.parent; continue
                if par.kind == 'BinaryOperator' and par.opcode in _REL + ('/', '%', '>>'):
                    hit = 'operand of `%s`' % par.opcode
                break
            if hit:
                yield (fname, 'enum-signedness', n,
                       '%s computes `%s` on an operand of enumerated type and uses the result as %s: the host compiler gives the enumeration the type unsigned int (no negative enumerator), '
                       'chibicc gives it int, so a difference below zero is 4294967295 in the reference build and -1 in the self-compiled compiler (C11 6.7.2.2p4: implementation-defined)' % (fname, n.src(), hit))


# ---- R12.17 order of evaluation (C11 6.5p2-3, 6.5.2.2p10, 6.5.16p3): the operands of an operator and the arguments of a call are
# unsequenced / indeterminately sequenced.  The host compiler evaluates the left operand first, chibicc the right one: wherever the order
# is observable in chibicc's own sources, the reference build and the self-compiled compiler behave differently.
_OPNAME = {'+': 'add', '-': 'sub', '*': 'mul', '/': 'div', '%': 'rem', '&': 'and', '|': 'or', '^': 'xor', '<<': 'shl', '>>': 'shr',
           '==': 'eq', '!=': 'ne', '<': 'lt', '<=': 'le', '>': 'gt', '>=': 'ge', '=': 'assign',
           '+=': 'add-assign', '-=': 'sub-assign', '*=': 'mul-assign', '/=': 'div-assign', '%=': 'rem-assign', '&=': 'and-assign', '|=': 'or-assign',
           '^=': 'xor-assign', '<<=': 'shl-assign', '>>=': 'shr-assign'}
_SEQUENCED_OPS = ('&&', '||', ',')
EXIT_PRIMS = ('exit', '_exit', '_Exit', 'quick_exit', 'abort')
OUTPUT_PRIMS = OUTPUT_FNS + ('vfprintf', 'vprintf', 'vdprintf', 'perror', 'fclose', 'fflush')
INPUT_PRIMS = ('fgetc', 'getc', 'getchar', 'fread', 'fgets', 'getline', 'getdelim', 'read', 'fscanf', 'scanf', 'ungetc', 'fseek', 'rewind')


def _internal_error_call(call):
    """expansion of unreachable(): error("internal error at %s:%d", ...) - an internal error (C13), not an answer to the input"""
    if call.callee() != 'error':
        return False
    a = call.args()
    return bool(a) and (a[0].str_value() or '').startswith('internal error')


class Effects:
    """whole-program summaries over the resolved call graph: for every defined function
         act   - kinds of observable action reachable from it ('exit': ends the process, e.g. through error_tok; 'output'; 'input')
         mods  - static-storage objects it (transitively) assigns directly (the variable itself, a member or an element of it, or its address passed on)
         refs  - static-storage objects it (transitively) reads
       a call through a pointer has every effect."""

    def __init__(self, P, cg):
        self.cg = cg
        self.edges = {}
        for callee, sites in cg.sites.items():
            for (u, caller, call) in sites:
                if _internal_error_call(call):
                    continue
                self.edges.setdefault(caller, set()).add(callee)
        for f, lst in cg.refs.items():
            for (u, user, ref) in lst:
                self.edges.setdefault(user, set()).add(f)
        self.indirect = set()
        self.dmods, self.drefs = {}, {}
        for fname, lst in cg.defs.items():
            for (u, fd) in lst:
                loc = _local_ids(fd)
                m, r = _static_mod_ref(u, fname, fd, loc)
                self.dmods.setdefault(fname, set()).update(m)
                self.drefs.setdefault(fname, set()).update(r)
                if any(c.kind == 'CallExpr' and c.callee() is None for c in fd.walk()):
                    self.indirect.add(fname)
        self.act = {}
        for p in EXIT_PRIMS:
            self.act[p] = {'exit'}
        for p in OUTPUT_PRIMS:
            self.act[p] = {'output'}
        for p in INPUT_PRIMS:
            self.act[p] = {'input'}
        self.mods = {f: set(s) for f, s in self.dmods.items()}
        self.refs = {f: set(s) for f, s in self.drefs.items()}
        for f in self.indirect:
            self.act.setdefault(f, set()).update(('exit', 'output', 'input'))
            self.mods.setdefault(f, set()).add('*')
        changed = True
        while changed:
            changed = False
            for f, gs in self.edges.items():
                for g in gs:
                    for tab in (self.act, self.mods, self.refs):
                        src = tab.get(g)
                        if src:
                            dst = tab.setdefault(f, set())
                            if not src <= dst:
                                dst |= src; changed = True

    def why(self, f, kind):
        """one call chain from f to a primitive of that kind (for the message)"""
        prims = EXIT_PRIMS if kind == 'exit' else (OUTPUT_PRIMS if kind == 'output' else INPUT_PRIMS)
        prev = {f: None}
        q = [f]
        while q:
            x = q.pop(0)
            if x in prims:
                out = []
                while x is not None:
                    out.append(x); x = prev[x]
                return ' -> '.join(out[::-1])
            for g in sorted(self.edges.get(x, ())):
                if g not in prev:
                    prev[g] = x; q.append(g)
        return f


def _local_ids(fd):
    return set(n.id for n in fd.walk() if n.kind in ('VarDecl', 'ParmVarDecl') and n.d.get('storageClass') not in ('static', 'extern'))


def _static_key(u, fname, ref, loc):
    """key of the static-storage object a DeclRefExpr names, None for locals / functions / enumerators"""
    if ref is None or ref.kind != 'DeclRefExpr' or ref.ref_kind != 'VarDecl' or ref.ref_id in loc:
        return None
    if ref.ref_id in _local_static_ids(u, fname):
        return '%s/%s/%s' % (u.name, fname, ref.ref_name)
    g = u.globals.get(ref.ref_name)
    if g is not None and g.d.get('storageClass') == 'static':
        return '%s/%s' % (u.name, ref.ref_name)
    return ref.ref_name


_LS_MEMO = {}


def _local_static_ids(u, fname):
    k = (id(u), fname)
    if k not in _LS_MEMO:
        fd = u.functions.get(fname)
        _LS_MEMO[k] = set(n.id for n in fd.walk() if n.kind == 'VarDecl' and n.d.get('storageClass') == 'static') if fd is not None else set()
    return _LS_MEMO[k]


def _lvalue_root(n):
    """the variable an lvalue expression is a part of (x, x.m, x[i] for an array x), None when it goes through a pointer"""
    while True:
        if n.kind == 'ParenExpr' and n.inner:
            n = n.inner[0]
        elif n.kind == 'MemberExpr' and not n.d.get('isArrow') and n.inner:
            n = n.inner[0]
        elif n.kind == 'ArraySubscriptExpr' and n.inner:
            b = n.inner[0]
            if b.kind == 'ImplicitCastExpr' and b.cast_kind == 'ArrayToPointerDecay' and b.inner:
                n = b.inner[0]
            else:
                return None
        elif n.kind == 'DeclRefExpr':
            return n
        else:
            return None


def _is_read(ref, top):
    """the DeclRefExpr is read (an lvalue-to-rvalue conversion applies to it or to a member / element of it) inside `top`"""
    cur, par = ref, ref.parent
    while par is not None:
        if par.kind == 'ImplicitCastExpr' and par.cast_kind == 'LValueToRValue':
            return True
        if par.kind == 'ImplicitCastExpr' and par.cast_kind == 'ArrayToPointerDecay':
            pp = par.parent
            if pp is not None and pp.kind == 'ArraySubscriptExpr' and pp.inner and pp.inner[0] is par:
                cur, par = par, pp
                continue
            return True         # the array is handed on as a pointer: whoever receives it reads it
        if par.kind == 'ParenExpr' or (par.kind == 'MemberExpr' and not par.d.get('isArrow')) or \
                (par.kind == 'ArraySubscriptExpr' and par.inner and par.inner[0] is cur):
            if par is top:
                return False
            cur, par = par, par.parent
            continue
        if par.kind == 'CompoundAssignOperator' and par.inner and par.inner[0] is cur:
            return True
        if par.kind == 'UnaryOperator' and par.opcode in ('++', '--'):
            return True
        return False
    return False


def _writes_in(e):
    """[(DeclRefExpr of the variable, how)] modified inside expression e: assigned, stepped, or its address handed to a call made inside e"""
    out = []
    for n in e.walk():
        if (n.kind == 'BinaryOperator' and n.opcode == '=') or n.kind == 'CompoundAssignOperator' or (n.kind == 'UnaryOperator' and n.opcode in ('++', '--')):
            r = _lvalue_root(n.inner[0]) if n.inner else None
            if r is not None:
                out.append((r, 'assigned'))
        elif n.kind == 'UnaryOperator' and n.opcode == '&' and n.inner:
            r = _lvalue_root(n.inner[0])
            if r is not None and r.ref_kind in ('VarDecl', 'ParmVarDecl'):
                c = n.enclosing('CallExpr')
                if c is not None and (c is e or any(a is e for a in c.ancestors())):
                    out.append((r, 'address-passed-to-%s' % (c.callee() or 'a-call')))
    return out


def _static_mod_ref(u, fname, fd, loc):
    mods, refs = set(), set()
    body = fd
    for (r, how) in _writes_in(body):
        k = _static_key(u, fname, r, loc)
        if k:
            mods.add(k)
    for n in body.walk():
        if n.kind == 'UnaryOperator' and n.opcode == '&' and n.inner:
            r = _lvalue_root(n.inner[0])
            k = _static_key(u, fname, r, loc) if r is not None else None
            if k:
                mods.add(k)         # the address escapes: whoever holds it may write
        if n.kind == 'DeclRefExpr':
            k = _static_key(u, fname, n, loc)
            if k and _is_read(n, None):
                refs.add(k)
    return mods, refs


def _operand_effects(E, u, fname, e, loc):
    """effects of evaluating expression e: observable actions / static objects written / read (through the calls in it and directly),
    locals written / read"""
    act, mods, refs = {}, {}, set()
    lmods, lrefs = {}, set()
    ncalls = 0
    for c in e.walk():
        if c.kind != 'CallExpr':
            continue
        ncalls += 1
        cal = c.callee()
        if cal is None:
            for k in ('exit', 'output', 'input'):
                act.setdefault(k, 'a call through a pointer')
            mods.setdefault('*', 'a call through a pointer')
            continue
        for k in E.act.get(cal, ()):
            act.setdefault(k, cal)
        for k in E.mods.get(cal, ()):
            mods.setdefault(k, cal)
        refs |= E.refs.get(cal, set())
    for (r, how) in _writes_in(e):
        k = _static_key(u, fname, r, loc)
        if k:
            mods.setdefault(k, how)
        elif r.ref_id in loc:
            lmods.setdefault(r.ref_id, (r.ref_name, how))
    for n in e.walk():
        if n.kind == 'DeclRefExpr' and n.ref_kind in ('VarDecl', 'ParmVarDecl'):
            rd = _is_read(n, None)
            k = _static_key(u, fname, n, loc)
            if k and rd:
                refs.add(k)
            elif n.ref_id in loc and rd:
                lrefs.add(n.ref_id)
    return {'act': act, 'mods': mods, 'refs': refs, 'lmods': lmods, 'lrefs': lrefs, 'ncalls': ncalls}


def _slug(s):
    return re.sub(r'[^A-Za-z0-9_.]+', '-', s).strip('-')


def scan_unsequenced(E, u):
    """pairs of operand evaluations the standard leaves unordered whose order is observable. Yields (function, construct, node, message);
    construct '+candidate' marks a function that has unordered operand groups with a call in them and no dependence (liveness)."""
    for fname, fd in u.functions.items():
        loc = _local_ids(fd)
        cands = 0
        hits = []
        memo = {}

        def eff(e):
            if id(e) not in memo:
                memo[id(e)] = _operand_effects(E, u, fname, e, loc)
            return memo[id(e)]
        for n in fd.walk():
            if n.kind == 'BinaryOperator' and n.opcode not in _SEQUENCED_OPS and len(n.inner) == 2:
                parts, what = list(n.inner), 'operands-of-%s' % _OPNAME.get(n.opcode, 'operator')
            elif n.kind == 'CompoundAssignOperator' and len(n.inner) == 2:
                parts, what = list(n.inner), 'operands-of-%s' % _OPNAME.get(n.opcode, 'compound-assignment')
            elif n.kind == 'CallExpr' and len(n.inner) >= 3:
                parts, what = list(n.inner), 'arguments-of-%s' % (n.callee() or 'call')
            elif n.kind == 'ArraySubscriptExpr' and len(n.inner) == 2:
                parts, what = list(n.inner), 'array-and-index'
            else:
                continue
            effs = [eff(p) for p in parts]
            if any(x['ncalls'] for x in effs):
                cands += 1
            for i in range(len(parts)):
                for j in range(i + 1, len(parts)):
                    a, b = effs[i], effs[j]
                    if not a['ncalls'] and not b['ncalls'] and not a['mods'] and not b['mods'] and not a['lmods'] and not b['lmods']:
                        continue
                    # (1) both may act observably: which diagnostic ends the run / the order of the output depends on the evaluation order
                    if a['act'] and b['act']:
                        ca = sorted(set(a['act'].values())); cb = sorted(set(b['act'].values()))
                        kinds = sorted(set(a['act']) | set(b['act']))
                        label = 'both-may-diagnose' if ('exit' in a['act'] and 'exit' in b['act']) else 'both-act-observably'
                        ka = 'exit' if 'exit' in a['act'] else sorted(a['act'])[0]
                        kb = 'exit' if 'exit' in b['act'] else sorted(b['act'])[0]
                        hits.append(('%s-%s(%s;%s)' % (what, label, ','.join(_slug(x) for x in ca), ','.join(_slug(x) for x in cb)), n,
                                     '%s: the two %s `%s` and `%s` both contain a call that can %s (%s; %s), and C leaves their order open: the host compiler evaluates the left one first, '
                                     'chibicc the right one, so on an input for which both act the reference build and the self-compiled compiler report a different diagnostic / produce another output order; '
                                     'evaluate them into locals in source order'
                                     % (fname, 'arguments' if what.startswith('arguments') else 'operands', parts[i].src()[:60], parts[j].src()[:60],
                                        ' / '.join({'exit': 'end the run with a diagnostic', 'output': 'write output', 'input': 'consume input'}[k] for k in kinds),
                                        E.why(a['act'][ka], ka) if a['act'][ka] in E.edges else a['act'][ka], E.why(b['act'][kb], kb) if b['act'][kb] in E.edges else b['act'][kb])))
                    # (2) one writes a static object the other reads or writes
                    shared = (set(a['mods']) & (set(b['mods']) | b['refs'])) | (set(b['mods']) & a['refs'])
                    if '*' in a['mods'] and (b['mods'] or b['refs']) or '*' in b['mods'] and (a['mods'] or a['refs']):
                        shared.add('*')
                    for k in sorted(shared):
                        w = a['mods'].get(k) or b['mods'].get(k)
                        hits.append(('%s-share-static-%s' % (what, _slug(k) if k != '*' else 'any'), n,
                                     '%s: of the two %s `%s` and `%s` one writes the static object %s (%s) that the other reads or writes, and C leaves their order open: '
                                     'the host compiler evaluates the left one first, chibicc the right one, so the reference build and the self-compiled compiler compute different values'
                                     % (fname, 'arguments' if what.startswith('arguments') else 'operands', parts[i].src()[:60], parts[j].src()[:60], k if k != '*' else '(any: call through a pointer)', w)))
                    # (3) one writes a local (directly, or hands its address to a call it makes) that the other reads or writes
                    ls = (set(a['lmods']) & (set(b['lmods']) | b['lrefs'])) | (set(b['lmods']) & a['lrefs'])
                    for vid in sorted(ls):
                        nm, how = a['lmods'].get(vid) or b['lmods'].get(vid)
                        hits.append(('%s-share-local-%s' % (what, _slug(nm)), n,
                                     '%s: of the two %s `%s` and `%s` one changes the local `%s` (%s) that the other reads or changes, and C leaves their order open: '
                                     'the host compiler evaluates the left one first, chibicc the right one'
                                     % (fname, 'arguments' if what.startswith('arguments') else 'operands', parts[i].src()[:60], parts[j].src()[:60], nm, how.replace('-', ' '))))
        for (construct, node, msg) in hits:
            yield (fname, construct, node, msg)
        if cands and not hits:
            yield (fname, '+candidate', fd, cands)


# --------------------------------------------------------------------- canary ---
# function in the canary -> (rule, scanner name, construct prefix that must be reported)
CANARY_EXPECT = [
    ('bad_time', 'R12.1', 'sources', 'calls-time'),
    ('bad_pid', 'R12.1', 'sources', 'calls-getpid'),
    ('bad_rand', 'R12.1', 'sources', 'calls-rand'),
    ('bad_rand', 'R12.1', 'sources', 'calls-srand'),
    ('bad_env', 'R12.1', 'sources', 'calls-getenv'),
    ('bad_clock', 'R12.1', 'sources', 'calls-gettimeofday'),
    ('bad_clock', 'R12.1', 'sources', 'calls-clock'),
    ('bad_mtime', 'R12.1', 'sources', 'calls-stat'),
    ('bad_mtime', 'R12.1', 'sources', 'reads-stat-st_ino'),
    ('bad_file_key', 'R12.1', 'sources', 'reads-stat-st_ino'),
    ('bad_file_key', 'R12.1', 'sources', 'calls-stat'),
    ('init_macros', 'R12.1', 'time_flow', 'time-in-macro-__BUILD_ID__'),
    ('bad_ptr_format', 'R12.2', 'format', 'format-%p'),
    ('bad_ptr_as_int', 'R12.2', 'format', 'pointer-for-%d'),
    ('bad_ptr_cast', 'R12.2', 'ptr2int', 'pointer-to-integer'),
    ('bad_bucket_walk', 'R12.3', 'buckets', 'touches-buckets'),
    ('bad_counter', 'R12.4', 'counters', 'id'),
    ('bad_counter_reset', 'R12.4', 'counters', 'n'),
    ('bad_self_fp_to_u64', 'R12.5', 'selfapp', 'fp-to-u64'),
    ('bad_self_u64_to_float', 'R12.5', 'selfapp', 'u64-to-float'),
    ('bad_self_discard', 'R12.5', 'selfapp', 'discarded-long-double'),
    ('bad_self_chain', 'R12.5', 'selfapp', 'long-double-assignment-value-used'),
    ('bad_union_pun', 'R12.13', 'union_pun', 'union-read-u.w-uninitialised'),
    ('bad_enum_range', 'R12.15', 'impl_defined', 'enum-signedness'),
]

CANARY_SILENT = ('good_counter', 'good_print', 'file_exists', 'good_ld_assign', 'good_union_pun', 'good_enum_index', 'good_file_key', 'good_once')


def load_canary(P):
    if not os.path.exists(CANARY):
        raise AnalysisBroken('canary %s is missing' % CANARY)
    j = os.path.join(P.dir, 'c12_canary.json')
    with open(j, 'w') as f:
        p = subprocess.run(['clang-14', '-std=c11', '-w', '-fsyntax-only', '-Xclang', '-ast-dump=json', CANARY], stdout=f, stderr=subprocess.PIPE, text=True)
    if p.returncode != 0:
        raise AnalysisBroken('clang failed on the canary: ' + p.stderr[-300:])
    u = Unit(CANARY, j, os.path.dirname(CANARY))
    try:
        os.unlink(j)
    except OSError:
        pass
    return u


def counter_bad(info):
    return bool(info['bad']) or not info['init_const']


def run_canary(P, rep):
    cu = load_canary(P)
    got = {
        'sources': [(f, c) for (f, c, n, m) in scan_sources(cu, identity_key_functions([cu]))],
        'time_flow': [(f, c) for (f, c, n, m) in scan_time_flow(cu) if not c.startswith('#')],
        'format': [(f, c) for (f, c, n, m) in scan_format(cu)],
        'ptr2int': [(f, c) for (f, c, n, m) in scan_ptr2int(cu)],
        'buckets': [(f, c) for (f, c, n, m) in scan_buckets(cu)],
        'counters': [(f, c) for (f, c, n, m) in scan_counters(cu) if counter_bad(m)],
        'selfapp': [(f, c) for (f, c, n, m) in scan_selfapp(cu)],
        'union_pun': [(f, c) for (f, c, n, m) in scan_union_pun(cu) if not c.startswith('+')],
        'impl_defined': [(f, c) for (f, c, n, m) in scan_impl_defined(cu)],
    }
    for (fn, rule, sc, construct) in CANARY_EXPECT:
        if (fn, construct) in got[sc]:
            rep.ob(rule, 'canaries/c12_nondeterminism.c:%s:flagged-%s' % (fn, construct), True, '')
        else:
            rep.undecided(rule, 'canaries/c12_nondeterminism.c:%s:%s' % (fn, construct),
                          'the %s scanner no longer flags the canary pattern %s in %s(): the rule is dead' % (sc, construct, fn))
    for sc, lst in got.items():
        for (f, c) in lst:
            if f in CANARY_SILENT:
                rep.undecided('R12.1' if sc in ('sources', 'time_flow') else ('R12.2' if sc in ('format', 'ptr2int') else ('R12.3' if sc == 'buckets' else ('R12.5' if sc == 'selfapp' else ('R12.13' if sc == 'union_pun' else ('R12.15' if sc == 'impl_defined' else 'R12.4'))))),
                              'canaries/c12_nondeterminism.c:%s:false-alarm-%s' % (f, c), 'the %s scanner flags the benign canary function %s (%s)' % (sc, f, c))


def r126(P, rep):
    """a self-compiled chibicc can only equal the reference build if the translation rules hold for the
    constructs its own sources use: re-use the per-kind translation validation of C01/C02 (integer and floating
    conversion cells, operator emission, truth tests) and report every cell that is not a listed C01/C02 finding"""
    from ..report import Report
    from ..chibi import CG
    from . import c01, c02
    rep.rule('R12.6', 'self-compilation: every conversion cell and operator arm of the code generator translates its construct as C11 prescribes (same obligations as C01 R01.5/R01.6 and C02 R02.1-R02.5; cells with a listed C01/C02 finding are covered by the R12.5 lint instead)', floor=250)
    sub1 = Report('C01'); sub2 = Report('C02')
    cg = c01.wrap(CG(P))
    c01.r016(cg, sub1); sub1.rule('R01.5', '', 1); c01.r015(cg, sub1, 'int')
    sub2.rule('R02.1', '', 1); c01.r015(cg, sub2, 'fp'); c02.r022(cg, sub2); c02.r024(cg, sub2)
    for sub in (sub1, sub2):
        for o in sub.obs:
            if o['verdict'] == 'known-finding':
                continue
            key = o['key'].replace(':', '/', 1)
            if o['verdict'] == 'undecided':
                rep.undecided('R12.6', key, o['what'], where=o['where'])
            else:
                rep.ob('R12.6', key, o['verdict'] == 'holds', 'stage 2 would differ from stage 1 wherever chibicc\'s own sources use this construct: ' + o['what'], where=o['where'], facts=o['facts'])


def _import(rep, rule, sub, why):
    for o in sub.obs:
        if o['verdict'] == 'known-finding':
            continue
        key = o['key'].replace(':', '/', 1)
        if o['verdict'] == 'undecided':
            rep.undecided(rule, key, o['what'], where=o['where'])
        else:
            rep.ob(rule, key, o['verdict'] == 'holds', why + o['what'], where=o['where'], facts=o['facts'])


def r127(P, rep):
    """the emitted data image reads only bytes [0, size) of the object's image buffer (bytes beyond it are heap residue that
    changes with the allocation history and the address-space layout): C05's emit_data walk rule, re-used"""
    from ..report import Report
    from . import c05
    rep.rule('R12.7', 'emit_data emits exactly the object\'s own image bytes: position-bounded by the object size, 8 bytes per relocation, 1 byte otherwise (same obligations as C05 R05.5); a read past the image is heap residue in the output', floor=6)
    sub = Report('C05')
    c05.r055(P, sub)
    _import(rep, 'R12.7', sub, 'the output would depend on memory outside the object image (process state, address-space layout): ')


def r128(P, rep):
    """chibicc's own sources declare their globals `extern T x;` in chibicc.h and define them tentatively (`T x;`) in one unit:
    stage 2 links only if scan_globals keeps such a definition. C15's bounded-exhaustive scan_globals rule, re-used"""
    from ..report import Report
    from ..chibi import CG
    from . import c15
    rep.rule('R12.8', 'self-compilation: scan_globals removes a tentative definition only next to another definition (chibicc.h + main.c use `extern T x;` with a tentative `T x;`); same obligations as C15 R15.5 scan_globals', floor=5)
    sub = Report('C15')
    sub.rule('R15.5', '', 1)
    c15.r155_scan_globals(c15.ParseEnv(P, CG(P)), sub)
    _import(rep, 'R12.8', sub, 'stage 2 would not link or would differ where chibicc\'s own sources rely on this: ')


def r129(P, rep, tier):
    """chibicc's own tokenizer and parser store and discard long double values (every floating literal goes through strtold): the self-compiled
    compiler only behaves like the reference build if the code generator keeps the x87 stack balanced. C20's per-kind effect rules, re-used"""
    from ..report import Report
    from . import c20
    rep.rule('R12.9', 'self-compilation: every gen_expr / gen_stmt / gen_addr arm keeps the machine stack and the x87 register stack balanced (same obligations as C20 R20.1, R20.2, R20.7); chibicc\'s own sources evaluate long double expressions for every floating literal they read', floor=80)
    sub = Report('C20')
    c20.run(P, sub, tier)
    keep = [o for o in sub.obs if o['key'].split(':', 1)[0] in ('R20.1', 'R20.2', 'R20.7')]
    sub.obs = keep
    _import(rep, 'R12.9', sub, 'the self-compiled compiler would leak or underflow the x87/machine stack where its own sources use this construct: ')


def r1210(P, rep):
    """chibicc's sources have same-named file-scope statics in different units (output_file in main.c and codegen.c, current_fn in parse.c and codegen.c):
    stage 2 is the same program only if every static object keeps local binding. C15's emit_data decision table, re-used"""
    from ..report import Report
    from ..chibi import CG
    from . import c15
    rep.rule('R12.10', 'self-compilation: emit_data gives every object the binding, section, alignment and size its flags prescribe (same obligations as C15 R15.1); the units of chibicc share names of file-scope statics', floor=25)
    sub = Report('C15')
    c15.r151(CG(P), sub)
    _import(rep, 'R12.10', sub, 'stage 2 would not be the same program where chibicc\'s own units rely on this: ')


def r1211(P, rep, tier):
    """chibicc's sources nest loops, switches, break and continue freely (e.g. a do-while followed by `continue` in preprocess2) and use every
    integer operator on 64-bit operands in the constant folder: stage 2 is the same program only if statement contexts and operator typing are
    right. C03's context/skeleton rules and the typing rules of C01, re-used"""
    from ..report import Report, reissue
    from ..lib_types import r_common_type, r_add_type
    from . import c03
    rep.rule('R12.11', 'self-compilation: break/continue/switch contexts are saved and restored by every statement form, each form is lowered to an execution of the abstract machine, scopes pair up (same obligations as C03 R03.1, R03.3, R03.6, R03.7)', floor=60)
    sub = Report('C03')
    c03.run(P, sub, tier)
    reissue(rep, 'R12.11', sub, 'the self-compiled compiler would take another control path where its own sources use this form: ', keep=lambda o: o['key'].split(':', 1)[0] in ('R03.1', 'R03.3', 'R03.6', 'R03.7'))
    rep.rule('R12.12', 'self-compilation: every operator gets the C11 result type and operand conversions for every pair of integer types (same obligations as C01 R01.1, R01.2); the constant folder of the self-compiled compiler computes in the types add_type assigns', floor=300)
    sub = Report('C01')
    sub.rule('R01.1', '', 1); sub.rule('R01.2', '', 1)
    r_common_type(P, sub, 'R01.1', 'int')
    r_add_type(P, sub, 'R01.2', 'int')
    reissue(rep, 'R12.12', sub, 'the self-compiled compiler would compute in another type than the reference build: ')


def r1213(P, rep, tier):
    """what is printed may not depend on stack residue: every local union that is read through a member was fully written before (codegen prints the
    two 64-bit halves of a long double literal; an x87 store writes only 10 of the 16 bytes).  And the constant evaluator is the one piece of chibicc whose
    C semantics are unsequenced-sensitive (eval2 hands one `label` out-parameter to its operands): C07's relocation rules, re-used"""
    from ..report import Report, reissue
    from . import c07
    rep.rule('R12.13', 'every local union read through a member was completely written before the read (initialiser, memset of the whole object, or a store of at least that many bytes; a long double store writes 10 of 16)', floor=3)
    n = 0
    for un in P.unit_names:
        u = P.unit(un)
        for (fname, construct, node, msg) in scan_union_pun(u):
            n += 1
            key = '%s:%s:%s' % (u.name, fname, construct.lstrip('+#'))
            if construct.startswith('#'):
                rep.undecided('R12.13', key, msg, where='%s:%d' % (u.name, node.line))
            else:
                rep.ob('R12.13', key, construct.startswith('+'), msg, where='%s:%d' % (u.name, node.line))
    rep.rule('R12.15', 'chibicc\'s own sources do not depend on the signedness of an enumerated type (implementation-defined; unsigned int under gcc/clang, int under chibicc): no difference, negation or complement of enumerated operands is compared relationally, divided, shifted right or widened', floor=8)
    for un in P.unit_names:
        u = P.unit(un)
        hits = list(scan_impl_defined(u))
        for (fname, construct, node, msg) in hits:
            rep.ob('R12.15', '%s:%s:%s' % (u.name, fname, construct), False, msg, where='%s:%d' % (u.name, node.line))
        if not hits:
            rep.ob('R12.15', '%s:no-dependence-on-enum-signedness' % u.name, True, '')
    rep.rule('R12.14', 'the constant evaluator hands its relocation out-parameter to at most one operand of an operator and folds every operator as C11 prescribes (same obligations as C07): two operands writing one label make the result depend on the evaluation order the host compiler chose, which differs between the reference build and the self-compiled one', floor=100)
    sub = Report('C07')
    c07.run(P, sub, tier)
    reissue(rep, 'R12.14', sub, 'the self-compiled compiler would fold or relocate differently from the reference build: ')


# the unordered-operand scanner needs whole-program summaries, so its canary is a program of its own (kept here: one translation unit)
UNSEQ_CANARY = r"""
void exit(int); int printf(const char *, ...);
static void die(const char *m) { printf("%s", m); exit(1); }
static int need(int x) { if (!x) die("bad"); return x; }
static int next_id(void) { static int id; return id++; }
static int step(int **p) { (*p)++; return 0; }
static int twice(int x) { return 2 * x; }
static int pair(int a, int b) { return a - b; }
int bad_both_diagnose(int a, int b) { return need(a) * need(b); }
int bad_args(int a, int b) { return pair(need(a), need(b)); }
int bad_static(void) { return next_id() - next_id(); }
int bad_local(int *p) { return step(&p) + *p; }
int good_sequenced(int a, int b) { int l = need(a); int r = need(b); return l * r; }
int good_pure(int a, int b) { return twice(a) + pair(twice(b), a); }
int good_logical(int a, int b) { return (need(a) && need(b)) || (need(b), need(a)) ? need(a) : need(b); }
int good_out_param(int *p) { int r = step(&p); return r + *p; }
"""
UNSEQ_EXPECT = [('bad_both_diagnose', 'operands-of-mul-both-may-diagnose(need;need)'), ('bad_args', 'arguments-of-pair-both-may-diagnose(need;need)'),
                ('bad_static', 'operands-of-sub-share-static-'), ('bad_local', 'operands-of-add-share-local-p')]


class _OneUnit:
    def __init__(self, u):
        self.unit_names = [u.name]
        self._u = u

    def unit(self, name):
        return self._u


def run_unseq_canary(P, rep):
    src = os.path.join(P.dir, 'c12_unsequenced_canary.c')
    j = src + '.json'
    with open(src, 'w') as f:
        f.write(UNSEQ_CANARY)
    with open(j, 'w') as f:
        p = subprocess.run(['clang-14', '-std=c11', '-w', '-fsyntax-only', '-Xclang', '-ast-dump=json', src], stdout=f, stderr=subprocess.PIPE, text=True)
    if p.returncode != 0:
        raise AnalysisBroken('clang failed on the R12.17 canary: ' + p.stderr[-300:])
    cu = Unit(src, j, P.dir)
    for x in (src, j):
        try:
            os.unlink(x)
        except OSError:
            pass
    one = _OneUnit(cu)
    got = [(f, c) for (f, c, n, m) in scan_unsequenced(Effects(one, L.CallGraph(one)), cu) if c != '+candidate']
    for (fn, prefix) in UNSEQ_EXPECT:
        if any(f == fn and c.startswith(prefix) for (f, c) in got):
            rep.ob('R12.17', 'canary:%s:flagged-%s' % (fn, prefix.rstrip('-')), True, '')
        else:
            rep.undecided('R12.17', 'canary:%s:%s' % (fn, prefix.rstrip('-')), 'the unordered-operand scanner no longer flags the canary pattern in %s(): the rule is dead' % fn)
    for (f, c) in got:
        if f.startswith('good_'):
            rep.undecided('R12.17', 'canary:%s:false-alarm-%s' % (f, c), 'the unordered-operand scanner flags the benign canary function %s (%s)' % (f, c))


def r1216(P, rep, cg):
    """whether the driver goes on to the next stage, and its exit status, are a function of the status of the stage it started - not of which other
    children the process happens to own (a process keeps its children across exec), not of a status variable nobody wrote. C14's launcher rule, re-used."""
    from ..report import Report, reissue
    from . import c14
    rep.rule('R12.16', 'the result depends only on input and options, not on process state: on every path of a launcher the status that decides success or failure is the status of the '
                       'child that was started (own child reaped before return, no status of another child, no uninitialised status, no discarded status); same obligations as C14 R14.4', floor=4)
    sub = Report('C14')
    try:
        u = P.unit('main.c')
        c14.r143_r144(P, u, c14.Agg(sub, defined=lambda fn: fn in cg.defs), cg, cg.reach('main'), {})
    except AnalysisBroken as e:
        rep.undecided('R12.16', 'main.c:launcher:interpretation', str(e))
        return
    reissue(rep, 'R12.16', sub, 'the outcome of a compilation (exit status, whether the output file is produced) would depend on the state of the process, not only on input and options: ',
            keep=lambda o: o['key'].startswith('R14.4:'))


def r1217(P, rep, cg):
    rep.rule('R12.17', 'chibicc\'s own sources do not depend on the order in which the operands of an operator or the arguments of a call are evaluated (unspecified in C; left-first in the host '
                       'compiler, right-first in chibicc): no two such operands both contain a call that can end the run with a diagnostic, write output or consume input; none writes a static '
                       'object or a local (directly or through its address handed to a call) that the other reads or writes', floor=100)
    run_unseq_canary(P, rep)
    E = Effects(P, cg)
    for must in ('error_tok', 'error'):
        if 'exit' not in E.act.get(must, ()):
            rep.undecided('R12.17', 'anchor:%s' % must, 'the diagnostic function %s no longer reaches exit(): the effect summaries are not usable' % must)
    for un in P.unit_names:
        u = P.unit(un)
        for (fname, construct, node, msg) in scan_unsequenced(E, u):
            if construct == '+candidate':
                rep.ob('R12.17', '%s:%s:unordered-operands-are-independent' % (u.name, fname), True, '', where='%s:%d' % (u.name, node.line))
            else:
                rep.ob('R12.17', '%s:%s:%s' % (u.name, fname, construct), False, msg, where='%s:%d' % (u.name, node.line))


# ---- R12.18 definite assignment of automatic objects (sa/lib_c12da.py)
DA_CANARY = r"""
void exit(int); int printf(const char *, ...); long strtol(const char *, char **, int);
typedef struct T T; struct T { T *next; int v; };
static _Noreturn void die(void) { exit(1); }
static int probe(const char *p) { return p[0] == '/'; }
static int lookup(const char *p) { return p[1]; }
static void always(int *out, int v) { if (v) { *out = 1; return; } *out = 2; }
static void sometimes(int *out, int v) { if (v) *out = 1; }
static int maybe(int *out, int v) { if (v) { *out = v; return 1; } return 0; }
static void range(int *lo, int *hi, long a, long b) { *lo = a; if (b < a) die(); *hi = b; }
int bad_branch(const char *p) { int idx; if (!probe(p)) idx = lookup(p); return idx; }
int bad_loop_iteration(const char **v, int n) { int s = 0; for (int i = 0; i < n; i++) { int idx; if (!probe(v[i])) idx = lookup(v[i]); s += idx; } return s; }
int bad_out_param(int v) { int r; sometimes(&r, v); return r; }
int bad_zero_trip(int n) { int last; for (int i = 0; i < n; i++) last = i; return last; }
int bad_switch(int k) { int r; switch (k) { case 1: r = 10; break; case 2: r = 20; } return r; }
T *bad_list_head(T *a, int n) { T head; T *cur = &head; for (int i = 0; i < n; i++) cur = cur->next = a + i; return head.next; }
int bad_member(int k) { T t; t.v = k; return t.next != 0; }
typedef struct { char **data; int len; int cap; } SA;
static void sa_push(SA *a, char *s) { if (!a->data) { a->data = 0; a->cap = 8; } a->len++; }
static void sa_init(SA *a) { a->data = 0; a->len = 0; a->cap = 0; }
int bad_callee_reads(char *s) { SA arr; sa_push(&arr, s); return arr.len; }
int good_callee_reads(char *s) { SA arr; sa_init(&arr); sa_push(&arr, s); return arr.len; }
void *malloc(unsigned long); void *calloc(unsigned long, unsigned long); void *realloc(void *, unsigned long);
T *bad_malloc(void) { T *t = malloc(sizeof(T)); t->v = 1; return t; }
char **bad_realloc(char **v, int n) { char **w = realloc(v, 8 * n); return w; }
char **good_realloc(char **v, int n) { v = realloc(v, 8 * (n + 1)); v[n] = 0; return v; }
T *good_calloc(void) { T *t = calloc(1, sizeof(T)); t->v = 1; return t; }
int good_branch(const char *p) { int idx; if (probe(p)) idx = 0; else idx = lookup(p); return idx; }
int good_die(const char *p) { int idx; if (probe(p)) idx = 0; else die(); return idx; }
int good_out_param(int v) { int r; always(&r, v); return r; }
int good_cond_out(int v) { int r; if (!maybe(&r, v)) return -1; return r; }
int good_endptr(const char *p) { char *end; long v = strtol(p, &end, 10); return *end ? -1 : (int)v; }
int good_switch(int k) { int r; switch (k) { case 1: r = 10; break; case 2: r = 20; break; default: return 0; } return r; }
int good_loop(int n) { int last; int i = 0; do { last = i; i++; } while (i < n); return last; }
int good_range(long a, long b) { int lo, hi; range(&lo, &hi, a, b); int last; for (int j = lo; j <= hi; j++) last = j; return last; }
T *good_list_head(T *a, int n) { T head; T *cur = &head; for (int i = 0; i < n; i++) cur = cur->next = a + i; cur->next = 0; return head.next; }
int good_goto(int k) { int r; if (k) goto set; r = 1; goto out; set: r = 2; out: return r; }
int good_and(const char *p) { int idx; if (probe(p) && (idx = lookup(p)) > 0) return idx; return 0; }
"""
DA_EXPECT = [('bad_branch', 'idx'), ('bad_loop_iteration', 'idx'), ('bad_out_param', 'r'), ('bad_zero_trip', 'last'), ('bad_switch', 'r'),
             ('bad_list_head', 'head.next'), ('bad_member', 't.next'), ('bad_callee_reads', 'arr.data')]


def _da_construct(name, part):
    return 'read-of-%s-not-written-on-every-path' % (name if not part else '%s.%s' % (name, part))


def _da_msg(fname, name, part, how):
    return ('%s reads the automatic object `%s` on a path on which nothing was stored into it%s: the value is whatever the stack slot held (it changes with the address-space layout, the '
            'calls made before and the previous iteration of the enclosing loop), so what the compiler produces no longer depends on input and options only'
            % (fname, name if not part else '%s.%s' % (name, part), ' (%s)' % how if how else ''))


def r1218(P, rep, units):
    from .. import lib_c12da as D
    rep.rule('R12.18', 'no value is read from an automatic object that is not written on every path to the read: for every local of the compiler declared without initialiser (arithmetic, '
                       'enumerated, pointer; struct member-wise) each read is preceded on every path by a store by name, by a store through a pointer of its type when its address is kept in one, or by a call '
                       'that receives its address and stores through that parameter on every returning path (whole-program summaries, greatest fixpoint; loops may run zero times unless the bounds come '
                       'ordered from one call; a declaration inside a loop is indeterminate again on every iteration)', floor=25)
    # canary
    src = os.path.join(P.dir, 'c12_da_canary.c')
    j = src + '.json'
    with open(src, 'w') as f:
        f.write(DA_CANARY)
    with open(j, 'w') as f:
        p = subprocess.run(['clang-14', '-std=c11', '-w', '-fsyntax-only', '-Xclang', '-ast-dump=json', src], stdout=f, stderr=subprocess.PIPE, text=True)
    if p.returncode != 0:
        raise AnalysisBroken('clang failed on the R12.18 canary: ' + p.stderr[-300:])
    cu = Unit(src, j, P.dir)
    for x in (src, j):
        try:
            os.unlink(x)
        except OSError:
            pass
    got = set()
    for (u, fname, fd, a) in D.World([cu]).results():
        for (node, name, part, how) in a.reads:
            got.add((fname, name if not part else '%s.%s' % (name, part)))
    for (fn, what) in DA_EXPECT:
        if (fn, what) in got:
            rep.ob('R12.18', 'canary:%s:flagged-%s' % (fn, what), True, '')
        else:
            rep.undecided('R12.18', 'canary:%s:%s' % (fn, what), 'the definite-assignment analysis no longer flags the read of %s in the canary function %s(): the rule is dead' % (what, fn))
    for (fn, what) in sorted(got):
        if fn.startswith('good_'):
            rep.undecided('R12.18', 'canary:%s:false-alarm-%s' % (fn, what), 'the definite-assignment analysis flags the benign canary function %s (%s)' % (fn, what))
    _declare_1219(rep)
    hgot = set((f, c) for (f, c, n, m) in scan_heap(cu) if m is not None)
    for (fn, what) in (('bad_malloc', 'calls-malloc'), ('bad_realloc', 'realloc-result-not-filled')):
        if (fn, what) in hgot:
            rep.ob('R12.19', 'canary:%s:flagged-%s' % (fn, what), True, '')
        else:
            rep.undecided('R12.19', 'canary:%s:%s' % (fn, what), 'the allocation scanner no longer flags %s in the canary function %s(): the rule is dead' % (what, fn))
    for (fn, what) in sorted(hgot):
        if fn.startswith('good_'):
            rep.undecided('R12.19', 'canary:%s:false-alarm-%s' % (fn, what), 'the allocation scanner flags the benign canary function %s' % fn)
    # the compiler
    W = D.World(units)
    if not W.stable:
        rep.undecided('R12.18', 'summaries:fixpoint', 'the out-parameter summaries did not stabilise within the round limit')
    for must in ('error', 'error_tok', 'error_at'):
        if must not in W.noreturn:
            rep.undecided('R12.18', 'anchor:%s' % must, 'the diagnostic function %s is no longer known not to return: every path through an error branch would count' % must)
    nwriters = sum(1 for f, w in W.writes.items() if w and f not in D.LIBC_WRITES)
    if nwriters < 20:
        rep.undecided('R12.18', 'summaries:out-parameter-writers', 'only %d functions are recognised as storing through an out-parameter on every returning path (the parser alone has more than 40)' % nwriters)
    rep.extra['definite_assignment'] = {'out-parameter writers': nwriters, 'rounds': W.rounds, 'ordered out-parameters': {k: sorted(v) for k, v in W.ordered.items()}}
    for (u, fname, fd, a) in W.results():
        if getattr(a, 'unstable', False):
            rep.undecided('R12.18', '%s:%s:labels' % (u.name, fname), 'the states at the labels of %s did not stabilise' % fname, where='%s:%d' % (u.name, fd.line))
            continue
        seen = set()
        for (node, name, part, how) in a.reads:
            c = _da_construct(name, part)
            if c in seen:
                continue
            seen.add(c)
            rep.ob('R12.18', '%s:%s:%s' % (u.name, fname, c), False, _da_msg(fname, name, part, how), where='%s:%d' % (u.name, node.line))
        if a.nplaces and not a.reads:
            rep.ob('R12.18', '%s:%s:locals-without-initialiser-written-before-every-read' % (u.name, fname), True, '', where='%s:%d' % (u.name, fd.line),
                   facts={'locals': a.nplaces, 'reads': a.ok_reads})


# ---- R12.19 heap objects start zero-filled
UNZEROED_ALLOC = ('malloc', 'aligned_alloc', 'memalign', 'posix_memalign', 'valloc', 'pvalloc', 'alloca', '__builtin_alloca', 'reallocarray')


def scan_heap(u):
    """(function, construct, node, message | None): allocation calls whose result holds residue of the heap / stack.  realloc is the growth idiom only:
    the result goes back into the lvalue that was its first argument, and the same function stores into elements of that lvalue afterwards."""
    for fname, fd in u.functions.items():
        for c in fd.calls():
            cal = c.callee()
            if cal in UNZEROED_ALLOC:
                yield (fname, 'calls-%s' % cal, c, '%s() obtains memory with %s(): its bytes are whatever the heap (or stack) held, which differs with the allocation history and the '
                       'address-space layout; every object of the compiler is obtained zero-filled (calloc) so that members nobody stored into read as 0' % (fname, cal))
            elif cal == 'realloc':
                a = c.args()
                par = c.parent
                while par is not None and par.kind in ('ImplicitCastExpr', 'ParenExpr', 'CStyleCastExpr'):
                    par = par.parent
                back = par is not None and par.kind == 'BinaryOperator' and par.opcode == '=' and a and par.inner[0].src() == a[0].strip().src()
                stores = 0
                if back:
                    tgt = par.inner[0].src()
                    after = False
                    for n in fd.walk():
                        if n is par:
                            after = True
                        if n.kind == 'BinaryOperator' and n.opcode == '=' and after and n is not par:
                            l = n.inner[0].strip()
                            if l.kind == 'ArraySubscriptExpr' and l.inner and l.inner[0].strip().src() == tgt:
                                stores += 1
                if back and stores:
                    yield (fname, '+realloc-grows-%s-and-fills-it' % _slug(a[0].strip().src()), c, None)
                else:
                    yield (fname, 'realloc-result-not-filled', c, '%s() takes memory from realloc() %s: the added bytes are heap residue'
                           % (fname, 'without storing into the elements of the grown array afterwards' if back else 'into another object than the one it grows'))


def _declare_1219(rep):
    rep.rule('R12.19', 'every heap object of the compiler starts zero-filled: no malloc / aligned_alloc / alloca family call in any unit; realloc only grows an array in place whose elements the same function stores into afterwards', floor=8)


def r1219(P, rep, units):
    _declare_1219(rep)
    for u in units:
        hits = 0
        for (fname, construct, node, msg) in scan_heap(u):
            if msg is None:
                rep.ob('R12.19', '%s:%s:%s' % (u.name, fname, construct.lstrip('+')), True, '', where='%s:%d' % (u.name, node.line))
            else:
                hits += 1
                rep.ob('R12.19', '%s:%s:%s' % (u.name, fname, construct), False, msg, where='%s:%d' % (u.name, node.line))
        if not hits:
            rep.ob('R12.19', '%s:no-unzeroed-allocation' % u.name, True, '')
    ncalloc = sum(len(fd.calls('calloc')) for u in units for fd in u.functions.values())
    if ncalloc < 20:
        rep.undecided('R12.19', 'calloc-sites', 'only %d calloc calls recognised (the compiler allocates its objects in more than 30 places): allocation goes through something this rule does not see' % ncalloc)


# ------------------------------------------------------------------------ run ---
def run(P, rep, tier):
    rep.explanation = ('Determinism clause of C12 only: which functions may obtain a value that differs from run to run (time, pid, random, environment, '
                       'file metadata, temp names) and where the time value flows; no address-valued data in format arguments or integer conversions; '
                       'hash-table bucket arrays touched only by the table implementation; numbering sources are function-local static counters changed only by ++. '
                       'Every scanner is exercised on a canary file on each run. NOT decided: the fixpoint itself (stage-2 = stage-1 output on every input, stage 2 = stage 3); '
                       'a miscompilation of a construct chibicc\'s own sources use is covered by re-running the C01/C02 translation rules (R12.6).')
    rep.assumptions += ['libc functions outside the source table are deterministic functions of their arguments and of file contents',
                        'pointer comparisons and pointer differences are within one object (not checked)',
                        'uninitialised heap memory is not read (automatic objects: R12.18 for scalars, pointers and struct members; R12.13 for unions; local arrays are not followed)',
                        'R12.18: a C-library call stores through its result parameters as the standard says (strtol endptr, open_memstream, stat/wait on success - callers test the result); '
                        'a store through a pointer of the type of a local whose address is kept in a pointer counts as a store into that local (aliases are not followed)',
                        'R12.17: two unordered operand evaluations interfere only through the end of the run (exit reachable, unreachable() excluded), output, input, '
                        'static objects assigned by name (variable, member, element, or address taken) and locals named in the operands; writes to heap objects through pointers are not followed; '
                        'a function whose address is taken counts as called by the function that takes it; a call through a pointer has every effect']
    rep.rule('R12.1', 'time / pid / random / environment / file-metadata / temp-name sources are called only by their allow-listed function, and the time value reaches only __DATE__/__TIME__ (and __TIMESTAMP__ through its one builtin)', floor=14)
    rep.rule('R12.2', 'no %p and no pointer for an integer conversion in any printf-like call; pointer->integer conversions only in the allow-listed test code', floor=10)
    rep.rule('R12.3', 'HashMap.buckets is touched only by functions of hashmap.c, none of which produces output', floor=6)
    rep.rule('R12.4', 'every function-local static integer (label / name / __COUNTER__ / file numbering) has a constant initial value and is changed only by ++', floor=6)
    rep.rule('R12.5', 'self-application lint: chibicc\'s own units do not contain constructs that a known finding says chibicc miscompiles (fp -> unsigned 64-bit, unsigned 64-bit -> float, discarded long double value, value of a long double assignment); an item retires when its finding is no longer listed', floor=13)
    run_canary(P, rep)
    r126(P, rep)
    r127(P, rep)
    r128(P, rep)
    r129(P, rep, tier)
    r1210(P, rep)
    r1211(P, rep, tier)
    r1213(P, rep, tier)
    cg = L.CallGraph(P)
    r1216(P, rep, cg)
    r1217(P, rep, cg)
    units = [P.unit(n) for n in P.unit_names]
    r1218(P, rep, units)
    r1219(P, rep, units)
    # ---------------- R12.1
    allowed_seen = {}
    idkeys = identity_key_functions(units)
    for f in sorted(idkeys):
        rep.ob('R12.1', 'identity-key:%s:inode-numbers-reach-key-comparisons-only' % f, True, '')
    for u in units:
        for fname, fd in u.functions.items():
            for c in fd.calls():
                cal = c.callee()
                if cal in ALLOW and fname in ALLOW[cal]:
                    allowed_seen.setdefault((u.name, fname), set()).add(cal)
        for (fname, construct, node, msg) in scan_sources(u, idkeys):
            src = construct[6:] if construct.startswith('calls-') else None
            gone = [a for a in ALLOW.get(src, ()) if a not in cg.defs] if src else ([] if 'timestamp_macro' in cg.defs else ['timestamp_macro'])
            if gone:
                rep.undecided('R12.1', '%s:%s:%s' % (u.name, fname, construct),
                              'allow-listed function %s vanished while %s %s: cannot tell a rename from a new use' % ('/'.join(gone), fname, construct.replace('-', ' ')), where='%s:%d' % (u.name, node.line))
                continue
            rep.ob('R12.1', '%s:%s:%s' % (u.name, fname, construct), False, msg + ' [call path: %s]' % cg.witness(fname), where='%s:%d' % (u.name, node.line))
    for (un, fname), cals in sorted(allowed_seen.items()):
        rep.ob('R12.1', '%s:%s:allowed-source(%s)' % (un, fname, ','.join(sorted(cals))), True, '')
    for must in ('init_macros', 'timestamp_macro', 'file_exists', 'create_tmpfile'):
        if not any(f == must for (_, f) in allowed_seen):
            rep.undecided('R12.1', 'anchor:%s' % must, 'the allow-listed function %s no longer exists or no longer calls its source: the allow list is stale' % must)
    # time flow in init_macros
    for u in units:
        for (fname, construct, node, msg) in scan_time_flow(u):
            if construct == '#tainted':
                if msg == 0:
                    rep.undecided('R12.1', '%s:init_macros:time-flow' % u.name, 'no local of init_macros receives the time value: flow not recognised')
                elif not any(c2 != '#tainted' for (_, c2, _, _) in scan_time_flow(u)):
                    rep.ob('R12.1', '%s:init_macros:time-flows-only-to-date-and-time-macros' % u.name, True, '', where='%s:%d' % (u.name, node.line))
                continue
            rep.ob('R12.1', '%s:%s:%s' % (u.name, fname, construct), False, msg, where='%s:%d' % (u.name, node.line))
    # the builtin that reads file metadata is registered for __TIMESTAMP__ only and never called directly
    for (un, fname) in sorted(allowed_seen):
        if fname != 'timestamp_macro':
            continue
        for (cu, caller, call) in cg.sites.get(fname, ()):
            rep.ob('R12.1', '%s:%s:calls-timestamp_macro' % (cu.name, caller), False,
                   'timestamp_macro (file modification time) is called directly from %s' % caller, where='%s:%d' % (cu.name, call.line))
        nreg = 0
        for (cu, user, ref) in cg.refs.get(fname, ()):
            call = ref.enclosing('CallExpr')
            name = call.args()[0].str_value() if call is not None and call.callee() == 'add_builtin' and call.args() else None
            nreg += 1
            rep.ob('R12.1', '%s:%s:timestamp_macro-registered-as-%s' % (cu.name, user, name or 'unknown'), name == '__TIMESTAMP__',
                   'the file-modification-time builtin is installed under %r instead of __TIMESTAMP__' % name, where='%s:%d' % (cu.name, ref.line))
        if nreg == 0:
            rep.undecided('R12.1', '%s:timestamp_macro:registration' % un, 'timestamp_macro is never registered')
    # the temp name handed to cc1 (-cc1-output -> output_file) is only ever opened, never printed
    mu = P.unit('main.c')
    if 'output_file' in mu.globals:
        gid = mu.globals['output_file'].id
        reads = 0
        for fname, fd in mu.functions.items():
            for n in fd.walk():
                if n.kind == 'DeclRefExpr' and n.ref_id == gid:
                    par = n.parent
                    while par is not None and par.kind in ('ImplicitCastExpr', 'ParenExpr'):
                        par = par.parent
                    if par is not None and par.kind == 'BinaryOperator' and par.opcode == '=' and par.inner[0].strip() is n:
                        continue
                    reads += 1
                    ok = par is not None and par.kind == 'CallExpr' and par.callee() in ('open_file', 'fopen')
                    rep.ob('R12.1', 'main.c:%s:output-name-%s' % (fname, 'only-opened' if ok else 'used-as-data'), ok,
                           'the -cc1-output name (a mkstemp name in -c/link mode) is used in %s other than to open the file (%s): a run-specific name could reach the output' % (fname, par.src() if par is not None else '?'),
                           where='main.c:%d' % n.line)
        if reads == 0:
            rep.undecided('R12.1', 'main.c:output_file:no-read', 'global output_file is never read')
    else:
        rep.undecided('R12.1', 'main.c:output_file', 'global output_file vanished')
    # ---------------- R12.2
    nfmt = 0
    for u in units:
        for fname, fd in u.functions.items():
            nfmt += sum(1 for c in fd.calls() if c.callee() in PRINTF_LIKE)
        flagged = list(scan_format(u))
        for (fname, construct, node, msg) in flagged:
            rep.ob('R12.2', '%s:%s:%s' % (u.name, fname, construct), False, msg, where='%s:%d' % (u.name, node.line))
        if not flagged:
            rep.ob('R12.2', '%s:format-arguments-carry-no-address' % u.name, True, '')
        for (fname, construct, node, msg) in scan_ptr2int(u):
            ok = (u.name, fname) in PTR2INT_ALLOWED
            rep.ob('R12.2', '%s:%s:%s' % (u.name, fname, construct if not ok else 'pointer-to-integer-in-test-code'), ok, msg, where='%s:%d' % (u.name, node.line))
    if nfmt < 300:
        rep.undecided('R12.2', 'printf-like-calls', 'only %d printf-like calls recognised (expected > 300: println/format/error family)' % nfmt)
    hu = P.unit('hashmap.c')
    if 'fnv_hash' not in hu.functions:
        rep.undecided('R12.2', 'hashmap.c:fnv_hash', 'hash function vanished')
    else:
        # the hash reads key bytes: its pointer parameter is only indexed / dereferenced
        fd = hu.fn('fnv_hash')
        params = [p for p in fd.inner if p.kind == 'ParmVarDecl' and _is_ptr_type(p.type)]
        bad = []
        for n in fd.walk():
            if n.kind == 'DeclRefExpr' and any(n.ref_id == p.id for p in params):
                par = n.parent
                while par is not None and par.kind in ('ImplicitCastExpr', 'ParenExpr') and par.cast_kind in (None, 'LValueToRValue', 'NoOp'):
                    par = par.parent
                if par is None or par.kind not in ('ArraySubscriptExpr', 'UnaryOperator') or (par.kind == 'UnaryOperator' and par.opcode not in ('*', '++', '--')):
                    if not (par is not None and par.kind == 'ImplicitCastExpr' and par.cast_kind == 'BitCast' and par.parent is not None and par.parent.kind in ('ArraySubscriptExpr',)):
                        bad.append(par.src() if par is not None else '?')
        rep.ob('R12.2', 'hashmap.c:fnv_hash:hashes-bytes-not-address', bool(params) and not bad,
               'fnv_hash uses its key pointer other than to read the key bytes (%s): bucket order would depend on addresses' % ', '.join(bad), where='hashmap.c:%d' % fd.line)
    # ---------------- R12.3
    for u in units:
        for (fname, construct, node, info) in scan_buckets(u):
            inside = u.name == 'hashmap.c'
            rep.ob('R12.3', '%s:%s:%s' % (u.name, fname, 'buckets-inside-table-implementation' if inside else 'walks-buckets'), inside,
                   '%s (%s) reads HashMap.buckets directly: iteration order over a hash table depends on capacity history and must not be observable [call path: %s]' % (fname, u.name, cg.witness(fname)),
                   where='%s:%d' % (u.name, node.line))
            if inside:
                rep.ob('R12.3', '%s:%s:%s' % (u.name, fname, 'bucket-walker-is-silent' if not info['prints'] else 'bucket-walker-prints'), not info['prints'],
                       '%s touches the bucket array and produces output (%s): table order becomes visible' % (fname, ', '.join(info['prints'])), where='%s:%d' % (u.name, node.line))
    # ---------------- R12.5  (an item is live only while the corresponding finding is still listed as open)
    open_keys = [k for (pid, k) in rep.known if pid in SELFAPP_NEEDS_PID]
    live = set(item for item, pats in SELFAPP_NEEDS.items() if any(all(p in k for p in pat) for k in open_keys for pat in pats))
    rep.extra['self_application_items'] = {'live': sorted(live), 'retired (finding no longer listed)': sorted(set(SELFAPP_NEEDS) - live)}
    for u in units:
        hits = [h for h in scan_selfapp(u) if h[1] in live]
        for (fname, construct, node, msg) in hits:
            rep.ob('R12.5', '%s:%s:%s' % (u.name, fname, construct), False, msg, where='%s:%d' % (u.name, node.line))
        if not hits:
            rep.ob('R12.5', '%s:no-known-miscompiled-construct' % u.name, True, '')
    # ---------------- R12.4
    for u in units:
        found = {}
        for (fname, vname, node, info) in scan_counters(u):
            found.setdefault(fname, []).append(vname)
            for (n, what) in info['bad']:
                rep.ob('R12.4', '%s:%s:static-%s' % (u.name, fname, what), False,
                       'the numbering source `%s` of %s is %s (%s): numbers are no longer the count of earlier requests, so labels/names can collide or differ between identical runs' % (vname, fname, what.replace('-', ' '), n.src()),
                       where='%s:%d' % (u.name, n.line))
            if not info['init_const']:
                rep.ob('R12.4', '%s:%s:static-initialiser' % (u.name, fname), False, 'static `%s` is not initialised by an integer constant' % vname, where='%s:%d' % (u.name, node.line))
            if not info['bad'] and info['init_const']:
                rep.ob('R12.4', '%s:%s:static-counter-only-incremented' % (u.name, fname), info['incs'] >= 1 or fname not in NUMBERING_FNS.get(u.name, ()),
                       'the numbering source `%s` of %s is never incremented: every request gets the same number' % (vname, fname), where='%s:%d' % (u.name, node.line))
        for fn in NUMBERING_FNS.get(u.name, ()):
            if fn not in u.functions:
                rep.undecided('R12.4', '%s:%s:vanished' % (u.name, fn), 'numbering function %s vanished' % fn)
            elif fn not in found:
                # the counter may have been moved to file scope: find the static-storage integer it increments
                fd = u.fn(fn)
                incs = [n for n in fd.walk() if n.kind == 'UnaryOperator' and n.opcode == '++' and n.inner[0].strip().kind == 'DeclRefExpr'
                        and n.inner[0].strip().ref_name in u.globals and u.globals[n.inner[0].strip().ref_name].id == n.inner[0].strip().ref_id]
                if not incs:
                    rep.undecided('R12.4', '%s:%s:no-counter' % (u.name, fn), 'numbering function %s has no static integer counter any more: shape not recognised' % fn)
                    continue
                g = u.globals[incs[0].inner[0].strip().ref_name]
                bad = []
                for f2, fd2 in u.functions.items():
                    for n in fd2.walk():
                        if ((n.kind == 'BinaryOperator' and n.opcode == '=') or n.kind == 'CompoundAssignOperator' or (n.kind == 'UnaryOperator' and n.opcode in ('--', '&'))):
                            t = n.inner[0].strip()
                            if t.kind == 'DeclRefExpr' and t.ref_id == g.id:
                                bad.append((f2, n))
                is_static = g.d.get('storageClass') == 'static'
                rep.ob('R12.4', '%s:%s:file-scope-counter-only-incremented' % (u.name, fn), not bad and is_static,
                       'the numbering source `%s` used by %s is %s' % (g.name, fn, ('written other than by ++ in ' + ', '.join(sorted(set(f for f, _ in bad)))) if bad else 'not static (visible to other units)'),
                       where='%s:%d' % (u.name, g.line))
